#!/bin/bash
# usage: ./check.sh <property id> <quick|thorough> [extra gopkicheck flags]
# Decides the structural obligations of one property on /repo's current working tree.
# Static analysis only: /repo is loaded, type-checked and analysed, never executed.
set -u
cd "$(dirname "$0")"
export GOFLAGS=-mod=mod GOPROXY=off GOSUMDB=off GOTOOLCHAIN=local GOWORK=off
unset GOOS GOARCH
BIN=./bin/gopkicheck
if [ ! -x "$BIN" ] || [ -n "$(find checker -name '*.go' -newer "$BIN" 2>/dev/null | head -1)" ]; then
  ./setup.sh >/dev/null 2>&1 || { echo "UNDECIDED: checker does not build"; ./setup.sh; exit 1; }
fi
ID="$1"; TIER="${2:-quick}"; shift; shift || true
exec "$BIN" -prop "$ID" -tier "$TIER" -repo "${REPO:-/repo}" -verif "$(pwd)" "$@"
