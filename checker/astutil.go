package main

import (
	"go/ast"
	"go/constant"
	"go/token"
	"go/types"

	"golang.org/x/tools/go/ssa"
)

// curveKeyConstAST recognises the expression curves[K].Params().Name (K a constant)
// and returns K's value rendered as a decimal string.
func curveKeyConstAST(c *Ctx, info *types.Info, e interface{ Pos() token.Pos }, curvesG []*ssa.Global) (string, string) {
	expr, ok := e.(ast.Expr)
	if !ok {
		return "", "not an expression"
	}
	sel, ok := ast.Unparen(expr).(*ast.SelectorExpr)
	if !ok || sel.Sel.Name != "Name" {
		return "", "key is not <curve>.Params().Name: " + types.ExprString(expr)
	}
	call, ok := ast.Unparen(sel.X).(*ast.CallExpr)
	if !ok {
		return "", "key is not <curve>.Params().Name: " + types.ExprString(expr)
	}
	psel, ok := ast.Unparen(call.Fun).(*ast.SelectorExpr)
	if !ok || psel.Sel.Name != "Params" {
		return "", "key is not <curve>.Params().Name: " + types.ExprString(expr)
	}
	ix, ok := ast.Unparen(psel.X).(*ast.IndexExpr)
	if !ok {
		return "", "curve is not an index into the curves table: " + types.ExprString(expr)
	}
	if len(curvesG) != 1 || info.Uses[identOf(ix.X)] != curvesG[0].Object() {
		return "", "curve is not taken from the curves table: " + types.ExprString(expr)
	}
	tv, ok := info.Types[ix.Index]
	if !ok || tv.Value == nil || tv.Value.Kind() != constant.Int {
		return "", "curves index is not constant: " + types.ExprString(expr)
	}
	return tv.Value.ExactString(), ""
}

// funcDecl finds the syntax of an SSA function.
func (c *Ctx) funcDecl(fn *ssa.Function) (*ast.FuncDecl, *types.Info) {
	if fn == nil {
		return nil, nil
	}
	if fd, ok := fn.Syntax().(*ast.FuncDecl); ok {
		p, _ := c.FileOf(fd.Pos())
		if p != nil {
			return fd, p.TypesInfo
		}
	}
	return nil, nil
}
