package main

// ModGraph is the module call graph with escape edges (built lazily; see callgraph_build.go).
type ModGraph struct {
	Out map[string][]cgEdge // caller key -> edges
}

type cgEdge struct {
	Callee string
	Site   string
	Kind   string // static | invoke | closure | escape
}
