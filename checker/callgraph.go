package main

import (
	"go/types"
	"sort"
	"strings"

	"golang.org/x/tools/go/ssa"
)

// ModGraph is the module call graph with escape edges (DESIGN.md 2.1):
//   - static calls are resolved exactly;
//   - an interface invoke goes to every module type whose method set satisfies the interface
//     (CHA restricted to the module; sound for values created through reflection as long as
//     their type is in the program);
//   - calls of function values go to every module function of identical signature whose value is
//     taken somewhere (closures, method values, function-typed fields);
//   - escape edges: a module function value handed to a library call is called at that site, and
//     a module value converted to an interface and handed to a library call makes its methods
//     callable from that site.
type ModGraph struct {
	c     *Ctx
	Out   map[*ssa.Function][]cgEdge
	Nodes []*ssa.Function
	// ReflectCalls lists uses of reflect.Value.Call/Method/MethodByName (reachability is undecided if any)
	ReflectCalls []string
}

type cgEdge struct {
	Callee *ssa.Function
	Site   ssa.Instruction
	Kind   string // static | invoke | dynamic | escape
}

func (c *Ctx) Graph() *ModGraph {
	if c.cg != nil {
		return c.cg
	}
	g := &ModGraph{c: c, Out: map[*ssa.Function][]cgEdge{}, Nodes: c.Funcs}
	// functions whose value is taken (address-taken set), by signature string
	taken := map[string][]*ssa.Function{}
	addTaken := func(f *ssa.Function) {
		if f == nil || !c.InModule(f) || f.Blocks == nil {
			return
		}
		k := types.TypeString(stripRecv(f.Signature), nil)
		for _, x := range taken[k] {
			if x == f {
				return
			}
		}
		taken[k] = append(taken[k], f)
	}
	for _, fn := range c.Funcs {
		for _, b := range fn.Blocks {
			for _, ins := range b.Instrs {
				if mc, ok := ins.(*ssa.MakeClosure); ok {
					addTaken(mc.Fn.(*ssa.Function))
				}
				var ops []*ssa.Value
				ops = ins.Operands(ops)
				for i, op := range ops {
					if op == nil || *op == nil {
						continue
					}
					f, ok := (*op).(*ssa.Function)
					if !ok {
						continue
					}
					// skip the callee position of a call
					if ci, isCall := ins.(ssa.CallInstruction); isCall && i == 0 && ci.Common().Value == *op {
						continue
					}
					addTaken(f)
				}
			}
		}
	}
	// implementations cache
	implsOf := func(iface *types.Interface, method string) []*ssa.Function {
		var out []*ssa.Function
		for _, p := range c.Pkgs {
			sc := p.Types.Scope()
			for _, name := range sc.Names() {
				tn, ok := sc.Lookup(name).(*types.TypeName)
				if !ok || tn.IsAlias() {
					continue
				}
				if _, isI := tn.Type().Underlying().(*types.Interface); isI {
					continue
				}
				for _, t := range []types.Type{tn.Type(), types.NewPointer(tn.Type())} {
					if !types.Implements(t, iface) {
						continue
					}
					ms := c.Prog.MethodSets.MethodSet(t)
					for i := 0; i < ms.Len(); i++ {
						if ms.At(i).Obj().Name() == method {
							if f := c.Prog.MethodValue(ms.At(i)); f != nil {
								// synthetic wrappers (pointer-receiver wrapper of a value method, promotion through an
								// embedded field) are replaced by the declared method they forward to; a wrapper that
								// re-dispatches through an embedded interface adds no new target
								if f.Synthetic != "" {
									f = forwardTarget(c, f)
								}
								if f != nil {
									dup := false
									for _, x := range out {
										if x == f {
											dup = true
										}
									}
									if !dup {
										out = append(out, f)
									}
								}
							}
						}
					}
				}
			}
		}
		return out
	}
	addEdge := func(from, to *ssa.Function, site ssa.Instruction, kind string) {
		if to == nil {
			return
		}
		// look through synthetic wrappers (promoted methods, bound methods)
		if to.Blocks == nil {
			return
		}
		g.Out[from] = append(g.Out[from], cgEdge{to, site, kind})
	}
	for _, fn := range c.Funcs {
		for _, b := range fn.Blocks {
			for _, ins := range b.Instrs {
				ci, ok := ins.(ssa.CallInstruction)
				if !ok {
					continue
				}
				cc := ci.Common()
				switch {
				case cc.IsInvoke():
					iface, _ := cc.Value.Type().Underlying().(*types.Interface)
					if iface != nil {
						for _, f := range implsOf(iface, cc.Method.Name()) {
							addEdge(fn, f, ins, "invoke")
						}
					}
				case cc.StaticCallee() != nil:
					callee := cc.StaticCallee()
					if c.InModule(callee) {
						addEdge(fn, callee, ins, "static")
						// a function value handed to a module helper (mapSlice(xs, convert)) is called on the caller's behalf
						for _, a := range cc.Args {
							switch fv := unwrapConv(a).(type) {
							case *ssa.Function:
								if c.InModule(fv) {
									addEdge(fn, fv, ins, "escape")
								}
							case *ssa.MakeClosure:
								if f, ok := fv.Fn.(*ssa.Function); ok && c.InModule(f) {
									addEdge(fn, f, ins, "escape")
								}
							}
						}
					} else {
						name := calleeFullName(ci)
						switch name {
						case "(reflect.Value).Call", "(reflect.Value).CallSlice", "(reflect.Value).Method", "(reflect.Value).MethodByName":
							g.ReflectCalls = append(g.ReflectCalls, c.FuncKey(fn)+" calls "+name+" at "+c.Pos(ins.Pos()))
						}
						// escape edges
						for _, a := range cc.Args {
							g.escape(fn, a, ins, addEdge)
						}
					}
				default:
					// call of a function value
					if mc, ok := cc.Value.(*ssa.MakeClosure); ok {
						addEdge(fn, mc.Fn.(*ssa.Function), ins, "static")
						break
					}
					k := types.TypeString(cc.Signature(), nil)
					for _, f := range taken[k] {
						addEdge(fn, f, ins, "dynamic")
					}
				}
			}
		}
	}
	// wrappers: synthetic functions reached through MethodValue have bodies too; include their out-edges lazily
	c.cg = g
	return g
}

func stripRecv(sig *types.Signature) *types.Signature {
	return types.NewSignatureType(nil, nil, nil, sig.Params(), sig.Results(), sig.Variadic())
}

// escape adds edges for a module value handed to a library call.
func (g *ModGraph) escape(from *ssa.Function, arg ssa.Value, site ssa.Instruction, addEdge func(from, to *ssa.Function, site ssa.Instruction, kind string)) {
	c := g.c
	seen := map[ssa.Value]bool{}
	var walk func(v ssa.Value)
	walk = func(v ssa.Value) {
		if v == nil || seen[v] {
			return
		}
		seen[v] = true
		switch x := v.(type) {
		case *ssa.Function:
			if x.Synthetic != "" {
				if t := forwardTarget(c, x); t != nil && c.InModule(t) {
					addEdge(from, t, site, "escape")
				}
			} else if c.InModule(x) {
				addEdge(from, x, site, "escape")
			}
		case *ssa.MakeClosure:
			if f, ok := x.Fn.(*ssa.Function); ok {
				if f.Synthetic != "" {
					// a bound method value (x.m handed over as a function): the wrapper forwards to the method
					if t := forwardTarget(c, f); t != nil && c.InModule(t) {
						addEdge(from, t, site, "escape")
					}
				} else if c.InModule(f) {
					addEdge(from, f, site, "escape")
				}
			}
		case *ssa.MakeInterface:
			t := x.X.Type()
			ms := c.Prog.MethodSets.MethodSet(t)
			for i := 0; i < ms.Len(); i++ {
				if f := c.Prog.MethodValue(ms.At(i)); f != nil && c.InModule(f) {
					addEdge(from, f, site, "escape")
				}
			}
			walk(x.X)
		case *ssa.ChangeInterface:
			walk(x.X)
		case *ssa.ChangeType:
			walk(x.X)
		case *ssa.Phi:
			for _, e := range x.Edges {
				walk(e)
			}
		case *ssa.Slice:
			// variadic ...any: look at what is stored into the backing array
			if al, ok := x.X.(*ssa.Alloc); ok {
				for _, ref := range *al.Referrers() {
					if ia, ok := ref.(*ssa.IndexAddr); ok {
						for _, rr := range *ia.Referrers() {
							if st, ok := rr.(*ssa.Store); ok {
								walk(st.Val)
							}
						}
					}
				}
			}
		}
	}
	walk(arg)
}

// Reach computes the functions reachable from the entry points, with one witness path each.
func (g *ModGraph) Reach(entries ...*ssa.Function) map[*ssa.Function][]string {
	out := map[*ssa.Function][]string{}
	var queue []*ssa.Function
	for _, e := range entries {
		if e != nil {
			if _, ok := out[e]; !ok {
				out[e] = []string{g.c.FuncKey(e)}
				queue = append(queue, e)
			}
		}
	}
	for len(queue) > 0 {
		f := queue[0]
		queue = queue[1:]
		edges := g.Out[f]
		// synthetic wrappers are not in Out: expand on the fly
		if edges == nil && f.Synthetic != "" {
			edges = g.edgesOfSynthetic(f)
		}
		for _, e := range edges {
			if _, ok := out[e.Callee]; !ok {
				out[e.Callee] = append(append([]string{}, out[f]...), g.c.FuncKey(e.Callee))
				queue = append(queue, e.Callee)
			}
		}
	}
	return out
}

func (g *ModGraph) edgesOfSynthetic(f *ssa.Function) []cgEdge {
	var out []cgEdge
	for _, ci := range callsIn(f) {
		if callee := ci.Common().StaticCallee(); callee != nil && g.c.InModule(callee) && callee.Blocks != nil {
			out = append(out, cgEdge{callee, ci, "static"})
		}
	}
	return out
}

// Callers lists the module functions with an edge to f.
func (g *ModGraph) Callers(f *ssa.Function) []*ssa.Function {
	seen := map[*ssa.Function]bool{}
	var out []*ssa.Function
	for from, es := range g.Out {
		for _, e := range es {
			if e.Callee == f && !seen[from] {
				seen[from] = true
				out = append(out, from)
			}
		}
	}
	sort.Slice(out, func(i, j int) bool { return g.c.FuncKey(out[i]) < g.c.FuncKey(out[j]) })
	return out
}

// entryPoints: the functions through which file contents and artifact state enter.
func (c *Ctx) entryPoints() (map[string]*ssa.Function, []string) {
	out := map[string]*ssa.Function{}
	var missing []string
	add := func(name string, f *ssa.Function) {
		if f == nil {
			missing = append(missing, name)
			return
		}
		out[name] = f
	}
	add("config.ParseConfig", c.Func("generator/config", "ParseConfig"))
	add("db.PlanBulkUpdate", c.Func("generator/db", "PlanBulkUpdate"))
	add("db.BulkUpdate", c.Func("generator/db", "BulkUpdate"))
	add("cert.ReadPem", c.Func("generator/cert", "ReadPem"))
	add("filesystem.FsDb.Open", c.Method("generator/db/filesystem", "FsDb", "Open"))
	// the CLI's sign closure: the anonymous function that calls db.BulkUpdate
	for fn := range c.funcsCalling(c.modPkg("generator/db") + ".BulkUpdate") {
		if strings.HasSuffix(fn.Pkg.Pkg.Path(), "/cli") {
			out["cli.sign"] = fn
		}
	}
	// when the closure only hands over to a run function, the closure is still the entry: the anonymous function of the
	// cli package from which BulkUpdate is reached through static calls
	if bulk := out["db.BulkUpdate"]; bulk != nil {
		for _, fn := range c.Funcs {
			if fn.Parent() == nil || fn.Pkg == nil || !strings.HasSuffix(fn.Pkg.Pkg.Path(), "/cli") {
				continue
			}
			if reachesStatically(c, fn, bulk, -2) {
				out["cli.sign"] = fn
			}
		}
	}
	if out["cli.sign"] == nil {
		missing = append(missing, "cli sign closure")
	}
	return out, missing
}

// forwardTarget: the declared module method a synthetic wrapper statically calls, or nil.
func forwardTarget(c *Ctx, f *ssa.Function) *ssa.Function {
	if f.Blocks == nil {
		return nil
	}
	for _, ci := range callsIn(f) {
		if callee := ci.Common().StaticCallee(); callee != nil && c.InModule(callee) && callee.Blocks != nil {
			if callee.Synthetic != "" {
				return forwardTarget(c, callee)
			}
			return callee
		}
	}
	return nil
}
