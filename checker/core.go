package main

import (
	"fmt"
	"go/ast"
	"go/token"
	"go/types"
	"os"
	"path/filepath"
	"runtime/debug"
	"sort"
	"strings"

	"golang.org/x/tools/go/packages"
	"golang.org/x/tools/go/ssa"
	"golang.org/x/tools/go/ssa/ssautil"
)

const modPath = "github.com/wokdav/gopki"

// Ctx is one loaded, type-checked program (the repository's module packages
// with bodies, dependencies from export data) plus its SSA form.
type Ctx struct {
	Dir   string // directory the module was loaded from
	Mod   string // module path whose packages are "module code"
	Fset  *token.FileSet
	Pkgs  []*packages.Package
	Prog  *ssa.Program
	SPkgs map[string]*ssa.Package      // by import path
	PPkgs map[string]*packages.Package // by import path
	Funcs []*ssa.Function              // every module function with a body (incl. anonymous, init)
	cg    *ModGraph
	depth int // interprocedural bound for provenance
}

// Load type-checks dir's packages. overlay maps absolute file names to replacement contents.
func Load(dir, mod string, overlay map[string][]byte, env []string) (*Ctx, error) {
	cfg := &packages.Config{
		Mode:    packages.LoadSyntax | packages.NeedEmbedFiles | packages.NeedModule,
		Dir:     dir,
		Overlay: overlay,
		Env:     append(append(os.Environ(), "GOWORK=off", "GOFLAGS=-mod=mod", "GOPROXY=off", "GOSUMDB=off"), env...),
		Tests:   false,
	}
	pkgs, err := packages.Load(cfg, "./...")
	if err != nil {
		return nil, fmt.Errorf("load %s: %v", dir, err)
	}
	if len(pkgs) == 0 {
		return nil, fmt.Errorf("load %s: no packages", dir)
	}
	var errs []string
	for _, p := range pkgs {
		for _, e := range p.Errors {
			errs = append(errs, e.Error())
		}
	}
	if len(errs) > 0 {
		return nil, fmt.Errorf("load %s: %d type/parse errors, first: %s", dir, len(errs), errs[0])
	}
	prog, spkgs := ssautil.Packages(pkgs, ssa.InstantiateGenerics)
	prog.Build()
	c := &Ctx{Dir: dir, Mod: mod, Fset: pkgs[0].Fset, Pkgs: pkgs, Prog: prog,
		SPkgs: map[string]*ssa.Package{}, PPkgs: map[string]*packages.Package{}, depth: 4}
	for i, p := range pkgs {
		if spkgs[i] == nil {
			return nil, fmt.Errorf("no SSA for %s", p.PkgPath)
		}
		c.SPkgs[p.PkgPath] = spkgs[i]
		c.PPkgs[p.PkgPath] = p
	}
	for fn := range ssautil.AllFunctions(prog) {
		// instances of generic functions carry no package: give them their origin's, so that every rule can ask for it
		if fn.Pkg == nil {
			if o := fn.Origin(); o != nil && o.Pkg != nil {
				fn.Pkg = o.Pkg
			}
		}
		if fn.Blocks == nil || fn.Synthetic != "" && !strings.HasPrefix(fn.Synthetic, "package initializer") {
			continue
		}
		if c.InModule(fn) {
			c.Funcs = append(c.Funcs, fn)
		}
	}
	sort.Slice(c.Funcs, func(i, j int) bool { return c.FuncKey(c.Funcs[i]) < c.FuncKey(c.Funcs[j]) })
	return c, nil
}

func (c *Ctx) InModule(fn *ssa.Function) bool {
	for fn.Parent() != nil {
		fn = fn.Parent()
	}
	if fn.Pkg == nil {
		// instantiations / wrappers: look at origin
		if o := fn.Origin(); o != nil && o.Pkg != nil {
			return c.isModPath(o.Pkg.Pkg.Path())
		}
		return false
	}
	return c.isModPath(fn.Pkg.Pkg.Path())
}

func (c *Ctx) isModPath(p string) bool {
	return p == c.Mod || strings.HasPrefix(p, c.Mod+"/")
}

func (c *Ctx) IsModObj(o types.Object) bool {
	return o != nil && o.Pkg() != nil && c.isModPath(o.Pkg().Path())
}

// short package name used in construct keys: path relative to the module ("." for the root)
func (c *Ctx) shortPkg(path string) string {
	if path == c.Mod {
		if i := strings.LastIndex(path, "/"); i >= 0 {
			return path[i+1:]
		}
		return path
	}
	s := strings.TrimPrefix(path, c.Mod+"/")
	// last element is unique in this module
	if i := strings.LastIndex(s, "/"); i >= 0 {
		s = s[i+1:]
	}
	return s
}

// FuncKey is a position-independent name for a function: pkg.Func, pkg.(Recv).Method, pkg.Func$1
func (c *Ctx) FuncKey(fn *ssa.Function) string {
	if fn == nil {
		return "<nil>"
	}
	if fn.Parent() != nil {
		return c.FuncKey(fn.Parent()) + strings.TrimPrefix(fn.Name(), fn.Parent().Name())
	}
	pk := "?"
	if fn.Pkg != nil {
		pk = c.shortPkg(fn.Pkg.Pkg.Path())
	} else if o := fn.Object(); o != nil && o.Pkg() != nil {
		pk = c.shortPkg(o.Pkg().Path())
	}
	if recv := fn.Signature.Recv(); recv != nil {
		t := recv.Type()
		if p, ok := t.(*types.Pointer); ok {
			t = p.Elem()
		}
		if n, ok := t.(*types.Named); ok {
			return pk + "." + n.Obj().Name() + "." + fn.Name()
		}
	}
	return pk + "." + fn.Name()
}

func (c *Ctx) Pos(p token.Pos) string {
	if !p.IsValid() {
		return ""
	}
	pos := c.Fset.Position(p)
	rel, err := filepath.Rel(c.Dir, pos.Filename)
	if err != nil || strings.HasPrefix(rel, "..") {
		rel = pos.Filename
	}
	return fmt.Sprintf("%s:%d", rel, pos.Line)
}

func (c *Ctx) FnPos(fn *ssa.Function) string {
	if fn == nil {
		return ""
	}
	return c.Pos(fn.Pos())
}

// PkgBySuffix returns the module package whose path ends in suffix ("generator/cert").
func (c *Ctx) PkgBySuffix(suffix string) (*packages.Package, *ssa.Package) {
	full := c.Mod
	if suffix != "" && suffix != "." {
		full = c.Mod + "/" + suffix
	}
	return c.PPkgs[full], c.SPkgs[full]
}

// Func finds a package-level function by package suffix and name.
func (c *Ctx) Func(pkgSuffix, name string) *ssa.Function {
	_, sp := c.PkgBySuffix(pkgSuffix)
	if sp == nil {
		return nil
	}
	return sp.Func(name)
}

// Method finds a method (value or pointer receiver) on a named type.
func (c *Ctx) Method(pkgSuffix, typ, name string) *ssa.Function {
	pp, _ := c.PkgBySuffix(pkgSuffix)
	if pp == nil {
		return nil
	}
	o := pp.Types.Scope().Lookup(typ)
	if o == nil {
		return nil
	}
	for _, t := range []types.Type{o.Type(), types.NewPointer(o.Type())} {
		ms := c.Prog.MethodSets.MethodSet(t)
		if sel := ms.Lookup(pp.Types, name); sel != nil {
			fn := c.Prog.MethodValue(sel)
			if fn != nil && fn.Synthetic == "" {
				return fn
			}
		}
	}
	return nil
}

// NamedType looks a named type up.
func (c *Ctx) NamedType(pkgSuffix, name string) *types.Named {
	pp, _ := c.PkgBySuffix(pkgSuffix)
	if pp == nil {
		return nil
	}
	o := pp.Types.Scope().Lookup(name)
	if o == nil {
		return nil
	}
	n, _ := o.Type().(*types.Named)
	return n
}

// Global looks a package-level variable up.
func (c *Ctx) Global(pkgSuffix, name string) *ssa.Global {
	_, sp := c.PkgBySuffix(pkgSuffix)
	if sp == nil {
		return nil
	}
	g, _ := sp.Members[name].(*ssa.Global)
	return g
}

// FileOf returns the syntax file that contains pos.
func (c *Ctx) FileOf(pos token.Pos) (*packages.Package, *ast.File) {
	for _, p := range c.Pkgs {
		for _, f := range p.Syntax {
			if f.Pos() <= pos && pos <= f.End() {
				return p, f
			}
		}
	}
	return nil, nil
}

// EmbeddedFile returns the contents of an embedded file (by base name) of a package.
func (c *Ctx) EmbeddedFile(pkgSuffix, base string) ([]byte, string, error) {
	pp, _ := c.PkgBySuffix(pkgSuffix)
	if pp == nil {
		return nil, "", fmt.Errorf("package %s not loaded", pkgSuffix)
	}
	for _, f := range pp.EmbedFiles {
		if filepath.Base(f) == base {
			b, err := os.ReadFile(f)
			return b, f, err
		}
	}
	return nil, "", fmt.Errorf("embedded file %s not found in %s", base, pkgSuffix)
}

// ---------------------------------------------------------------------------
// Obligations and reporting

type Obligation struct {
	Rule     string `json:"rule"`
	Key      string `json:"key"`
	Pos      string `json:"pos,omitempty"`
	Expected string `json:"expected,omitempty"`
	Found    string `json:"found,omitempty"`
	Status   string `json:"status"` // ok | violation | undecided | known
	Note     string `json:"note,omitempty"`
}

func (o Obligation) ID() string { return o.Rule + "|" + o.Key }

type Rep struct {
	rule string
	Obs  []Obligation
	Info []string
}

func (r *Rep) add(status, key, pos, expected, found string) {
	r.Obs = append(r.Obs, Obligation{Rule: r.rule, Key: key, Pos: pos, Expected: expected, Found: found, Status: status})
}
func (r *Rep) Ok(key, pos, expected, found string)  { r.add("ok", key, pos, expected, found) }
func (r *Rep) Bad(key, pos, expected, found string) { r.add("violation", key, pos, expected, found) }
func (r *Rep) Undecided(key, pos, why string) {
	r.add("undecided", key, pos, "a construct the rule can decide", why)
}
func (r *Rep) Check(cond bool, key, pos, expected, found string) bool {
	if cond {
		r.Ok(key, pos, expected, found)
	} else {
		r.Bad(key, pos, expected, found)
	}
	return cond
}
func (r *Rep) Infof(f string, a ...any) { r.Info = append(r.Info, fmt.Sprintf(f, a...)) }

// Sub returns a reporter for a different rule name sharing nothing (used by composite rules).
func (r *Rep) Rule() string { return r.rule }

type Rule struct {
	Name    string
	Doc     string
	Floor   int // minimum number of obligations this rule must produce on the repository
	Run     func(c *Ctx, r *Rep)
	Fixture string // if non-empty: substring of a construct key that must be reported as a violation on the fixture package
}

var rules = map[string]*Rule{}

func register(r *Rule) {
	if _, dup := rules[r.Name]; dup {
		panic("duplicate rule " + r.Name)
	}
	rules[r.Name] = r
}

// RunRule executes a rule, converting a panic inside the rule into an undecided obligation.
func RunRule(c *Ctx, rule *Rule) (rep *Rep) {
	rep = &Rep{rule: rule.Name}
	defer func() {
		if e := recover(); e != nil {
			where := ""
			if os.Getenv("GOPKICHECK_TRACE") != "" {
				where = "\n" + string(debug.Stack())
			}
			rep.Undecided("checker-panic", "", fmt.Sprintf("rule panicked: %v%s", e, where))
		}
	}()
	rule.Run(c, rep)
	return rep
}
