package main

import (
	"fmt"
	"go/ast"
	"go/constant"
	"go/token"
	"go/types"
	"sort"
	"strconv"
	"strings"

	"golang.org/x/tools/go/packages"
	"golang.org/x/tools/go/ssa"
	"golang.org/x/tools/go/types/typeutil"
)

// Val is the result of evaluating an expression or SSA value without running
// anything: constants, OID/int-list literals, tables, and symbolic calls.
type Val struct {
	Kind    string // const | ints | ref | call | map | list | struct | func | nil | unknown
	Const   constant.Value
	Name    string       // for a named constant / referenced object: pkg.Name
	Obj     types.Object // for ref/func
	Var     types.Object // the package-level variable this value was read from, if any
	Type    types.Type
	Ints    []int
	Fn      string // call: qualified callee
	Args    []*Val
	Keys    []*Val // map
	Elems   []*Val // map values / list elements
	Fields  map[string]*Val
	Why     string
	Pos     token.Pos
	Convert []string // conversions applied on the way (type names), outermost last
}

func unknown(why string, pos token.Pos) *Val { return &Val{Kind: "unknown", Why: why, Pos: pos} }

func (v *Val) IsConst() bool { return v != nil && v.Kind == "const" && v.Const != nil }

func (v *Val) Int() (int64, bool) {
	if !v.IsConst() || v.Const.Kind() != constant.Int {
		return 0, false
	}
	return constant.Int64Val(v.Const)
}

func (v *Val) Str() (string, bool) {
	if !v.IsConst() || v.Const.Kind() != constant.String {
		return "", false
	}
	return constant.StringVal(v.Const), true
}

func (v *Val) Bool() (bool, bool) {
	if !v.IsConst() || v.Const.Kind() != constant.Bool {
		return false, false
	}
	return constant.BoolVal(v.Const), true
}

func oidString(a []int) string {
	s := make([]string, len(a))
	for i, x := range a {
		s[i] = strconv.Itoa(x)
	}
	return strings.Join(s, ".")
}

// String is a canonical rendering used in reports and comparisons.
func (v *Val) String() string {
	if v == nil {
		return "<nil>"
	}
	switch v.Kind {
	case "const":
		s := v.Const.ExactString()
		if v.Name != "" {
			return v.Name + "=" + s
		}
		return s
	case "ints":
		return oidString(v.Ints)
	case "ref":
		return "&" + v.Name
	case "func":
		return "func " + v.Name
	case "nil":
		return "nil"
	case "call":
		as := make([]string, len(v.Args))
		for i, a := range v.Args {
			as[i] = a.String()
		}
		return v.Fn + "(" + strings.Join(as, ", ") + ")"
	case "map":
		var es []string
		for i := range v.Keys {
			es = append(es, v.Keys[i].String()+": "+v.Elems[i].String())
		}
		return "map{" + strings.Join(es, ", ") + "}"
	case "list":
		var es []string
		for _, e := range v.Elems {
			es = append(es, e.String())
		}
		return "[" + strings.Join(es, ", ") + "]"
	case "struct":
		var ks []string
		for k := range v.Fields {
			ks = append(ks, k)
		}
		sort.Strings(ks)
		var es []string
		for _, k := range ks {
			es = append(es, k+": "+v.Fields[k].String())
		}
		return "{" + strings.Join(es, ", ") + "}"
	}
	return "?(" + v.Why + ")"
}

func objName(c *Ctx, o types.Object) string {
	if o == nil {
		return "?"
	}
	if o.Pkg() == nil {
		return o.Name()
	}
	if c.isModPath(o.Pkg().Path()) {
		return c.shortPkg(o.Pkg().Path()) + "." + o.Name()
	}
	return o.Pkg().Path() + "." + o.Name()
}

// calleeName renders a *types.Func as pkg.Func or pkg.Type.Method (import path for libraries).
func calleeName(c *Ctx, f *types.Func) string {
	if f == nil {
		return "?"
	}
	sig, _ := f.Type().(*types.Signature)
	if sig != nil && sig.Recv() != nil {
		t := sig.Recv().Type()
		ptr := ""
		if p, ok := t.(*types.Pointer); ok {
			t = p.Elem()
			ptr = "*"
		}
		if n, ok := t.(*types.Named); ok {
			pk := ""
			if n.Obj().Pkg() != nil {
				pk = n.Obj().Pkg().Path()
				if c.isModPath(pk) {
					pk = c.shortPkg(pk)
				}
				pk += "."
			}
			return "(" + ptr + pk + n.Obj().Name() + ")." + f.Name()
		}
		if _, ok := t.(*types.Interface); ok {
			return "(interface)." + f.Name()
		}
	}
	return objName(c, f)
}

// ---- AST evaluation --------------------------------------------------------

type evaluator struct {
	c     *Ctx
	specs map[types.Object]*specSite
	depth int
	env   map[types.Object]*Val // loop variables of an init() loop being unrolled
}

type specSite struct {
	pkg  *packages.Package
	spec *ast.ValueSpec
	idx  int
}

func (c *Ctx) evaluator() *evaluator {
	ev := &evaluator{c: c, specs: map[types.Object]*specSite{}}
	for _, p := range c.Pkgs {
		for _, f := range p.Syntax {
			for _, d := range f.Decls {
				gd, ok := d.(*ast.GenDecl)
				if !ok || gd.Tok != token.VAR {
					continue
				}
				for _, s := range gd.Specs {
					vs := s.(*ast.ValueSpec)
					for i, n := range vs.Names {
						if o := p.TypesInfo.Defs[n]; o != nil {
							ev.specs[o] = &specSite{p, vs, i}
						}
					}
				}
			}
		}
	}
	return ev
}

func isIntList(t types.Type) bool {
	switch u := t.Underlying().(type) {
	case *types.Slice:
		b, ok := u.Elem().Underlying().(*types.Basic)
		return ok && b.Info()&types.IsInteger != 0
	case *types.Array:
		b, ok := u.Elem().Underlying().(*types.Basic)
		return ok && b.Info()&types.IsInteger != 0
	}
	return false
}

func (ev *evaluator) expr(p *packages.Package, e ast.Expr) *Val {
	if ev.depth > 40 {
		return unknown("evaluation too deep", e.Pos())
	}
	ev.depth++
	defer func() { ev.depth-- }()
	info := p.TypesInfo
	e = ast.Unparen(e)
	if tv, ok := info.Types[e]; ok && tv.Value != nil {
		v := &Val{Kind: "const", Const: tv.Value, Type: tv.Type, Pos: e.Pos()}
		switch x := e.(type) {
		case *ast.Ident:
			if o, ok := info.Uses[x].(*types.Const); ok {
				v.Name = objName(ev.c, o)
				v.Obj = o
			}
		case *ast.SelectorExpr:
			if o, ok := info.Uses[x.Sel].(*types.Const); ok {
				v.Name = objName(ev.c, o)
				v.Obj = o
			}
		}
		return v
	}
	switch x := e.(type) {
	case *ast.Ident:
		if x.Name == "nil" {
			return &Val{Kind: "nil", Pos: e.Pos()}
		}
		if v := ev.env[info.Uses[x]]; v != nil && info.Uses[x] != nil {
			return v
		}
		return ev.object(info.Uses[x], e.Pos())
	case *ast.SelectorExpr:
		if o := info.Uses[x.Sel]; o != nil {
			if _, isPkg := info.Uses[identOf(x.X)].(*types.PkgName); isPkg {
				return ev.object(o, e.Pos())
			}
		}
		return unknown("selector "+types.ExprString(e), e.Pos())
	case *ast.UnaryExpr:
		if x.Op == token.AND {
			return ev.expr(p, x.X)
		}
	case *ast.BinaryExpr:
		a, b := ev.expr(p, x.X), ev.expr(p, x.Y)
		if a.IsConst() && b.IsConst() && a.Const.Kind() == constant.Int && b.Const.Kind() == constant.Int {
			switch x.Op {
			case token.ADD, token.SUB, token.MUL:
				return &Val{Kind: "const", Const: constant.BinaryOp(a.Const, x.Op, b.Const), Type: info.TypeOf(e), Pos: e.Pos()}
			}
		}
		return unknown("expression "+types.ExprString(e), e.Pos())
	case *ast.IndexExpr:
		l, i := ev.expr(p, x.X), ev.expr(p, x.Index)
		if n, ok := i.Int(); ok && l.Kind == "list" && n >= 0 && int(n) < len(l.Elems) {
			return l.Elems[n]
		}
		return unknown("expression "+types.ExprString(e), e.Pos())
	case *ast.CallExpr:
		if tv, ok := info.Types[x.Fun]; ok && tv.IsType() && len(x.Args) == 1 {
			v := ev.expr(p, x.Args[0])
			cp := *v
			cp.Convert = append(append([]string{}, v.Convert...), types.TypeString(tv.Type, nil))
			return &cp
		}
		if f, ok := typeutil.Callee(info, x).(*types.Func); ok {
			v := &Val{Kind: "call", Fn: calleeName(ev.c, f), Obj: f, Pos: e.Pos()}
			if sel, ok := ast.Unparen(x.Fun).(*ast.SelectorExpr); ok {
				if s := info.Selections[sel]; s != nil {
					v.Args = append(v.Args, ev.expr(p, sel.X))
				}
			}
			for _, a := range x.Args {
				v.Args = append(v.Args, ev.expr(p, a))
			}
			return v
		}
		if b, ok := info.Uses[identOf(x.Fun)].(*types.Builtin); ok && b.Name() == "make" {
			return &Val{Kind: "call", Fn: "make", Type: info.TypeOf(e), Pos: e.Pos()} // an empty map or list, to be filled in init()
		}
		return unknown("dynamic call "+types.ExprString(x.Fun), e.Pos())
	case *ast.CompositeLit:
		t := info.TypeOf(x)
		if t == nil {
			return unknown("untyped literal", e.Pos())
		}
		if isIntList(t) {
			var ints []int
			for _, el := range x.Elts {
				v := ev.expr(p, el)
				n, ok := v.Int()
				if !ok {
					return unknown("non-constant element in int list", el.Pos())
				}
				ints = append(ints, int(n))
			}
			return &Val{Kind: "ints", Ints: ints, Type: t, Pos: e.Pos()}
		}
		switch u := t.Underlying().(type) {
		case *types.Map:
			v := &Val{Kind: "map", Type: t, Pos: e.Pos()}
			for _, el := range x.Elts {
				kv, ok := el.(*ast.KeyValueExpr)
				if !ok {
					return unknown("map literal without key", el.Pos())
				}
				v.Keys = append(v.Keys, ev.exprTyped(p, kv.Key, u.Key()))
				v.Elems = append(v.Elems, ev.exprTyped(p, kv.Value, u.Elem()))
			}
			return v
		case *types.Slice, *types.Array:
			var et types.Type
			if s, ok := u.(*types.Slice); ok {
				et = s.Elem()
			} else {
				et = u.(*types.Array).Elem()
			}
			v := &Val{Kind: "list", Type: t, Pos: e.Pos()}
			for _, el := range x.Elts {
				if kv, ok := el.(*ast.KeyValueExpr); ok {
					el = kv.Value
				}
				v.Elems = append(v.Elems, ev.exprTyped(p, el, et))
			}
			return v
		case *types.Struct:
			v := &Val{Kind: "struct", Type: t, Fields: map[string]*Val{}, Pos: e.Pos()}
			for i, el := range x.Elts {
				if kv, ok := el.(*ast.KeyValueExpr); ok {
					name := identOf(kv.Key).Name
					var ft types.Type
					for j := 0; j < u.NumFields(); j++ {
						if u.Field(j).Name() == name {
							ft = u.Field(j).Type()
						}
					}
					v.Fields[name] = ev.exprTyped(p, kv.Value, ft)
				} else if i < u.NumFields() {
					v.Fields[u.Field(i).Name()] = ev.exprTyped(p, el, u.Field(i).Type())
				}
			}
			return v
		}
	}
	return unknown("expression "+types.ExprString(e), e.Pos())
}

// exprTyped evaluates an element whose composite-literal type may be elided.
func (ev *evaluator) exprTyped(p *packages.Package, e ast.Expr, t types.Type) *Val {
	if cl, ok := e.(*ast.CompositeLit); ok && cl.Type == nil && t != nil {
		// elided type: go/types records the type for the literal anyway
		if p.TypesInfo.TypeOf(cl) == nil {
			return unknown("elided literal type", e.Pos())
		}
	}
	return ev.expr(p, e)
}

func identOf(e ast.Expr) *ast.Ident {
	if id, ok := ast.Unparen(e).(*ast.Ident); ok {
		return id
	}
	return &ast.Ident{Name: ""}
}

func (ev *evaluator) object(o types.Object, pos token.Pos) *Val {
	switch o := o.(type) {
	case *types.Var:
		if site := ev.specs[o]; site != nil && len(site.spec.Values) == len(site.spec.Names) {
			v := ev.expr(site.pkg, site.spec.Values[site.idx])
			cp := *v
			cp.Name = objName(ev.c, o)
			cp.Var = o
			if cp.Obj == nil {
				cp.Obj = o
			}
			return &cp
		}
		return &Val{Kind: "ref", Name: objName(ev.c, o), Obj: o, Type: o.Type(), Pos: pos}
	case *types.Func:
		return &Val{Kind: "func", Name: calleeName(ev.c, o), Obj: o, Pos: pos}
	case *types.Const:
		return &Val{Kind: "const", Const: o.Val(), Name: objName(ev.c, o), Obj: o, Type: o.Type(), Pos: pos}
	case *types.Nil:
		return &Val{Kind: "nil", Pos: pos}
	}
	return unknown(fmt.Sprintf("object %v", o), pos)
}

// GlobalVal evaluates a package-level variable's initializer.
func (ev *evaluator) GlobalVal(o types.Object) *Val {
	return ev.object(o, o.Pos())
}

// InitAssignments collects, from the init functions of obj's package, the
// straight-line assignments `obj[K] = V` (the table-filling idiom).
func (ev *evaluator) InitAssignments(obj types.Object) (keys, vals []*Val, keyExprs []ast.Expr) {
	var pkg *packages.Package
	for _, p := range ev.c.Pkgs {
		if p.Types == obj.Pkg() {
			pkg = p
		}
	}
	if pkg == nil {
		return
	}
	for _, f := range pkg.Syntax {
		for _, d := range f.Decls {
			fd, ok := d.(*ast.FuncDecl)
			if !ok || fd.Name.Name != "init" || fd.Recv != nil || fd.Body == nil {
				continue
			}
			ev.initStmts(pkg, obj, fd.Body.List, &keys, &vals, &keyExprs)
		}
	}
	return
}

// initStmts collects the assignments `obj[k] = v` of a statement list of init(). A loop over a list that can be read
// off (`for i, name := range names { obj[name] = T(i) }`) is unrolled: the statements of its body are evaluated once per
// element with the loop variables bound; a loop whose keys or values cannot be read off that way contributes nothing
// (the rules have other ways of reading such tables and report what they cannot read).
func (ev *evaluator) initStmts(pkg *packages.Package, obj types.Object, list []ast.Stmt, keys, vals *[]*Val, keyExprs *[]ast.Expr) {
	assignsObj := func(n ast.Node) bool {
		found := false
		ast.Inspect(n, func(m ast.Node) bool {
			if as, ok := m.(*ast.AssignStmt); ok {
				for _, l := range as.Lhs {
					if ix, ok := l.(*ast.IndexExpr); ok && pkg.TypesInfo.Uses[identOf(ix.X)] == obj {
						found = true
					}
				}
			}
			return !found
		})
		return found
	}
	for _, st := range list {
		switch x := st.(type) {
		case *ast.AssignStmt:
			if len(x.Lhs) != 1 || len(x.Rhs) != 1 {
				continue
			}
			ix, ok := x.Lhs[0].(*ast.IndexExpr)
			if !ok || pkg.TypesInfo.Uses[identOf(ix.X)] != obj {
				continue
			}
			*keys = append(*keys, ev.expr(pkg, ix.Index))
			*vals = append(*vals, ev.expr(pkg, x.Rhs[0]))
			*keyExprs = append(*keyExprs, ix.Index)
		case *ast.RangeStmt:
			if !assignsObj(x.Body) {
				continue
			}
			l := ev.expr(pkg, x.X)
			plain := l.Kind == "list" && x.Tok == token.DEFINE
			if plain {
				if v, isVar := l.Var.(*types.Var); isVar && len(ev.c.globalWrites(v)) > 0 {
					plain = false
				}
			}
			for _, b := range x.Body.List {
				if _, isAssign := b.(*ast.AssignStmt); !isAssign {
					plain = false
				}
			}
			if !plain {
				continue // left to the rule's other ways of reading the table (folding, the loop forms it knows)
			}
			n0 := len(*keys)
			if ev.env == nil {
				ev.env = map[types.Object]*Val{}
			}
			for i, el := range l.Elems {
				if id, ok := x.Key.(*ast.Ident); ok && id.Name != "_" {
					ev.env[pkg.TypesInfo.Defs[id]] = &Val{Kind: "const", Const: constant.MakeInt64(int64(i)), Type: types.Typ[types.Int], Pos: id.Pos()}
				}
				if id, ok := x.Value.(*ast.Ident); ok && id.Name != "_" {
					ev.env[pkg.TypesInfo.Defs[id]] = el
				}
				ev.initStmts(pkg, obj, x.Body.List, keys, vals, keyExprs)
			}
			for _, e := range []ast.Expr{x.Key, x.Value} {
				if id, ok := e.(*ast.Ident); ok {
					delete(ev.env, pkg.TypesInfo.Defs[id])
				}
			}
			// all or nothing: a loop whose keys or values cannot be read off contributes no entries
			for i := n0; i < len(*keys); i++ {
				if (*keys)[i].Kind == "unknown" || (*vals)[i].Kind == "unknown" {
					*keys, *vals, *keyExprs = (*keys)[:n0], (*vals)[:n0], (*keyExprs)[:n0]
					break
				}
			}
		}
	}
}

// ---- SSA value description -------------------------------------------------

// describe renders an SSA value as a Val: constants, loads of package-level
// variables (through their initializers), static calls, function-local int
// list literals; conversions are recorded and looked through.
func (c *Ctx) describe(ev *evaluator, v ssa.Value, depth int) *Val {
	if depth > 12 {
		return unknown("too deep", v.Pos())
	}
	switch x := v.(type) {
	case *ssa.Const:
		if x.Value == nil {
			return &Val{Kind: "nil", Type: x.Type(), Pos: x.Pos()}
		}
		return &Val{Kind: "const", Const: x.Value, Type: x.Type(), Pos: x.Pos()}
	case *ssa.Global:
		return ev.object(x.Object(), x.Pos())
	case *ssa.Function:
		return &Val{Kind: "func", Name: c.FuncKey(x), Pos: x.Pos()}
	case *ssa.UnOp:
		if x.Op == token.MUL {
			if g, ok := x.X.(*ssa.Global); ok {
				return ev.object(g.Object(), x.Pos())
			}
		}
		return unknown("unop "+x.Op.String(), x.Pos())
	case *ssa.MakeInterface:
		return c.describe(ev, x.X, depth+1)
	case *ssa.ChangeInterface:
		return c.describe(ev, x.X, depth+1)
	case *ssa.ChangeType:
		in := c.describe(ev, x.X, depth+1)
		cp := *in
		cp.Convert = append(append([]string{}, in.Convert...), types.TypeString(x.Type(), nil))
		return &cp
	case *ssa.Convert:
		in := c.describe(ev, x.X, depth+1)
		cp := *in
		cp.Convert = append(append([]string{}, in.Convert...), types.TypeString(x.Type(), nil))
		return &cp
	case *ssa.Call:
		if callee := x.Call.StaticCallee(); callee != nil {
			name := c.FuncKey(callee)
			if o, ok := callee.Object().(*types.Func); ok {
				name = calleeName(c, o)
			}
			out := &Val{Kind: "call", Fn: name, Pos: x.Pos()}
			for _, a := range x.Call.Args {
				out.Args = append(out.Args, c.describe(ev, a, depth+1))
			}
			return out
		}
		if x.Call.IsInvoke() {
			out := &Val{Kind: "call", Fn: "(interface)." + x.Call.Method.Name(), Pos: x.Pos()}
			out.Args = append(out.Args, c.describe(ev, x.Call.Value, depth+1))
			for _, a := range x.Call.Args {
				out.Args = append(out.Args, c.describe(ev, a, depth+1))
			}
			return out
		}
		return unknown("dynamic call", x.Pos())
	case *ssa.Slice:
		if al, ok := x.X.(*ssa.Alloc); ok && x.Low == nil && x.High == nil {
			if ints, ok := localIntList(al); ok {
				return &Val{Kind: "ints", Ints: ints, Type: x.Type(), Pos: x.Pos()}
			}
		}
		return unknown("slice", x.Pos())
	case *ssa.Extract:
		in := c.describe(ev, x.Tuple, depth+1)
		if in.Kind == "call" {
			cp := *in
			cp.Fn = fmt.Sprintf("%s#%d", in.Fn, x.Index)
			return &cp
		}
		return in
	}
	return unknown(fmt.Sprintf("%T", v), v.Pos())
}

// localIntList recognises the SSA of a function-local []int{c0, c1, …} literal.
func localIntList(al *ssa.Alloc) ([]int, bool) {
	at, ok := al.Type().Underlying().(*types.Pointer)
	if !ok {
		return nil, false
	}
	arr, ok := at.Elem().Underlying().(*types.Array)
	if !ok {
		return nil, false
	}
	out := make([]int, arr.Len())
	set := make([]bool, arr.Len())
	for _, ref := range *al.Referrers() {
		switch r := ref.(type) {
		case *ssa.IndexAddr:
			ic, ok := r.Index.(*ssa.Const)
			if !ok {
				return nil, false
			}
			i, _ := constant.Int64Val(ic.Value)
			for _, rr := range *r.Referrers() {
				st, ok := rr.(*ssa.Store)
				if !ok || st.Addr != r {
					return nil, false
				}
				vc, ok := st.Val.(*ssa.Const)
				if !ok || vc.Value == nil || vc.Value.Kind() != constant.Int {
					return nil, false
				}
				n, _ := constant.Int64Val(vc.Value)
				if set[i] {
					return nil, false
				}
				out[i], set[i] = int(n), true
			}
		case *ssa.Slice, *ssa.DebugRef:
		default:
			return nil, false
		}
	}
	for _, s := range set {
		if !s {
			return nil, false
		}
	}
	return out, true
}

// globalWrites lists module functions (other than package initializers) that
// store to the package-level variable or update the map/slice it holds.
func (c *Ctx) globalWrites(obj types.Object) []string {
	var out []string
	for _, fn := range c.Funcs {
		isInit := fn.Name() == "init" || strings.HasPrefix(fn.Name(), "init#") || fn.Synthetic != ""
		for _, b := range fn.Blocks {
			for _, ins := range b.Instrs {
				switch x := ins.(type) {
				case *ssa.Store:
					if g, ok := x.Addr.(*ssa.Global); ok && g.Object() == obj && !isInit {
						out = append(out, c.FuncKey(fn)+" stores at "+c.Pos(x.Pos()))
					}
					if ia, ok := x.Addr.(*ssa.IndexAddr); ok && loadsGlobal(ia.X, obj) && !isInit {
						out = append(out, c.FuncKey(fn)+" stores element at "+c.Pos(x.Pos()))
					}
				case *ssa.MapUpdate:
					if loadsGlobal(x.Map, obj) && !isInit {
						out = append(out, c.FuncKey(fn)+" updates at "+c.Pos(x.Pos()))
					}
				}
			}
		}
	}
	return out
}

func loadsGlobal(v ssa.Value, obj types.Object) bool {
	if u, ok := v.(*ssa.UnOp); ok && u.Op == token.MUL {
		if g, ok := u.X.(*ssa.Global); ok {
			return g.Object() == obj
		}
	}
	return false
}

// evalValUnder describes an SSA value under the assumption that some parameters have given constant values: phis keep
// the edges whose source block is consistent with the assumption (switch cases, `v, ok := table[k]` tests), lookups in
// package-level map literals are looked up, fields of looked-up struct entries are selected, module functions are
// followed into their feasible returns. Alternatives are returned as a list.
func (c *Ctx) evalValUnder(ev *evaluator, v ssa.Value, assume map[*ssa.Parameter]int64, depth int) []*Val {
	if depth > 10 {
		return []*Val{unknown("too deep", v.Pos())}
	}
	keyOf := func(a ssa.Value) (int64, bool) {
		if p, ok := a.(*ssa.Parameter); ok {
			val, known := assume[p]
			return val, known
		}
		if k, ok := a.(*ssa.Const); ok && k.Value != nil && k.Value.Kind() == constant.Int {
			return k.Int64(), true
		}
		return 0, false
	}
	lookup := func(lk *ssa.Lookup) (elem *Val, present, ok bool) {
		u, isLoad := lk.X.(*ssa.UnOp)
		if !isLoad {
			return nil, false, false
		}
		g, isG := u.X.(*ssa.Global)
		if !isG {
			return nil, false, false
		}
		key, okK := keyOf(lk.Index)
		if !okK {
			return nil, false, false
		}
		ks, vs, why := tableOfGlobal(c, ev, g)
		if why != "" {
			return nil, false, false
		}
		for i := range ks {
			if kk, isInt := ks[i].Int(); isInt && kk == key {
				return vs[i], true, true
			}
		}
		return &Val{Kind: "zero", Pos: lk.Pos()}, false, true
	}
	feasible := func(b *ssa.BasicBlock) bool {
		for _, g := range guardsOf(b) {
			switch x := g.Cond.(type) {
			case *ssa.BinOp:
				if x.Op != token.EQL && x.Op != token.NEQ {
					continue
				}
				p, okP := x.X.(*ssa.Parameter)
				k, okK := x.Y.(*ssa.Const)
				if !okP || !okK || k.Value == nil || k.Value.Kind() != constant.Int {
					continue
				}
				val, known := assume[p]
				if !known {
					continue
				}
				if (x.Op == token.EQL) != ((val == k.Int64()) == g.Truth) {
					return false
				}
			case *ssa.Extract:
				if lk, ok := x.Tuple.(*ssa.Lookup); ok && x.Index == 1 {
					if _, present, okL := lookup(lk); okL && present != g.Truth {
						return false
					}
				}
			case *ssa.UnOp:
				if x.Op == token.NOT {
					if ex, ok := x.X.(*ssa.Extract); ok && ex.Index == 1 {
						if lk, ok := ex.Tuple.(*ssa.Lookup); ok {
							if _, present, okL := lookup(lk); okL && present == g.Truth {
								return false
							}
						}
					}
				}
			}
		}
		return true
	}
	field := func(in []*Val, name string) []*Val {
		var out []*Val
		for _, x := range in {
			if x.Kind == "struct" && x.Fields != nil {
				if f, ok := x.Fields[name]; ok {
					out = append(out, f)
					continue
				}
				out = append(out, &Val{Kind: "zero", Pos: x.Pos})
				continue
			}
			if x.Kind == "zero" {
				out = append(out, x)
				continue
			}
			out = append(out, unknown("field "+name+" of "+x.String(), x.Pos))
		}
		return out
	}
	callResult := func(call *ssa.Call, idx int) []*Val {
		g := call.Call.StaticCallee()
		if g == nil || !c.InModule(g) || g.Blocks == nil {
			return nil
		}
		as2 := map[*ssa.Parameter]int64{}
		for i, prm := range g.Params {
			if i < len(call.Call.Args) {
				if val, ok := keyOf(call.Call.Args[i]); ok {
					as2[prm] = val
				}
			}
		}
		var out []*Val
		for _, ret := range returnsOf(g) {
			rr := retResults(ret)
			if idx >= len(rr) {
				return nil
			}
			out = append(out, c.evalValUnder(ev, rr[idx], as2, depth+1)...)
		}
		return out
	}
	switch x := v.(type) {
	case *ssa.Parameter:
		if val, ok := assume[x]; ok {
			return []*Val{{Kind: "const", Const: constant.MakeInt64(val), Type: x.Type(), Pos: x.Pos()}}
		}
	case *ssa.Phi:
		var out []*Val
		for i, e := range x.Edges {
			if !feasible(x.Block().Preds[i]) {
				continue
			}
			out = append(out, c.evalValUnder(ev, e, assume, depth+1)...)
		}
		if len(out) > 0 {
			return out
		}
	case *ssa.Lookup:
		if elem, _, ok := lookup(x); ok {
			return []*Val{elem}
		}
	case *ssa.Extract:
		switch t := x.Tuple.(type) {
		case *ssa.Lookup:
			if elem, present, ok := lookup(t); ok {
				if x.Index == 0 {
					return []*Val{elem}
				}
				return []*Val{{Kind: "const", Const: constant.MakeBool(present), Pos: x.Pos()}}
			}
		case *ssa.Call:
			if out := callResult(t, x.Index); out != nil {
				return out
			}
		}
	case *ssa.Field:
		return field(c.evalValUnder(ev, x.X, assume, depth+1), fieldOfVal(x).Name())
	case *ssa.BinOp:
		// a comparison or arithmetic on two values that evaluate to one integer each
		xa := c.evalValUnder(ev, x.X, assume, depth+1)
		ya := c.evalValUnder(ev, x.Y, assume, depth+1)
		if len(xa) == 1 && len(ya) == 1 {
			a, ok1 := xa[0].Int()
			b, ok2 := ya[0].Int()
			if ok1 && ok2 {
				mkB := func(v bool) []*Val { return []*Val{{Kind: "const", Const: constant.MakeBool(v), Pos: x.Pos()}} }
				mkI := func(v int64) []*Val {
					return []*Val{{Kind: "const", Const: constant.MakeInt64(v), Type: x.Type(), Pos: x.Pos()}}
				}
				switch x.Op {
				case token.EQL:
					return mkB(a == b)
				case token.NEQ:
					return mkB(a != b)
				case token.LSS:
					return mkB(a < b)
				case token.LEQ:
					return mkB(a <= b)
				case token.GTR:
					return mkB(a > b)
				case token.GEQ:
					return mkB(a >= b)
				case token.ADD:
					return mkI(a + b)
				case token.SUB:
					return mkI(a - b)
				case token.MUL:
					return mkI(a * b)
				case token.AND:
					return mkI(a & b)
				case token.OR:
					return mkI(a | b)
				}
			}
		}
	case *ssa.UnOp:
		if x.Op == token.NOT {
			if in := c.evalValUnder(ev, x.X, assume, depth+1); len(in) == 1 {
				if bv, ok := in[0].Bool(); ok {
					return []*Val{{Kind: "const", Const: constant.MakeBool(!bv), Pos: x.Pos()}}
				}
			}
		}
		if x.Op == token.MUL {
			if fa, ok := x.X.(*ssa.FieldAddr); ok {
				// a field of a local that holds a looked-up entry
				if al, ok := fa.X.(*ssa.Alloc); ok && al.Referrers() != nil {
					var stored []ssa.Value
					for _, u := range *al.Referrers() {
						if st, ok := u.(*ssa.Store); ok && st.Addr == ssa.Value(al) {
							stored = append(stored, st.Val)
						}
					}
					if len(stored) == 1 {
						return field(c.evalValUnder(ev, stored[0], assume, depth+1), fieldOfAddr(fa).Name())
					}
				}
			}
			if al, ok := x.X.(*ssa.Alloc); ok && al.Referrers() != nil {
				var stored []ssa.Value
				for _, u := range *al.Referrers() {
					if st, ok := u.(*ssa.Store); ok && st.Addr == ssa.Value(al) {
						stored = append(stored, st.Val)
					}
				}
				if len(stored) == 1 {
					return c.evalValUnder(ev, stored[0], assume, depth+1)
				}
			}
		}
	case *ssa.Call:
		if g := x.Call.StaticCallee(); g != nil && !c.InModule(g) {
			// a library call on evaluated arguments (e.g. crypto.Hash.New)
			name := c.FuncKey(g)
			if o, ok := g.Object().(*types.Func); ok {
				name = calleeName(c, o)
			}
			outs := []*Val{{Kind: "call", Fn: name, Pos: x.Pos()}}
			for _, a := range x.Call.Args {
				alts := c.evalValUnder(ev, a, assume, depth+1)
				var next []*Val
				for _, o := range outs {
					for _, alt := range alts {
						cp := *o
						cp.Args = append(append([]*Val{}, o.Args...), alt)
						next = append(next, &cp)
					}
				}
				outs = next
			}
			return outs
		}
		if out := callResult(x, 0); out != nil {
			return out
		}
	case *ssa.MakeInterface:
		return c.evalValUnder(ev, x.X, assume, depth+1)
	case *ssa.ChangeType:
		return c.evalValUnder(ev, x.X, assume, depth+1)
	}
	return []*Val{c.describe(ev, v, 0)}
}
