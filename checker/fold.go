package main

import (
	"go/constant"
	"go/token"
	"go/types"
	"strings"

	"golang.org/x/tools/go/ssa"
)

// Constant folding of a table-lookup helper: the SSA form of a side-effect-free module function is specialised for
// constant arguments (the finitely many names a schema allows) by propagating constants through its blocks, taking
// the branch a constant condition selects and unrolling a loop over a package-level literal. It is what a compiler's
// constant propagation with inlining would compute, done on the analyser's intermediate form; nothing of the program
// is built or started. Whatever is not a constant - a call out of the module, an interface, a map iteration, a store
// to anything but a local - ends the folding with "cannot fold", which the caller reports as undecided.

type fval struct {
	k      constant.Value // basic values
	list   []*fval        // elements of a list, an array or the fields of a struct
	isList bool
	keys   []*fval // a map literal: keys with list as the values
	isMap  bool
	tuple  []*fval
	cell   *fcell // a pointer
	isNil  bool
	sym    string        // an opaque, non-nil value named by how it was made: an error, the answer of a library constructor
	fn     *ssa.Function // a function value
	dyn    types.Type    // the type an interface value was made from
}

type fcell struct {
	get func() *fval
	set func(*fval)
}

type folder struct {
	c     *Ctx
	ev    *evaluator
	steps int
	why   string
}

func (c *Ctx) newFolder() *folder { return &folder{c: c, ev: c.evaluator()} }

func (fo *folder) fail(why string) *fval {
	if fo.why == "" {
		fo.why = why
	}
	return nil
}

func fconst(k constant.Value) *fval { return &fval{k: k} }

func (fo *folder) zero(t types.Type) *fval {
	switch u := t.Underlying().(type) {
	case *types.Basic:
		switch {
		case u.Info()&types.IsBoolean != 0:
			return fconst(constant.MakeBool(false))
		case u.Info()&types.IsString != 0:
			return fconst(constant.MakeString(""))
		case u.Info()&types.IsInteger != 0:
			return fconst(constant.MakeInt64(0))
		}
	case *types.Array:
		out := &fval{isList: true}
		for i := int64(0); i < u.Len() && i < 4096; i++ {
			out.list = append(out.list, fo.zero(u.Elem()))
		}
		return out
	case *types.Struct:
		out := &fval{isList: true}
		for i := 0; i < u.NumFields(); i++ {
			out.list = append(out.list, fo.zero(u.Field(i).Type()))
		}
		return out
	case *types.Slice, *types.Pointer, *types.Map, *types.Interface, *types.Signature:
		return &fval{isNil: true}
	}
	return &fval{isNil: true}
}

// fromVal: a value the AST evaluator found for a package-level variable.
func (fo *folder) fromVal(v *Val, t types.Type) *fval {
	if v == nil {
		return fo.fail("no initialiser")
	}
	switch v.Kind {
	case "const":
		return fconst(v.Const)
	case "ints":
		out := &fval{isList: true}
		for _, n := range v.Ints {
			out.list = append(out.list, fconst(constant.MakeInt64(int64(n))))
		}
		return out
	case "list":
		out := &fval{isList: true}
		var et types.Type
		switch u := t.Underlying().(type) {
		case *types.Slice:
			et = u.Elem()
		case *types.Array:
			et = u.Elem()
		}
		for _, e := range v.Elems {
			x := fo.fromVal(e, et)
			if x == nil {
				return nil
			}
			out.list = append(out.list, x)
		}
		return out
	case "map":
		out := &fval{isMap: true}
		m, _ := t.Underlying().(*types.Map)
		for i := range v.Keys {
			var kt, vt types.Type
			if m != nil {
				kt, vt = m.Key(), m.Elem()
			}
			k, x := fo.fromVal(v.Keys[i], kt), fo.fromVal(v.Elems[i], vt)
			if k == nil || x == nil || k.k == nil {
				return fo.fail("map entry is not constant")
			}
			out.keys = append(out.keys, k)
			out.list = append(out.list, x)
		}
		return out
	case "struct":
		st, ok := t.Underlying().(*types.Struct)
		if !ok {
			return fo.fail("struct literal of unknown type")
		}
		out := &fval{isList: true}
		for i := 0; i < st.NumFields(); i++ {
			if f, has := v.Fields[st.Field(i).Name()]; has {
				x := fo.fromVal(f, st.Field(i).Type())
				if x == nil {
					return nil
				}
				out.list = append(out.list, x)
			} else {
				out.list = append(out.list, fo.zero(st.Field(i).Type()))
			}
		}
		return out
	case "nil":
		return &fval{isNil: true}
	case "func":
		if f, ok := v.Obj.(*types.Func); ok {
			if sf := fo.c.Prog.FuncValue(f); sf != nil {
				return &fval{fn: sf}
			}
		}
	case "call":
		// the answer of a constructor: of the module with constant arguments (folded), or of a library (opaque)
		if f, ok := v.Obj.(*types.Func); ok {
			sf := fo.c.Prog.FuncValue(f)
			if sf != nil && sf.Blocks != nil && fo.c.InModule(sf) {
				var as []*fval
				for i, a := range v.Args {
					var pt types.Type
					if i < len(sf.Params) {
						pt = sf.Params[i].Type()
					}
					x := fo.fromVal(a, pt)
					if x == nil {
						return nil
					}
					as = append(as, x)
				}
				if rs, ok := fo.Fold(sf, as, 1); ok && len(rs) == 1 {
					return rs[0]
				}
				return nil
			}
			if len(v.Args) == 0 {
				return &fval{sym: v.Fn + "()"}
			}
		}
	}
	return fo.fail("initialiser is not a literal: " + v.String())
}

func (fo *folder) global(g *ssa.Global) *fval {
	if w := fo.c.globalWrites(g.Object()); len(w) > 0 {
		return fo.fail(g.Name() + " is written outside initialisation")
	}
	t := g.Type().Underlying().(*types.Pointer).Elem()
	v := fo.ev.GlobalVal(g.Object())
	out := fo.fromVal(v, t)
	if out == nil {
		return nil
	}
	if ks, vs, _ := fo.ev.InitAssignments(g.Object()); len(ks) > 0 {
		if !out.isMap && !out.isNil {
			return fo.fail(g.Name() + " is filled in init in a way that is not followed")
		}
		out = &fval{isMap: true, keys: out.keys, list: out.list}
		m, _ := t.Underlying().(*types.Map)
		for i := range ks {
			var kt, vt types.Type
			if m != nil {
				kt, vt = m.Key(), m.Elem()
			}
			k, x := fo.fromVal(ks[i], kt), fo.fromVal(vs[i], vt)
			if k == nil || x == nil || k.k == nil {
				return fo.fail("init entry of " + g.Name() + " is not constant")
			}
			out.keys = append(out.keys, k)
			out.list = append(out.list, x)
		}
	}
	return out
}

func intBits(t types.Type) (bits int, signed, isInt bool) {
	b, ok := t.Underlying().(*types.Basic)
	if !ok || b.Info()&types.IsInteger == 0 {
		return 0, false, false
	}
	signed = b.Info()&types.IsUnsigned == 0
	switch b.Kind() {
	case types.Int8, types.Uint8:
		bits = 8
	case types.Int16, types.Uint16:
		bits = 16
	case types.Int32, types.Uint32:
		bits = 32
	default:
		bits = 64
	}
	return bits, signed, true
}

// wrap brings an integer constant into the range of its type (two's complement).
func wrap(k constant.Value, t types.Type) constant.Value {
	bits, signed, isInt := intBits(t)
	if !isInt || k == nil || k.Kind() != constant.Int {
		return k
	}
	mod := constant.Shift(constant.MakeInt64(1), token.SHL, uint(bits))
	r := constant.BinaryOp(k, token.REM, mod)
	if constant.Sign(r) < 0 {
		r = constant.BinaryOp(r, token.ADD, mod)
	}
	if signed {
		half := constant.Shift(constant.MakeInt64(1), token.SHL, uint(bits-1))
		if constant.Compare(r, token.GEQ, half) {
			r = constant.BinaryOp(r, token.SUB, mod)
		}
	}
	return r
}

// Fold specialises fn for the given constant arguments and hands back its results.
func (fo *folder) Fold(fn *ssa.Function, args []*fval, depth int) ([]*fval, bool) {
	if fn == nil || fn.Blocks == nil || depth > 4 || len(args) != len(fn.Params) {
		fo.fail("no body, too deep or wrong argument count")
		return nil, false
	}
	env := map[ssa.Value]*fval{}
	for i, p := range fn.Params {
		env[p] = args[i]
	}
	var val func(v ssa.Value) *fval
	val = func(v ssa.Value) *fval {
		switch x := v.(type) {
		case *ssa.Const:
			if x.Value == nil {
				return fo.zero(x.Type())
			}
			return fconst(x.Value)
		case *ssa.Global:
			g := x
			return &fval{cell: &fcell{get: func() *fval { return fo.global(g) }, set: func(*fval) { fo.fail("store to a package-level variable") }}}
		case *ssa.Function:
			return &fval{fn: x}
		}
		if r, ok := env[v]; ok {
			return r
		}
		return fo.fail("value not computed: " + v.Name())
	}
	cmp := func(op token.Token, a, b *fval) *fval {
		if a.isNil || b.isNil {
			if op == token.EQL {
				return fconst(constant.MakeBool(a.isNil && b.isNil))
			}
			if op == token.NEQ {
				return fconst(constant.MakeBool(!(a.isNil && b.isNil)))
			}
		}
		if (a.sym != "" || a.fn != nil) && (b.sym != "" || b.fn != nil) && (op == token.EQL || op == token.NEQ) {
			same := a.sym == b.sym && a.fn == b.fn
			return fconst(constant.MakeBool(same == (op == token.EQL)))
		}
		if a.isList && b.isList && (op == token.EQL || op == token.NEQ) {
			// arrays and structs of constants
			same := len(a.list) == len(b.list)
			for i := 0; same && i < len(a.list); i++ {
				if a.list[i].k == nil || b.list[i].k == nil {
					return fo.fail("comparison of values that are not constants")
				}
				same = constant.Compare(a.list[i].k, token.EQL, b.list[i].k)
			}
			return fconst(constant.MakeBool(same == (op == token.EQL)))
		}
		if a.k == nil || b.k == nil {
			return fo.fail("comparison of values that are not constants")
		}
		return fconst(constant.MakeBool(constant.Compare(a.k, op, b.k)))
	}
	b := fn.Blocks[0]
	var prev *ssa.BasicBlock
	for {
		var next *ssa.BasicBlock
		// the joins of a block are read together, before any is written
		phis := map[ssa.Value]*fval{}
		for _, ins := range b.Instrs {
			ph, ok := ins.(*ssa.Phi)
			if !ok {
				break
			}
			for i, p := range b.Preds {
				if p == prev {
					phis[ph] = val(ph.Edges[i])
				}
			}
			if phis[ph] == nil {
				return nil, false
			}
		}
		for k, v := range phis {
			env[k] = v
		}
		for _, ins := range b.Instrs {
			fo.steps++
			if fo.steps > 50000 {
				fo.fail("too many steps")
				return nil, false
			}
			switch x := ins.(type) {
			case *ssa.Phi, *ssa.DebugRef:
			case *ssa.Alloc:
				cur := fo.zero(x.Type().Underlying().(*types.Pointer).Elem())
				cl := &fcell{}
				cl.get = func() *fval { return cur }
				cl.set = func(n *fval) { cur = n }
				env[x] = &fval{cell: cl}
			case *ssa.Store:
				a, v := val(x.Addr), val(x.Val)
				if a == nil || v == nil || a.cell == nil {
					fo.fail("store through something that is not a local")
					return nil, false
				}
				a.cell.set(v)
			case *ssa.UnOp:
				a := val(x.X)
				if a == nil {
					return nil, false
				}
				switch x.Op {
				case token.MUL:
					if a.cell == nil {
						fo.fail("load through something that is not followed")
						return nil, false
					}
					r := a.cell.get()
					if r == nil {
						return nil, false
					}
					env[x] = r
				case token.NOT, token.SUB, token.XOR:
					if a.k == nil {
						fo.fail("operand is not a constant")
						return nil, false
					}
					env[x] = fconst(wrap(constant.UnaryOp(x.Op, a.k, 0), x.Type()))
				default:
					fo.fail("operator " + x.Op.String())
					return nil, false
				}
			case *ssa.BinOp:
				p, q := val(x.X), val(x.Y)
				if p == nil || q == nil {
					return nil, false
				}
				switch x.Op {
				case token.EQL, token.NEQ, token.LSS, token.LEQ, token.GTR, token.GEQ:
					r := cmp(x.Op, p, q)
					if r == nil {
						return nil, false
					}
					env[x] = r
				case token.SHL, token.SHR:
					if p.k == nil || q.k == nil {
						fo.fail("shift of values that are not constants")
						return nil, false
					}
					n, ok := constant.Uint64Val(q.k)
					if !ok || n > 4096 {
						fo.fail("shift count")
						return nil, false
					}
					env[x] = fconst(wrap(constant.Shift(p.k, x.Op, uint(n)), x.Type()))
				default:
					if p.k == nil || q.k == nil {
						fo.fail("arithmetic on values that are not constants")
						return nil, false
					}
					op := x.Op
					if (op == token.QUO || op == token.REM) && constant.Sign(q.k) == 0 {
						fo.fail("division by zero")
						return nil, false
					}
					if _, _, isInt := intBits(x.Type()); isInt && op == token.QUO {
						op = token.QUO_ASSIGN // integer division
					}
					env[x] = fconst(wrap(constant.BinaryOp(p.k, op, q.k), x.Type()))
				}
			case *ssa.Convert:
				a := val(x.X)
				if a == nil || a.k == nil {
					fo.fail("conversion of a value that is not a constant")
					return nil, false
				}
				_, _, toInt := intBits(x.Type())
				_, _, fromInt := intBits(x.X.Type())
				switch {
				case toInt && fromInt:
					env[x] = fconst(wrap(a.k, x.Type()))
				case a.k.Kind() == constant.String && isString(x.Type()):
					env[x] = a
				default:
					fo.fail("conversion between kinds")
					return nil, false
				}
			case *ssa.ChangeType:
				a := val(x.X)
				if a == nil {
					return nil, false
				}
				env[x] = a
			case *ssa.ChangeInterface:
				a := val(x.X)
				if a == nil {
					return nil, false
				}
				env[x] = a
			case *ssa.MakeInterface:
				a := val(x.X)
				if a == nil {
					return nil, false
				}
				cp := *a
				cp.dyn = x.X.Type()
				env[x] = &cp
			case *ssa.MakeClosure:
				if len(x.Bindings) != 0 {
					fo.fail("closure over variables")
					return nil, false
				}
				env[x] = &fval{fn: x.Fn.(*ssa.Function)}
			case *ssa.IndexAddr:
				base, idx := val(x.X), val(x.Index)
				if base == nil || idx == nil || idx.k == nil {
					fo.fail("index is not a constant")
					return nil, false
				}
				if base.cell != nil {
					base = base.cell.get()
					if base == nil {
						return nil, false
					}
				}
				i, ok := constant.Int64Val(idx.k)
				if !base.isList || !ok || i < 0 || i >= int64(len(base.list)) {
					fo.fail("index out of the literal")
					return nil, false
				}
				l, at := base, int(i)
				env[x] = &fval{cell: &fcell{get: func() *fval { return l.list[at] }, set: func(n *fval) { l.list[at] = n }}}
			case *ssa.Index:
				base, idx := val(x.X), val(x.Index)
				if base == nil || idx == nil || idx.k == nil {
					return nil, false
				}
				i, ok := constant.Int64Val(idx.k)
				switch {
				case base.isList && ok && i >= 0 && i < int64(len(base.list)):
					env[x] = base.list[i]
				case base.k != nil && base.k.Kind() == constant.String && ok && i >= 0 && i < int64(len(constant.StringVal(base.k))):
					env[x] = fconst(constant.MakeInt64(int64(constant.StringVal(base.k)[i])))
				default:
					fo.fail("index out of range")
					return nil, false
				}
			case *ssa.FieldAddr:
				base := val(x.X)
				if base != nil && strings.HasSuffix(base.sym, ".Params()") {
					if st, ok := x.X.Type().Underlying().(*types.Pointer).Elem().Underlying().(*types.Struct); ok && st.Field(x.Field).Name() == "Name" {
						name := curveLibraryName(strings.TrimSuffix(base.sym, ".Params()"))
						env[x] = &fval{cell: &fcell{get: func() *fval { return fconst(constant.MakeString(name)) }, set: func(*fval) { fo.fail("store into the parameters of a library curve") }}}
						break
					}
				}
				if base == nil || base.cell == nil {
					fo.fail("field of something that is not followed")
					return nil, false
				}
				s := base.cell.get()
				if s == nil || !s.isList || x.Field >= len(s.list) {
					fo.fail("field of a value that is not a literal")
					return nil, false
				}
				at := x.Field
				env[x] = &fval{cell: &fcell{get: func() *fval { return s.list[at] }, set: func(n *fval) { s.list[at] = n }}}
			case *ssa.Field:
				s := val(x.X)
				if s == nil || !s.isList || x.Field >= len(s.list) {
					fo.fail("field of a value that is not a literal")
					return nil, false
				}
				env[x] = s.list[x.Field]
			case *ssa.Lookup:
				m, k := val(x.X), val(x.Index)
				if m == nil || k == nil || k.k == nil {
					return nil, false
				}
				if m.k != nil && m.k.Kind() == constant.String {
					i, ok := constant.Int64Val(k.k)
					s := constant.StringVal(m.k)
					if !ok || i < 0 || i >= int64(len(s)) {
						fo.fail("index out of range")
						return nil, false
					}
					env[x] = fconst(constant.MakeInt64(int64(s[i])))
					break
				}
				if !m.isMap && !m.isNil {
					fo.fail("lookup in something that is not a map literal")
					return nil, false
				}
				var found *fval
				for i, mk := range m.keys {
					if constant.Compare(mk.k, token.EQL, k.k) {
						found = m.list[i] // a later entry of init overrides an earlier one
					}
				}
				res := found
				if res == nil {
					res = fo.zero(x.X.Type().Underlying().(*types.Map).Elem())
				}
				if x.CommaOk {
					env[x] = &fval{tuple: []*fval{res, fconst(constant.MakeBool(found != nil))}}
				} else {
					env[x] = res
				}
			case *ssa.Extract:
				t := val(x.Tuple)
				if t == nil || x.Index >= len(t.tuple) {
					fo.fail("extract")
					return nil, false
				}
				env[x] = t.tuple[x.Index]
			case *ssa.Slice:
				base := val(x.X)
				if base == nil {
					return nil, false
				}
				if base.cell != nil {
					base = base.cell.get()
					if base == nil {
						return nil, false
					}
				}
				lo, hi := int64(0), int64(-1)
				for i, bnd := range []ssa.Value{x.Low, x.High} {
					if bnd == nil {
						continue
					}
					bv := val(bnd)
					if bv == nil || bv.k == nil {
						fo.fail("slice bound is not a constant")
						return nil, false
					}
					n, _ := constant.Int64Val(bv.k)
					if i == 0 {
						lo = n
					} else {
						hi = n
					}
				}
				switch {
				case base.isList:
					if hi < 0 {
						hi = int64(len(base.list))
					}
					if lo < 0 || hi > int64(len(base.list)) || lo > hi {
						fo.fail("slice bounds")
						return nil, false
					}
					env[x] = &fval{isList: true, list: base.list[lo:hi]}
				case base.k != nil && base.k.Kind() == constant.String:
					s := constant.StringVal(base.k)
					if hi < 0 {
						hi = int64(len(s))
					}
					if lo < 0 || hi > int64(len(s)) || lo > hi {
						fo.fail("slice bounds")
						return nil, false
					}
					env[x] = fconst(constant.MakeString(s[lo:hi]))
				default:
					fo.fail("slice of something that is not a literal")
					return nil, false
				}
			case *ssa.Call:
				var as []*fval
				for _, a := range x.Call.Args {
					v := val(a)
					if v == nil {
						return nil, false
					}
					as = append(as, v)
				}
				if bi, isB := x.Call.Value.(*ssa.Builtin); isB {
					switch bi.Name() {
					case "len", "cap":
						a := as[0]
						if a.cell != nil {
							a = a.cell.get()
						}
						switch {
						case a == nil:
							return nil, false
						case a.isList:
							env[x] = fconst(constant.MakeInt64(int64(len(a.list))))
						case a.isMap:
							env[x] = fconst(constant.MakeInt64(int64(len(a.keys))))
						case a.isNil:
							env[x] = fconst(constant.MakeInt64(0))
						case a.k != nil && a.k.Kind() == constant.String:
							env[x] = fconst(constant.MakeInt64(int64(len(constant.StringVal(a.k)))))
						default:
							fo.fail("len of something that is not a literal")
							return nil, false
						}
					default:
						fo.fail("builtin " + bi.Name())
						return nil, false
					}
					break
				}
				if x.Call.IsInvoke() && x.Call.Method.Name() == "Params" && len(x.Call.Args) == 0 {
					// the parameters of a curve the library hands out: opaque, but for its name (a fact of the library)
					if recv := val(x.Call.Value); recv != nil && curveLibraryName(recv.sym) != "" {
						env[x] = &fval{sym: recv.sym + ".Params()"}
						break
					}
				}
				callee := x.Call.StaticCallee()
				if callee == nil && !x.Call.IsInvoke() {
					if fv := val(x.Call.Value); fv != nil && fv.fn != nil {
						callee = fv.fn
					}
				}
				if callee == nil || x.Call.IsInvoke() {
					fo.fail("dynamic call")
					return nil, false
				}
				if !fo.c.InModule(callee) || callee.Blocks == nil {
					if r := fo.pureLibrary(calleeFullName(x), as); r != nil {
						env[x] = r
						break
					}
					fo.fail("call out of the module: " + calleeFullName(x))
					return nil, false
				}
				rs, ok := fo.Fold(callee, as, depth+1)
				if !ok {
					return nil, false
				}
				if len(rs) == 1 {
					env[x] = rs[0]
				} else {
					env[x] = &fval{tuple: rs}
				}
			case *ssa.If:
				cnd := val(x.Cond)
				if cnd == nil || cnd.k == nil || cnd.k.Kind() != constant.Bool {
					fo.fail("a condition is not a constant")
					return nil, false
				}
				if constant.BoolVal(cnd.k) {
					next = b.Succs[0]
				} else {
					next = b.Succs[1]
				}
			case *ssa.Jump:
				next = b.Succs[0]
			case *ssa.Return:
				var out []*fval
				for _, rv := range x.Results {
					v := val(rv)
					if v == nil {
						return nil, false
					}
					out = append(out, v)
				}
				return out, true
			default:
				fo.fail("instruction not followed: " + ins.String())
				return nil, false
			}
		}
		if next == nil {
			fo.fail("block without a way on")
			return nil, false
		}
		prev, b = b, next
	}
}

// pureLibrary: the few library functions of text that a lookup helper may use, on constant arguments.
func (fo *folder) pureLibrary(name string, as []*fval) *fval {
	str := func(i int) (string, bool) {
		if i >= len(as) || as[i].k == nil || as[i].k.Kind() != constant.String {
			return "", false
		}
		return constant.StringVal(as[i].k), true
	}
	if name == "(encoding/asn1.ObjectIdentifier).Equal" && len(as) == 2 && (as[0].isList || as[0].isNil) && (as[1].isList || as[1].isNil) {
		same := len(as[0].list) == len(as[1].list)
		for i := 0; same && i < len(as[0].list); i++ {
			if as[0].list[i].k == nil || as[1].list[i].k == nil {
				return nil
			}
			same = constant.Compare(as[0].list[i].k, token.EQL, as[1].list[i].k)
		}
		return fconst(constant.MakeBool(same))
	}
	switch name {
	case "fmt.Errorf", "errors.New":
		return &fval{sym: "error"}
	case "crypto/elliptic.P224", "crypto/elliptic.P256", "crypto/elliptic.P384", "crypto/elliptic.P521":
		return &fval{sym: name + "()"}
	}
	if strings.Contains(name, "/brainpool.P") && len(as) == 0 {
		return &fval{sym: name + "()"}
	}
	switch name {
	case "strings.ToLower", "strings.ToUpper", "strings.TrimSpace":
		s, ok := str(0)
		if !ok {
			return nil
		}
		switch name {
		case "strings.ToLower":
			return fconst(constant.MakeString(strings.ToLower(s)))
		case "strings.ToUpper":
			return fconst(constant.MakeString(strings.ToUpper(s)))
		}
		return fconst(constant.MakeString(strings.TrimSpace(s)))
	case "strings.EqualFold":
		a, ok1 := str(0)
		b, ok2 := str(1)
		if !ok1 || !ok2 {
			return nil
		}
		return fconst(constant.MakeBool(strings.ToLower(a) == strings.ToLower(b)))
	}
	return nil
}

// curveLibraryName: the Params().Name of the curves the standard library and the brainpool package hand out (a fact of
// those libraries: elliptic.P256() is "P-256", brainpool.P256r1() is "brainpoolP256r1").
func curveLibraryName(sym string) string {
	sym = strings.TrimSuffix(sym, "()")
	i := strings.LastIndex(sym, ".")
	if i < 0 {
		return ""
	}
	pkg, fn := sym[:i], sym[i+1:]
	switch {
	case pkg == "crypto/elliptic" && strings.HasPrefix(fn, "P") && len(fn) == 4:
		return "P-" + fn[1:]
	case strings.HasSuffix(pkg, "/brainpool") && strings.HasPrefix(fn, "P"):
		return "brainpool" + fn
	}
	return ""
}
