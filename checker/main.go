// gopkicheck decides structural necessary conditions of the gopki properties
// from /repo's source (AST, types, SSA, call graph, embedded schemas). Nothing
// of the repository is executed.
package main

import (
	"bufio"
	"encoding/json"
	"flag"
	"fmt"
	"golang.org/x/tools/go/ssa"
	"os"
	"path/filepath"
	"sort"
	"strconv"
	"strings"
	"time"
)

type Property struct {
	ID          string
	Rules       []string
	Scope       string // what the check decides
	NotDecided  string // what it does not decide
	Technique   string
	DesignRef   string
	Assumptions []string
}

var verifDir = "/verif"
var verboseAll bool

type knownFinding struct {
	Prop string
	Key  string // rule|construct
	What string
}

func loadKnown(path string) ([]knownFinding, error) {
	f, err := os.Open(path)
	if err != nil {
		if os.IsNotExist(err) {
			return nil, nil
		}
		return nil, err
	}
	defer f.Close()
	var out []knownFinding
	sc := bufio.NewScanner(f)
	for sc.Scan() {
		line := strings.TrimSpace(sc.Text())
		if !strings.HasPrefix(line, "finding:") {
			continue // comments and "fixed:" lines suppress nothing
		}
		rest := strings.TrimSpace(strings.TrimPrefix(line, "finding:"))
		fs := strings.SplitN(rest, " ", 3)
		if len(fs) < 3 || !strings.HasPrefix(fs[0], "property=") || !strings.HasPrefix(fs[1], "key=") {
			return nil, fmt.Errorf("malformed finding line: %q", line)
		}
		out = append(out, knownFinding{Prop: strings.TrimPrefix(fs[0], "property="), Key: strings.TrimPrefix(fs[1], "key="), What: fs[2]})
	}
	return out, sc.Err()
}

type ruleStat struct {
	Rule       string `json:"rule"`
	Doc        string `json:"doc"`
	Instances  int    `json:"instances"`
	Floor      int    `json:"floor"`
	Ok         int    `json:"ok"`
	Violations int    `json:"violations"`
	Undecided  int    `json:"undecided"`
	Known      int    `json:"known_findings"`
}

func main() {
	prop := flag.String("prop", "", "property id (C01…)")
	tier := flag.String("tier", "quick", "quick|thorough")
	repo := flag.String("repo", "/repo", "repository working tree")
	vdir := flag.String("verif", "/verif", "verification directory (refs, evidence, known findings)")
	replay := flag.String("replay", "", "re-evaluate the obligations listed in a violations file")
	listRules := flag.Bool("rules", false, "list rules per property")
	only := flag.String("only", "", "run only this rule (debugging)")
	selftest := flag.String("mutants", "", "run the mutant/variant self-test for this property id (or 'all') and print a table")
	verbose := flag.Bool("v", false, "print every obligation")
	sweep := flag.Bool("sweep", false, "mutation sweep over the repository (exploration aid): every syntactic mutant is analysed with all rules")
	sweepOnly := flag.String("sweep-file", "", "restrict the sweep to files whose path contains this string")
	docgen := flag.Bool("doc", false, "print the per-property section and rule index of DESIGN.md")
	manifest := flag.Bool("manifest", false, "print MANIFEST.json generated from the property table")
	provDbg := flag.String("prov", "", "print provenance of stores/returns/call arguments of the module function with this key (debugging)")
	dump := flag.String("dump", "", "print the SSA of the module function with this key (debugging)")
	flag.Parse()
	verifDir = *vdir
	if *manifest {
		emitManifest()
		return
	}
	if *docgen {
		emitDoc()
		return
	}
	if *sweep {
		os.Exit(runSweep(*repo, *sweepOnly, 8))
	}
	if *provDbg != "" {
		c, err := Load(*repo, modPath, nil, nil)
		if err != nil {
			fmt.Println(err)
			os.Exit(2)
		}
		pv := c.newProv()
		for _, fn := range c.Funcs {
			if c.FuncKey(fn) != *provDbg {
				continue
			}
			for _, b := range fn.Blocks {
				for _, ins := range b.Instrs {
					switch x := ins.(type) {
					case *ssa.Store:
						fmt.Printf("%s  STORE %s <- %v\n", c.Pos(x.Pos()), pv.Origins(x.Addr), pv.Origins(x.Val))
					case *ssa.Return:
						for i, r := range retResults(x) {
							fmt.Printf("%s  RETURN#%d %v\n", c.Pos(x.Pos()), i, pv.Origins(r))
						}
					case *ssa.Call:
						for i, a := range x.Call.Args {
							fmt.Printf("%s  CALL %s arg%d %v\n", c.Pos(x.Pos()), shortName(calleeFullName(x)), i, pv.Origins(a))
						}
					}
				}
			}
		}
		return
	}
	if *dump != "" {
		c, err := Load(*repo, modPath, nil, nil)
		if err != nil {
			fmt.Println(err)
			os.Exit(2)
		}
		for _, fn := range c.Funcs {
			if c.FuncKey(fn) == *dump {
				fn.WriteTo(os.Stdout)
			}
		}
		return
	}

	if *listRules {
		for _, p := range properties {
			fmt.Println(p.ID, strings.Join(p.Rules, " "))
		}
		return
	}
	if *selftest != "" {
		os.Exit(runSelfTest(*repo, *selftest, true, nil))
	}
	if *replay != "" {
		b, err := os.ReadFile(*replay)
		if err != nil {
			fmt.Println("replay:", err)
			os.Exit(2)
		}
		var rf struct {
			Property string       `json:"property_id"`
			Failing  []Obligation `json:"failing"`
		}
		if err := json.Unmarshal(b, &rf); err != nil {
			fmt.Println("replay:", err)
			os.Exit(2)
		}
		*prop = rf.Property
		rs := map[string]bool{}
		for _, o := range rf.Failing {
			rs[o.Rule] = true
		}
		fmt.Printf("replaying %d failing obligations of %s (rules: %v)\n", len(rf.Failing), rf.Property, keys(rs))
	}
	var p *Property
	for i := range properties {
		if properties[i].ID == *prop {
			p = &properties[i]
		}
	}
	if p == nil && *prop == "ALL" { // debugging aid: every registered rule
		var rn []string
		for n := range rules {
			rn = append(rn, n)
		}
		sort.Strings(rn)
		p = &Property{ID: "ALL", Rules: rn, Scope: "all rules (debugging)"}
	}
	if p == nil {
		fmt.Fprintf(os.Stderr, "unknown property %q\n", *prop)
		os.Exit(2)
	}
	verboseAll = *verbose
	os.Exit(runProperty(p, *tier, *repo, *only))
}

func keys(m map[string]bool) []string {
	var out []string
	for k := range m {
		out = append(out, k)
	}
	sort.Strings(out)
	return out
}

func runProperty(p *Property, tier, repo, only string) int {
	start := time.Now()
	seed := 0
	if s := os.Getenv("VERIF_SEED"); s != "" {
		seed, _ = strconv.Atoi(s)
	}
	evPath := filepath.Join(verifDir, "evidence", p.ID+".json")
	vioPath := filepath.Join(verifDir, "evidence", p.ID+".violations.json")
	os.MkdirAll(filepath.Dir(evPath), 0o755)
	os.Remove(vioPath)

	fail := func(msg string) int {
		// the tree could not be analysed at all: that is "undecided", never "pass"
		fmt.Printf("UNDECIDED %s: %s\n", p.ID, msg)
		writeJSON(vioPath, map[string]any{"property_id": p.ID, "failing": []Obligation{{Rule: "LOAD", Key: "load", Status: "undecided", Found: msg}}})
		writeEvidence(evPath, p, tier, seed, nil, nil, nil, 1, time.Since(start), map[string]any{"load_error": msg})
		fmt.Printf("VIOLATION property=%s replay=%s\n", p.ID, vioPath)
		return 1
	}

	c, err := Load(repo, modPath, nil, nil)
	if err != nil {
		return fail(err.Error())
	}
	if len(c.Pkgs) < 9 {
		return fail(fmt.Sprintf("only %d module packages loaded, expected at least 9", len(c.Pkgs)))
	}
	if tier == "thorough" {
		c.depth = 8
	}
	known, err := loadKnown(filepath.Join(verifDir, "KNOWN_FINDINGS.txt"))
	if err != nil {
		return fail(err.Error())
	}

	var all []Obligation
	var stats []ruleStat
	var info []string
	for _, rn := range p.Rules {
		if only != "" && rn != only {
			continue
		}
		rule := rules[rn]
		if rule == nil {
			return fail("rule not implemented: " + rn)
		}
		rep := RunRule(c, rule)
		st := ruleStat{Rule: rn, Doc: rule.Doc, Floor: rule.Floor, Instances: len(rep.Obs)}
		if len(rep.Obs) < rule.Floor {
			rep.Undecided("floor", "", fmt.Sprintf("rule matched %d instances, fewer than the %d confirmed by hand: an anchor has moved out of the rule's reach", len(rep.Obs), rule.Floor))
		}
		for i := range rep.Obs {
			o := &rep.Obs[i]
			if o.Status == "violation" {
				for _, k := range known {
					if (k.Prop == p.ID || p.ID == "ALL") && k.Key == o.ID() {
						o.Status = "known"
						o.Note = k.What
					}
				}
			}
			switch o.Status {
			case "ok":
				st.Ok++
			case "violation":
				st.Violations++
			case "undecided":
				st.Undecided++
			case "known":
				st.Known++
			}
		}
		all = append(all, rep.Obs...)
		stats = append(stats, st)
		for _, s := range rep.Info {
			info = append(info, rn+": "+s)
		}
	}

	// positive controls: rules with a fixture instance must report it
	controls := map[string]any{}
	broken := 0
	var fx *Ctx
	for _, rn := range p.Rules {
		rule := rules[rn]
		if rule == nil || rule.Fixture == "" || (only != "" && rn != only) {
			continue
		}
		if fx == nil {
			fx, err = Load(filepath.Join(verifDir, "checker", "testdata", "fixture"), "fixture", nil, nil)
			if err != nil {
				return fail("fixture: " + err.Error())
			}
		}
		rep := RunRule(fx, rule)
		hit := true
		for _, inst := range strings.Split(rule.Fixture, ",") {
			one := false
			for _, o := range rep.Obs {
				if o.Status == "violation" && strings.Contains(o.Key, inst) {
					one = true
				}
			}
			hit = hit && one
		}
		controls[rn] = map[string]any{"fixture_instance": rule.Fixture, "reported": hit}
		if !hit {
			broken++
			all = append(all, Obligation{Rule: rn, Key: "positive-control|" + rule.Fixture, Status: "undecided",
				Expected: "the fixture's seeded instance is reported", Found: "not reported: checker broken"})
		}
	}

	extra := map[string]any{"rules": stats, "positive_controls": controls, "packages": len(c.Pkgs), "module_functions": len(c.Funcs)}
	if len(info) > 0 {
		extra["info"] = info
	}
	if tier == "thorough" && only == "" {
		st := map[string]any{}
		runSelfTest(repo, p.ID, false, st)
		extra["self_test"] = st
		vc := vtaCrossCheck(repo, c)
		extra["vta_cross_check"] = vc
		if miss, ok := vc["vta_edges_missing_from_module_graph"].([]string); ok && len(miss) > 0 {
			all = append(all, Obligation{Rule: "CALLGRAPH", Key: "vta-edge-missing", Status: "undecided",
				Expected: "every module-to-module edge VTA finds is in the module call graph", Found: strings.Join(head(miss, 5), "; ")})
		}
		for _, env := range [][]string{{"GOOS=windows"}, {"GOOS=darwin"}, {"GOARCH=386"}} {
			c2, err := Load(repo, modPath, nil, env)
			k := "load_variant_" + strings.Join(env, ",")
			if err != nil {
				extra[k] = "error: " + err.Error()
			} else {
				extra[k] = fmt.Sprintf("%d packages, %d functions", len(c2.Pkgs), len(c2.Funcs))
			}
		}
	}

	var failing []Obligation
	nKnown := 0
	for _, o := range all {
		switch o.Status {
		case "violation", "undecided":
			failing = append(failing, o)
		case "known":
			nKnown++
			fmt.Printf("KNOWN-FINDING: property=%s %s [%s at %s]\n", p.ID, o.Note, o.ID(), o.Pos)
		}
	}
	if verboseAll {
		for _, o := range all {
			fmt.Printf("    %-9s %s @%s :: %s\n", o.Status, o.ID(), o.Pos, o.Found)
		}
	}
	for _, st := range stats {
		fmt.Printf("  %-18s instances=%-3d ok=%-3d violations=%d undecided=%d known=%d (floor %d)\n", st.Rule, st.Instances, st.Ok, st.Violations, st.Undecided, st.Known, st.Floor)
	}
	writeEvidence(evPath, p, tier, seed, all, stats, controls, len(failing), time.Since(start), extra)
	if len(failing) > 0 {
		for _, o := range failing {
			fmt.Printf("%s %s at %s\n    expected: %s\n    found:    %s\n", strings.ToUpper(o.Status), o.ID(), o.Pos, o.Expected, o.Found)
		}
		writeJSON(vioPath, map[string]any{"property_id": p.ID, "failing": failing})
		fmt.Printf("VIOLATION property=%s replay=%s\n", p.ID, vioPath)
		return 1
	}
	fmt.Printf("%s %s: %d obligations hold (%d known findings), %.1fs\n", p.ID, tier, len(all)-nKnown, nKnown, time.Since(start).Seconds())
	return 0
}

func writeJSON(path string, v any) {
	b, _ := json.MarshalIndent(v, "", " ")
	os.WriteFile(path, append(b, '\n'), 0o644)
}

func writeEvidence(path string, p *Property, tier string, seed int, all []Obligation, stats []ruleStat, controls map[string]any, violations int, wall time.Duration, extra map[string]any) {
	distinct := map[string]bool{}
	discharged := 0
	for _, o := range all {
		if o.Pos != "" {
			distinct[o.ID()] = true
		}
		if o.Status == "ok" || o.Status == "known" {
			discharged++
		}
	}
	samples := []Obligation{}
	seen := map[string]int{}
	for _, o := range all {
		if seen[o.Rule] < 3 || o.Status != "ok" {
			samples = append(samples, o)
			seen[o.Rule]++
		}
	}
	cov := map[string]any{
		"explanation":         p.explanation(),
		"obligations":         len(all),
		"discharged":          discharged,
		"evaluations":         len(all),
		"distinct_nontrivial": len(distinct),
		"rule":                "every rule enumerates its complete instance set in the loaded program (no sampling); an obligation is one rule applied to one program construct, keyed rule|construct; it counts as non-trivial when it resolved a construct in /repo's source (has a position)",
		"samples":             samples,
		"checker_cmd":         fmt.Sprintf("./check.sh %s %s", p.ID, tier),
		"trusted_base":        []string{"go/types, go/ssa, go/packages of golang.org/x/tools v0.29.0", "reference tables in /verif/refs (transcribed from the cited RFCs)", "library facts listed in DESIGN.md 2.8"},
		"exhaustive":          true,
	}
	for k, v := range extra {
		cov[k] = v
	}
	ev := map[string]any{
		"property_id": p.ID,
		"tier":        tier,
		"seed":        seed,
		"level":       "other",
		"coverage":    cov,
		"assumptions": append([]string{commonNote}, p.Assumptions...),
		"wall_s":      wall.Seconds(),
		"violations":  violations,
	}
	writeJSON(path, ev)
}
