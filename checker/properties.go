package main

import (
	"encoding/json"
	"fmt"
	"sort"
)

// The property table: which rules decide which structural clauses of which
// property, and what the check does not decide. MANIFEST.json is generated
// from it (gopkicheck -manifest) so that the two cannot drift apart.

const commonNote = "Trusted: go/types, go/ssa and go/packages of golang.org/x/tools v0.29.0; the reference tables in /verif/refs (transcribed from the cited RFCs and the repository's documentation); the library facts of DESIGN.md 2.8 (encoding/asn1 emits DER for the shape it is given, time layout tokens, curve constructors return the curves of their names). Assumed, not checked: correctness of the Go standard library, keybase brainpool, ghodss/yaml and santhosh-tekuri/jsonschema."

// P builds a property entry; the evidence explanation and the MANIFEST text are assembled from the
// scope sentence, the docs of the rules and the statement of what is not decided.
func P(id, technique, scope, notDecided string, rules ...string) Property {
	return Property{ID: id, Rules: rules, Technique: technique, DesignRef: "DESIGN.md 4 (" + id + ")", Scope: scope, NotDecided: notDecided}
}

func (p *Property) explanation() string {
	s := p.Scope + " Rules applied, each to its complete instance set in the loaded program:"
	for _, rn := range p.Rules {
		if r := rules[rn]; r != nil {
			s += " [" + rn + "] " + r.Doc + "."
		}
	}
	return s + " NOT decided by this check: " + p.NotDecided
}

func (p *Property) levelText() string {
	return "Decides structural necessary conditions of " + p.ID + " from source, for all inputs: " + p.Scope + " It does not decide: " + p.NotDecided + " Level 'other': breaking any rule breaks the behaviour, but the rules together do not imply the behaviour."
}

var properties = []Property{
	P("C01", "SSA provenance of issuer context and signing data flow, decision-table evaluation, dominance",
		"where the issuer name, key and key identifier of a certificate come from; what is hashed, with which hash, signed with which key under which type guard; that the algorithm tables agree with the RFCs; that issuers are generated before their subjects.",
		"that signatures verify (cryptography), the DN bytes (known finding D21: the issuer DN is re-encoded, not copied), brainpool/RSA arithmetic.",
		"TAB-SIGALG"),
	P("C02", "ASN.1 tag/shape comparison of the marshalled struct types with RFC 5280, constant evaluation, SSA provenance",
		"the shape (field order, universal types, tags, EXPLICIT/OPTIONAL/DEFAULT) of the certificate types handed to encoding/asn1, the serial bound and version constant, the SubjectPublicKeyInfo identifiers, and the NULL-parameter rule for RSA signature identifiers.",
		"DER minimality of lengths/integers/times (encoding/asn1 is trusted for the shape it is given), the 'independent parser reads the same fields' clause, byte-exact round trips, the UTCTime/GeneralizedTime choice.",
		"ASN1-CERT", "TAB-SERIAL", "TAB-ALGOID", "TAB-SIGALG"),
	P("C03", "purity (caller-memory) analysis over SSA with module callees followed, table and schema comparison",
		"that validating against a profile cannot change the subject (no write to caller memory), the attribute short-name table, and that every schema property of the certificate document has a Go field to land in.",
		"the string type chosen per value, comma/escape parsing for all strings, the actual bytes of the encoded DN.",
		"PURE", "TAB-RDN", "SCHEMA-TAGS"),
	P("C04", "constant/layout evaluation, regexp-syntax analysis of the duration pattern, SSA wiring of parse results, error-drop analysis",
		"the date layout constant and location reaching time.ParseInLocation, which capture group feeds which AddDate argument, the default lifetime, the from-absent default, that no parse error of a duration count is discarded, and the year range guard.",
		"calendar arithmetic, time-zone behaviour, the UTCTime/GeneralizedTime choice (library).",
		"TAB-DATE", "ERR-DROP", "YEAR-RANGE", "SCHEMA-TAGS"),
	P("C05", "constant/table evaluation over AST+types and SSA decision chains, compared with RFC reference tables",
		"all 14 key-algorithm names and 8 signature-algorithm names of the schema followed through the program's finite tables (name -> constant -> key kind -> RSA bit size / library curve constructor -> named-curve OID and its inverse; name -> constant -> hash constructor, hash id, OID, key kind, inner = outer OID), the SubjectPublicKeyInfo/PKCS#8 identifiers and the documented defaults.",
		"that the library curve constructors implement those curves; that key generation succeeds; anything at run time.",
		"TAB-KEYALG", "TAB-CURVEOID", "TAB-ALGOID", "TAB-SIGALG"),
	P("C06", "SSA data flow of the critical flag, lint for partial reads, schema/struct comparison, field liveness",
		"that the critical flag of every constructor and of raw extensions comes from the configuration, that raw values are decoded completely (no single Read), that every configured field is consumed and every schema property has a field, and that every extension kind names its own OID.",
		"base64 decoding correctness, behaviour for 64 KiB payloads, the order of extensions in the encoded certificate (PROV-EXT is not built).",
		"PROV-CRIT", "LINT-READ", "SCHEMA-TAGS", "LIVE-FIELD", "TAB-EXTOID"),
	P("C07", "table evaluation against RFC 5280/6960, ASN.1 shape comparison, dependence and range-check lints",
		"every key-usage bit, extended-key-usage OID, general-name tag, qualifier id, access-method OID and extension OID against the RFCs; the shapes of the marshalled extension structs; that the keyUsage bit length depends on the flags; that parsed IP octets are range-checked; that buffers and slices handed on are not overwritten.",
		"byte-exact encodings ('an independent decoder reads back'), wiring of every YAML content field to its constructor argument (PROV-CONTENT is not built). Known finding D10: pathLen 0 cannot be expressed.",
		"TAB-KU", "TAB-EKU", "TAB-GN", "TAB-QUAL", "TAB-EXTOID", "ASN1-EXT", "LIVE-DEP", "LINT-NARROW", "LINT-REUSE"),
	P("C08", "purity analysis, error-propagation chains over the module call graph",
		"two clauses only: merging does not write to the profile or configuration it was given, and a content-less extension that remains makes generation fail (the override-needed builder always errs, every Builder/Compile error is returned up to the CLI, every Builder hands the handler's result back).",
		"the ordering/override algorithm of Merge over arbitrary lists (behaviour of a list algorithm).",
		"PURE", "ERR-CHAIN-EXT"),
	P("C09", "field liveness with branch-condition use, purity analysis",
		"that the optional flag is consulted as a branch condition of the subject validator, and that validation does not modify the subject.",
		"that the validator implements the subsequence rule for all profile x subject pairs; that rejection aborts before any write (ABORT-BEFORE-WRITE is not built).",
		"LIVE-FIELD", "PURE"),
	P("C13", "type-level JSON visibility and distinguishability analysis, writer/reader table agreement, purity",
		"that every field reachable from the hashed value is visible to encoding/json, that no two extension kinds can marshal alike (known finding D15 lists the 21 pairs that can), that hashing and building extensions do not modify the configuration, and that the hash line written is the hash line read.",
		"collision freeness; that each single-field edit changes the JSON; which fields HashSum blanks on which path (HASH-KILL / HASH-SURVIVE are not built).",
		"HASH-SHAPE", "TAB-HASHLINE", "PURE"),
	P("C15", "error-propagation chain from os.WriteFile to the process exit status, tolerance of decode errors",
		"one clause: a write error is returned through every function up to the CLI and ends the process with a non-zero status; plus the recovery precondition that an undecodable PEM does not abort the import and decoded parts are kept.",
		"crash points, torn writes and recovery across runs (run-time histories).",
		"ERR-CHAIN-WRITE", "TOLERANT"),
	P("C16", "table evaluation, ASN.1 shape comparison, coverage of partial marshalling ranges, reuse lint",
		"the general-name kinds of authority names, the tags and string kinds of NamingAuthority / Admissions / ProfessionInfo against Common PKI, that the hand-written marshal methods cover every field once in order, the explicit [0] wrapper, and that slices handed on are not reused.",
		"the assembled TLV bytes; wiring of every YAML field to its struct field (PROV-CONTENT is not built).",
		"TAB-GN", "ASN1-ADM", "PARTIAL-COVER", "LINT-REUSE", "TAB-EXTOID"),
	P("C17", "table bijection, ASN.1 shape comparison, writer/reader table agreement",
		"that curve OIDs and their inverse agree for all ten curves, the PKCS#8 and ECPrivateKey shapes and version constants, the algorithm identifiers of writer and reader, and that every PEM type written is read.",
		"equality of keys after a round trip, interoperability with other implementations, scalar padding (FILLBYTES is not built).",
		"TAB-CURVEOID", "ASN1-PKCS8", "TAB-PEMTYPE", "TAB-ALGOID"),
	P("C18", "error-propagation chain through the directory walk, suffix table, tolerance of unparsable files",
		"that a duplicate alias is an error returned through the walk and Open to the CLI (non-zero exit before planning), the configuration suffix table on the lower-cased name, and that a file that does not parse is skipped.",
		"correctness of the reachability count for all issuer graphs; that nothing is written before the consistency check (GUARD-OPEN / ABORT-BEFORE-WRITE are not built).",
		"ERR-CHAIN-OPEN", "TAB-SUFFIX", "TOLERANT"),
	P("C20", "call-graph reachability of explicit panics with per-site discharge rules, bug-pattern lints with fixture controls, error-drop analysis",
		"that every explicit panic reachable from the entry points is discharged by a checked invariant (constant in-range arguments, algorithm table rows, configurator result types, OID validation at parse time, year range), that five bug patterns are absent (relative index misuse, unchecked Index result, nil part dereference, single-result type assertion, unchecked narrowing), that no error is dropped, and that schema enum values without a case reach an error.",
		"panics inside libraries, arbitrary index/nil safety (no abstract interpreter for integers/slices): this is pattern checking, not a proof of panic freedom.",
		"PANIC-INV", "OID-VALID", "YEAR-RANGE", "LINT-RELIDX", "LINT-IDXNEG", "LINT-NILPART", "LINT-TYPEASSERT", "LINT-NARROW", "LINT-READ", "ERR-DROP", "SCHEMA-ENUM"),
}

var notApplicable = map[string]string{
	"C12": "history-quantified convergence depends on run-time mtimes, stored hashes and file contents; every structural precondition that can be named (state rebuilt from disk only, hash-line round trip, no-hash guard, issuer-newer propagation, key reuse) is already an obligation of C10, C11, C13 and C14, so no further clause is decidable from source (DESIGN.md 5)",
}

var allPropertyIDs = []string{"C01", "C02", "C03", "C04", "C05", "C06", "C07", "C08", "C09", "C10", "C11", "C12", "C13", "C14", "C15", "C16", "C17", "C18", "C19", "C20"}

func emitManifest() {
	claimed := map[string]bool{}
	var checks []map[string]any
	for _, p := range properties {
		ok := len(p.Rules) > 0
		for _, rn := range p.Rules {
			if rules[rn] == nil {
				ok = false
			}
		}
		if !ok {
			continue
		}
		claimed[p.ID] = true
		checks = append(checks, map[string]any{
			"property_id":         p.ID,
			"quick_cmd":           "./check.sh " + p.ID + " quick",
			"thorough_cmd":        "./check.sh " + p.ID + " thorough",
			"evidence_file":       "/verif/evidence/" + p.ID + ".json",
			"replay_cmd_template": "./bin/gopkicheck -replay {path}",
			"engine":              "gopkicheck",
			"level_claimed":       map[string]any{"category": "other", "text": p.levelText(), "design_ref": p.DesignRef},
			"level_note":          commonNote,
			"technique":           "static analysis: " + p.Technique,
		})
	}
	var na []map[string]any
	for _, id := range allPropertyIDs {
		if claimed[id] {
			continue
		}
		reason := notApplicable[id]
		if reason == "" {
			reason = "no static check is registered for this property yet (design in DESIGN.md section 4); it is not claimed until its rules are built and tested both ways"
		}
		na = append(na, map[string]any{"property_id": id, "reason": reason})
	}
	var served []string
	for id := range claimed {
		served = append(served, id)
	}
	sort.Strings(served)
	m := map[string]any{
		"version":   1,
		"setup_cmd": "./setup.sh",
		"hooks": map[string]any{
			"guard":            "verif",
			"enable":           "none: static analysis needs no instrumentation; checks load /repo's working tree as it is",
			"baseline_off_cmd": "cd /repo && GOFLAGS=-mod=mod GOPROXY=off GOSUMDB=off go test -vet=off -count=1 ./...",
			"source_commits":   []string{},
			"add_only":         true,
		},
		"engines": []map[string]any{{
			"name": "gopkicheck", "path": "/verif/checker", "serves_properties": served,
			"kind_free_text": "repository-specific static analyser (go/packages + go/types + go/ssa, module call graph, constant/table evaluator, access-path provenance, CFG guard queries, ASN.1 tag and JSON-schema comparison); nothing of /repo is executed",
		}},
		"checks":         checks,
		"not_applicable": na,
		"notes":          "Every claimed check is level 'other': it decides named structural necessary conditions of the property from source for all inputs, and states in level_claimed.text and DESIGN.md what it does not decide. KNOWN_FINDINGS.txt lists genuine defects that are recorded rather than repaired, and the fix: commits in /repo.",
	}
	b, _ := json.MarshalIndent(m, "", " ")
	fmt.Println(string(b))
}
