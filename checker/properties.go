package main

import (
	"encoding/json"
	"fmt"
	"sort"
)

// The property table: which rules decide which structural clauses of which
// property, and what the check does not decide. MANIFEST.json is generated
// from it (gopkicheck -manifest) so that the two cannot drift apart.

const commonNote = "Trusted: go/types, go/ssa and go/packages of golang.org/x/tools v0.29.0; the reference tables in /verif/refs (transcribed from the cited RFCs and the repository's documentation); the library facts of DESIGN.md 2.8 (encoding/asn1 emits DER for the shape it is given, time layout tokens, curve constructors return the curves of their names). Assumed, not checked: correctness of the Go standard library, keybase brainpool, ghodss/yaml and santhosh-tekuri/jsonschema."

// P builds a property entry; the evidence explanation and the MANIFEST text are assembled from the
// scope sentence, the docs of the rules and the statement of what is not decided.
func P(id, technique, scope, notDecided string, rules ...string) Property {
	return Property{ID: id, Rules: rules, Technique: technique, DesignRef: "DESIGN.md 4 (" + id + ")", Scope: scope, NotDecided: notDecided}
}

func (p *Property) explanation() string {
	s := p.Scope + " Rules applied, each to its complete instance set in the loaded program:"
	for _, rn := range p.Rules {
		if r := rules[rn]; r != nil {
			s += " [" + rn + "] " + r.Doc + "."
		}
	}
	return s + " NOT decided by this check: " + p.NotDecided
}

func (p *Property) levelText() string {
	return "Decides structural necessary conditions of " + p.ID + " from source, for all inputs: " + p.Scope + " It does not decide: " + p.NotDecided + " Level 'other': breaking any rule breaks the behaviour, but the rules together do not imply the behaviour."
}

var properties = []Property{
	P("C01", "SSA access-path provenance of the issuer context and of the signing data flow, dominance/guard queries, decision-table evaluation",
		"where the issuer name, key bits and signing key of a certificate come from (one artifact lookup for the Issuer alias of the entity's own configuration; Subject, not Issuer); what is hashed, with which hash, signed with which key under which type guard (a key of the wrong kind returns an error); that hash, hash id, key kind and OID come from one table call and the table agrees with the RFCs; that key identifiers hash the right key bits with SHA-1; that issuers are planned and generated before their subjects, on one schedule; that an entity is re-issued whenever its issuer's artifact is newer than its own (any flag), so chains follow a replaced issuer. Also: the hash that decides regeneration sees the Issuer field; the planner plans an entity whenever its issuer is planned (path table of one round); subject attribute values are strings or byte strings, the kinds whose encoding survives the decode/re-encode of a carried issuer name. Also: the issuer's artifact is looked up only behind a test that the Issuer field is non-empty, the own context becomes the issuer only behind the test that it is empty. Also: an imported EC scalar is copied to the low-order end of its fixed-width buffer (the key that signs is the key in the certificate).",
		"that signatures verify (cryptography); brainpool/RSA arithmetic; DN bytes - known finding D21: the issuer DN is carried decoded and re-encoded, so byte identity with the issuer's subject is not guaranteed.",
		"PROV-ISSUER", "PROV-SIGN", "PROV-KEYID", "TAB-SIGALG", "ORDER", "PROV-PLAN", "RAWDN", "GUARD-UPDATE", "HASH-KILL", "PLAN-PATHS", "GUARD-SELFSIGNED", "ERR-CHAIN-WRITE", "SIGNED-BODY", "LINT-PADCOPY", "PROV-META"),
	P("C02", "ASN.1 tag/shape comparison of the marshalled struct types with RFC 5280, constant evaluation, SSA value-identity and guard analysis",
		"the shape (field order, universal types, tags, EXPLICIT/OPTIONAL/DEFAULT) of the certificate types handed to encoding/asn1; the serial bound (<= 2^159) and version constant; that both signature AlgorithmIdentifiers get one Parameters value that is NULL exactly for RSA; UTC conversion of the validity; the SubjectPublicKeyInfo identifiers. Also: bytes emitted verbatim (RawValue.FullBytes, RawContent) always come from an encoder; bytes handed on from a reused buffer are not overwritten before they are encoded. Also: a RawValue with a universal tag has the constructed bit DER prescribes (set for SEQUENCE/SET); a BIT STRING length computed from a length is 8 times the length of the bytes stored beside it. Also: no encoder error is dropped on the way to an extension value (a value that could not be encoded is not written as an empty one). Also: the bytes of a general name are the encoder's output, not a hand-written tag and length.",
		"DER minimality of lengths/integers/times (encoding/asn1 is trusted for the shape it is given), the 'independent parser reads the same fields' clause, byte-exact round trips, the UTCTime/GeneralizedTime choice.",
		"ASN1-CERT", "TAB-SERIAL", "SIGALG-PARAMS", "PROV-VALIDITY", "TAB-ALGOID", "TAB-SIGALG", "TBS-WRITERS", "DER-RAW", "LINT-REUSE", "ASN1-RAWSEQ", "BITSTRING-LEN", "SIGNED-BODY", "LINT-NARROW", "ERR-DROP", "NAMED-BITS", "LIVE-DEP"),
	P("C03", "caller-memory purity analysis over SSA with module callees followed, access-path provenance, table and schema comparison",
		"that validating against a profile cannot change the subject (no write to caller memory on any path); that subject, serial and unique ids reach the certificate from the like-named configuration and YAML fields without cross-wiring, the configured serial only when non-zero; the attribute short-name table; schema/struct agreement. Also: between the subject string and an attribute value only text-preserving operations occur (split, trim at the ends, hex decoding). Also: the unique ids' bit lengths are 8 times their byte counts; their presence tests are emptiness tests. Also: the configuration structs are decoded from the text of the document (or its YAML-to-JSON conversion), never from a re-encoded generic map, so a serial number stays the integer that was written. Also: attribute values are handed to the encoder as strings or byte strings, never as a pre-chosen string type; the loop that fills the RDN list stores an element on every way round. Also: text is copied as text, not byte by byte through string(s[i]). Also: subject, serial number and unique ids are each written into the hashed JSON under a name of their own (an edit of one changes the hash, so the certificate is made again).",
		"the string type chosen per value, comma/escape parsing for all subject strings, the reversal inside the subject parser, the bytes of the encoded DN.",
		"PURE", "PROV-SUBJECT", "TAB-RDN", "SCHEMA-TAGS", "TBS-WRITERS", "BITSTRING-LEN", "LINT-TAUTLEN", "FIELD-WRITTEN", "MERGE-COPY", "DECODE-DIRECT", "RDN-VALUE-KIND", "LINT-FILLALL", "LINT-NARROW", "HASH-FIELDS", "LINT-READ", "LINT-RUNEIDX"),
	P("C04", "constant/layout evaluation, regexp-syntax analysis of the duration pattern, SSA wiring, guard extraction, error-drop analysis",
		"the date layout constant and location reaching time.ParseInLocation; which capture group feeds which AddDate argument of the single calendar addition; the default lifetime; the from-absent default; From/Until passed in order and converted to UTC; the exact guard under which a profile's validity is inherited; that no parse error of a duration count is dropped; the year range guard. Also: duration counts are parsed in base 10; the hash blanks exactly the run-relative bounds (path table), so an edited explicit bound is noticed. Also: where a profile is named, the configuration that goes on is the result of the merge (the only place a profile's validity is inherited).",
		"calendar arithmetic itself, time-zone behaviour, the UTCTime/GeneralizedTime choice (library).",
		"TAB-DATE", "PROV-VALIDITY", "MERGE-COPY", "ERR-DROP", "YEAR-RANGE", "SCHEMA-TAGS", "VALIDITY-PATHS", "HASH-KILL", "LINT-NARROW", "GUARD-UPDATE", "STATELESS", "GUARD-PROFILE", "ORDER"),
	P("C05", "constant/table evaluation over AST+types and SSA decision chains, compared with RFC reference tables; guard analysis of key sources",
		"all 14 key-algorithm names and 8 signature-algorithm names of the schema followed through the program's finite tables (name -> constant -> key kind -> RSA bit size / library curve constructor -> named-curve OID and its inverse; name -> constant -> hash constructor, hash id, OID, key kind, inner = outer OID), the SubjectPublicKeyInfo/PKCS#8 identifiers, the documented defaults, and that the generated key (for the configured algorithm) is the key whose bits go into the SubjectPublicKeyInfo. Also: the body is built and signed from the stored configuration itself, and the signing function is called with the configured signature algorithm. Also: an omitted key or signature algorithm is not reported as unknown (the error for a missing table entry lies behind a non-emptiness test of the name); curve point coordinates are handed on as (X, Y). Also: no coordinate or private scalar of an EC key is written with the minimal-length big.Int.Bytes().",
		"that the library curve constructors implement those curves; that key generation succeeds; anything at run time.",
		"TAB-KEYALG", "TAB-CURVEOID", "TAB-ALGOID", "TAB-SIGALG", "PROV-KEY", "PROV-SIGN", "POINT-ORDER", "DEFAULT-WHEN-EMPTY", "FILLBYTES", "PROV-META"),
	P("C06", "index-preservation analysis of list loops, SSA data flow of the critical flag, provenance of raw values, partial-read lint, schema/struct comparison, field liveness",
		"that every loop filling a list of extensions stores element i at index i; that the critical flag of every constructor and of raw extensions comes from the configuration; that a !binary value is the standard base64 decoding of everything after the prefix (no single Read, no pattern match); that every configured field is consumed and every schema property has a field; that every extension kind names its own OID. Also: a raw value is handed on as read (an empty value is not turned into nil, which would drop an optional field). Also: the reader of the extension list looks at every field of an entry, takes the non-nil one, refuses a second and refuses none (flag protocol); the common handler answers by raw and content as documented on every path (path table); the OID lookups answer (table entry, true) for every valid index. Also: per profile entry, what the merge emits into the list the certificate carries is what the documented table says on every path of one round (the rule of C08). Also: byte-valued manipulations survive: after they are applied, neither the body builder nor the signing function stores into, or calls a writer of, a manipulable field. Also: two encodings that are compared do not share one buffer (what Bytes() returned is not read after the buffer was reset). Also: the generator builds from the stored effective configuration as it is (no second merge).",
		"base64 decoding correctness, behaviour for 64 KiB payloads, the merge over lists longer than the unrolling of MERGE-PATHS.",
		"PROV-EXT", "PROV-CRIT", "PROV-RAW", "LINT-READ", "TAB-EXTOID", "SCHEMA-TAGS", "LIVE-FIELD", "PARSE-EXT", "RAW-TABLE", "FIELD-WRITTEN", "MERGE-COPY", "MERGE-PATHS", "GUARD-PROFILE", "PROV-MANIP", "LINT-LOOPVAR", "LINT-BUFLOOP", "PROV-KEY", "LINT-FILLALL", "DECODE-DIRECT"),
	P("C07", "table evaluation against RFC 5280/6960, ASN.1 shape comparison, wiring table over access-path provenance, dependence, range-check and aliasing lints",
		"every key-usage bit, extended-key-usage OID, general-name tag, qualifier id, access-method OID and extension OID against the RFCs; the shapes of the marshalled extension structs; that every YAML content field reaches the like-meaning certificate-side field; that key identifiers hash the right bits; that the keyUsage bit length depends on the flags; that parsed IP octets are range-checked; that buffers and slices handed on are not overwritten. Also: every loop that encodes list elements encodes each one and is left early only with an error; no parameter decides whether another one is encoded; the issuer context the authority key identifier hashes from is the one attached before signing. Also: the ocsp-nocheck value is the DER NULL; hand-built SEQUENCEs carry the constructed bit; presence tests of optional content are emptiness tests; an IP address is four octets, each of the whole range 0..255. Also: a list inside a structure marked optional stays nil when nothing is configured (a made, empty list would make encoding/asn1 write the optional structure). Also: the keyUsage bit string has 8n minus trailing-zeros bits for n octets and no octets when no bit is set; a buffer reused across the access descriptions is reset each round; loops that fill a list made per element fill a place every round; no value is stored on the branch where its presence test found it empty; a qualifier pointer is not dereferenced where it was not found non-nil.",
		"byte-exact encodings ('an independent decoder reads back'). Known finding D10: pathLen 0 cannot be expressed by the encoder.",
		"TAB-KU", "TAB-EKU", "TAB-GN", "TAB-QUAL", "TAB-EXTOID", "ASN1-EXT", "PROV-CONTENT", "PROV-KEYID", "LIVE-DEP", "LINT-NARROW", "LINT-REUSE", "LINT-STALE", "ENC-LOOP", "ENC-GATE", "PROV-ISSUER", "ASN1-RAWSEQ", "OCSP-NULL", "LINT-TAUTLEN", "LINT-ARRFILL", "LINT-DEADVALUE", "PROV-RAW", "FIELD-WRITTEN", "LINT-OPTEMPTY", "NAMED-BITS", "LINT-BUFLOOP", "LINT-FILLALL", "LINT-KNOWNEMPTY", "LINT-NILCHECKED", "ENC-PRESENCE"),
	P("C08", "purity analysis, error-propagation chains over the module call graph, field-by-field provenance of the merged value; bounded path enumeration of one round of each merge loop with a decision-table comparison (no solver)",
		"four clauses: per profile entry, what Merge emits and records is what the documented table says on every path of one round (MERGE-PATHS); merging does not write to the profile or configuration it was given; the merged value is a whole copy in which only Validity (under the exact inheritance guard) and Extensions (a fresh list) differ; a content-less extension that remains makes generation fail (the override-needed builder always errs, every Builder/Compile error is returned up to the CLI, every Builder hands the handler's result back). Also: the unmerged configuration is returned only behind a test that no profile is named.",
		"the merge over lists longer than the unrolling (MERGE-PATHS walks every path through one round of each loop with the inner loops unrolled twice and compares it with the documented decision table; it recognises index lists kept as slices searched by a loop, slices.Contains or a helper, maps and boolean slices - another bookkeeping is reported as undecided).",
		"PURE", "STATELESS", "ERR-CHAIN-EXT", "MERGE-COPY", "MERGE-PATHS", "LINT-REUSE", "GUARD-PROFILE", "JSON-OMITEMPTY", "LINT-BUFLOOP", "LINT-FILLALL", "ORDER"),
	P("C09", "field liveness with branch-condition use, purity analysis, call-graph effect closure, error chain to the exit status; path-table comparison of the table recurrence; global-state effect analysis",
		"that the optional flag is consulted as a branch condition of the subject validator; that validation does not modify the subject; that a failed validation is an error of planning which the CLI turns into a non-zero exit before generation, and that planning and opening cannot write. Also: validation, merging, hashing, subject parsing and the decision keep no package-level state between calls; the recurrence of the table is checked as a path table (final value of a cell against the formula, for every completion of untested conditions); every RDN built has one attribute, which is what the validator looks at. Also, in the validator: the table rows are computed from the last to the first and all columns of each, the answer is the cell [0][0], an unresolvable attribute name and an empty RDN are rejections, and with allowOther the found-flag is false until an attribute equals the wanted one, a missing mandatory attribute answers false and the end of the search answers true; a successful exit of validate-and-merge lies behind a passed validation or behind the test that no profile is named. Also: with other attributes allowed, the rejection for a missing mandatory attribute is decided inside a loop over the profile's attributes (one decision per attribute, not a tally over the subject). Also: the attribute list's nil-ness, which the validator reads as no list at all, survives every copy of a profile (no append(nil, ...) or unguarded make). Also: no registry keeps the address of a variable that is reassigned in every round of a loop (every profile name would point at the profile read last). Also: a configuration put again is stored again (no shortcut on the hash, which does not see the profile name). Also: a profile read from a file is registered whether or not its name is already known (a second Open enforces the profile now on disk).",
		"that the validator implements the subsequence rule for all profile x subject pairs: VALIDATE-DP checks that the table recurrence has the documented form, which is a shape rule about today's algorithm, not a proof about all inputs.",
		"LIVE-FIELD", "PURE", "STATELESS", "ABORT-BEFORE-WRITE", "VALIDATE-DP", "PLAN-CLASSIFY", "TAB-RDN", "GUARD-PROFILE", "MERGE-COPY", "LINT-NILSIG", "LINT-LOOPVAR", "EFFECT-DET", "REGISTRY", "LINT-READ", "DECODE-DIRECT"),
	P("C10", "call-graph effect analysis (who may write which file), CFG edge classification of the consent gate, guard DNF of the decision table, provenance of metadata; bounded path enumeration of the planner's round",
		"who may write which file (only the PEM export under <config path>.pem and PutConfig for unknown aliases; nothing deletes); that generation is reached only without overwrites or after the answer y; necessary conditions of the no-op clause: hash line writer/reader agreement, deterministic hash that forgets alias/profile/run-relative dates, metadata rebuilt from the right files, decision table (a certificate+request entity is not 'missing'), no mutation of the stored configuration while building. Also: the planner's round as a path table (planned iff issuer planned or the decision says so). Also: what a PEM file yields besides an error is kept (a certificate dropped at import would be re-created without the question being asked). Also: the flag that decides whether the question is asked becomes true on every way past a planned replacement. Also: the plan keeps the planner's order (nothing sorts or rearranges a list of changes).",
		"that two consecutive runs leave every byte identical (run-time behaviour: mtimes, random serials are not regenerated only if nothing is planned).",
		"EFFECT-WRITE", "GUARD-CONSENT", "TAB-HASHLINE", "HASH-KILL", "EFFECT-DET", "PROV-META", "GUARD-UPDATE", "PURE", "PLAN-CLASSIFY", "VALIDITY-PATHS", "PROV-PLAN", "PLAN-PATHS", "REGISTRY", "EXPORT-PARTS", "HASH-SOURCE", "LINT-REUSE", "TOLERANT", "ORDER", "PROV-VALIDITY", "ABORT-BEFORE-WRITE"),
	P("C11", "guard DNF extraction with truth-table comparison against the frozen decision table, provenance of propagation keys, flag table evaluation; bounded path enumeration of the planner's round with a decision-table comparison",
		"that each of the six regeneration reasons returns true under exactly its table condition with metadata/artifacts fetched for the right aliases, and every other exit returns false; that a planned entity's alias is recorded before its change is appended and looked up by the subject's Issuer; that the work list visits issuers before subjects; the CLI flag/bit/default table; where the timestamps and stored hash come from. Also: the planner's round as a path table; a PEM with trailing bytes keeps its decoded parts (no false 'missing'); the build time is recorded for every readable artifact, whatever it contains. Also: a failed fetch ends the decision with false and no reason lies behind a test only a failure passes; every kind the planner assigns passes the filter of the generation loop; the work list is read from index 0 in steps of one while the index is below its length, seeded with all roots, and subscribers are appended. Also: the generation step sits in exactly one loop of BulkUpdate, so the plan is carried out in one pass in the planner's order. Also: a key that could not be read is a nil interface, not a typed nil pointer, so it counts as missing; the CLI gives up before planning on account of the flags only when none is set. Also: a failed build ends the generation loop (a subject is not generated behind an issuer that failed).",
		"the 'if and only if' over the product space as executed (time comparisons, map contents at run time).",
		"GUARD-UPDATE", "PROV-PLAN", "PLAN-PATHS", "TAB-CLI", "PROV-META", "ORDER", "PLAN-CLASSIFY", "STATELESS", "TOLERANT", "WORKLIST", "REGISTRY", "GUARD-CONSENT", "LINT-REUSE", "LINT-TYPEDNIL", "ERR-CHAIN-EXT", "TAB-HASHLINE"),
	P("C13", "kill-set and guard DNF analysis of the hashing method, type-level JSON visibility and distinguishability, determinism closure, purity; path enumeration of the blanking before hashing",
		"which fields the hash forgets and under which flags (Alias, Profile always; From/Until only when run-relative and not explicit); that the hashed bytes are json.Marshal of that copy with no re-encoding; that every field reachable from the hashed value is visible to encoding/json; that the hash reads no clock/randomness/map order; that the merged configuration is what is hashed; that the changed-rule compares with the stored hash; that no two extension kinds can marshal alike (known finding D15 lists the 21 pairs that can). Also: no hashed module type defines its own JSON/text form; the hash line written is HashSum() of the configuration as it is now; no package-level state behind the hash. Also: no field promoted from an embedded struct is shadowed by a like-named field beside it (encoding/json would drop it from the hashed bytes). Also: nothing ordered (the merged extension list) is built in the iteration order of a map. Also: the bytes about to be hashed are not overwritten by an append to a shortened view of them.",
		"collision freeness; that each single-field edit changes the JSON (only that each field is visible and survives the blanking on every path of the validity parser).",
		"HASH-KILL", "HASH-SHAPE", "EFFECT-DET", "TAB-HASHLINE", "GUARD-UPDATE", "PURE", "STATELESS", "MERGE-COPY", "VALIDITY-PATHS", "HASH-SOURCE", "LINT-MAPORDER", "MERGE-PATHS", "LINT-REUSE"),
	P("C14", "guard analysis of the three key sources, access-path provenance through regeneration and export, tolerance of decode errors",
		"that regeneration passes the entity's own stored key and request; a key is generated only when both are absent, a stored key is reused as is, the request's public key is used only without a key; the returned artifact carries that key and the incoming request; export writes each part iff present; a PEM with trailing garbage keeps its decoded parts. Also: the artifact file is read whole; the EC key reader refuses only what crypto/x509's reader refuses (a refused key would count as missing and be replaced). Also: the public point is marshalled as (X, Y). Also: a function that files an entity in several registries of the backend uses one key for all of them (the artifact read from disk is found under the alias the generator asks for); each part is exported under no other condition than its own presence. Also: the PEM reader refuses only what it cannot decode (leftover bytes, an undecodable block) and keeps reading behind a certificate it could decode. Also: what is read from an entity's artifact file is registered whether or not the alias was already known.",
		"that the re-serialised key is the same key (C17), anything across several runs.",
		"PROV-KEY", "TOLERANT", "PROV-META", "FILLBYTES", "POINT-ORDER", "IMPORT-PARTS", "REGISTRY", "EXPORT-PARTS", "SIGNED-BODY", "GUARD-PEMREST"),
	P("C15", "error-propagation chain from os.WriteFile to the process exit status, tolerance of decode errors",
		"one clause: a write error is returned through every function up to the CLI and ends the process with a non-zero status; plus the recovery preconditions: an undecodable PEM does not abort the import and decoded parts are kept; the artifact's modification time is read from the file that was written; missing parts and a newer issuer artifact trigger regeneration under the default flags. Also: every index computed from a torn file's content is tested before it is used. Also: the decision answers nothing-to-do only on ways that passed a test of every strategy flag (a matching hash line does not hide a missing certificate). Also: the bulk update works the plan off in the planner's order, every step of one entity under the same condition (an issuer is repaired before what it signs).",
		"crash points, torn writes and recovery across runs (run-time histories).",
		"ERR-CHAIN-WRITE", "TOLERANT", "GUARD-UPDATE", "PROV-META", "LINT-IDXNEG", "EXPORT-PARTS", "ORDER", "PLAN-PATHS"),
	P("C16", "table evaluation, ASN.1 shape comparison, coverage of partial marshalling ranges, wiring table, reuse lint",
		"the general-name kinds of authority names, the tags and string kinds of NamingAuthority / Admissions / ProfessionInfo against Common PKI, that the hand-written marshal methods cover every field once in order, the explicit [0] wrapper, that every YAML admission field reaches its structure field from the right list element, and that slices handed on are not reused. Also: encoding loops cover every element; configured numbers are parsed in base 10. Also: presence tests of optional admission content are emptiness tests. Also: lists inside optional structures stay nil when not configured. Also: the partial marshaller reads field offset+i for i = 0 .. count-1; a loop over a list behind a length test runs for exactly the non-empty list; nothing is written from a constant nil; names of kind mail, dns and uri carry the text as written.",
		"the assembled TLV bytes.",
		"TAB-GN", "ASN1-ADM", "PARTIAL-COVER", "PROV-CONTENT", "TAB-EXTOID", "LINT-REUSE", "LINT-STALE", "ENC-LOOP", "ENC-GATE", "LINT-NARROW", "LINT-TAUTLEN", "LINT-DEADVALUE", "FIELD-WRITTEN", "LINT-OPTEMPTY", "LINT-BUFLOOP", "LINT-FILLALL", "LINT-KNOWNEMPTY", "ENC-PRESENCE"),
	P("C17", "table bijection, ASN.1 shape comparison, structural check of scalar width and range test, writer/reader table agreement",
		"that curve OIDs and their inverse agree for all ten curves; the PKCS#8 and ECPrivateKey shapes and version constants; fixed-width scalar (FillBytes into (N.BitLen()+7)/8 bytes) and the reader rejecting exactly k >= N; the algorithm identifiers of writer and reader; that every PEM type written is read. Also: a file opened for writing is truncated; the artifact is read whole. Also: the scalar read is copied to the low-order end of its buffer (offset len(buffer) - len(source)); the point is marshalled as (X, Y). Also: on the way to that copy len(source) <= len(buffer) has been established; key and request are each exported whenever present, whatever else the artifact holds. Also: storing an artifact writes its file whatever it holds: no successful return of PutBuildArtifact before the export.",
		"equality of keys after a round trip, interoperability with other implementations.",
		"TAB-CURVEOID", "ASN1-PKCS8", "FILLBYTES", "TAB-PEMTYPE", "TAB-ALGOID", "GUARD-PEMREST", "LINT-TYPEDNIL", "EFFECT-WRITE", "PROV-META", "POINT-ORDER", "LINT-PADCOPY", "IMPORT-PARTS", "TOLERANT", "SIGNED-BODY", "EXPORT-PARTS", "LINT-TYPEASSERT", "STATELESS"),
	P("C18", "dominance of the consistency check, call-graph effect closure, error-propagation chain through the directory walk, structural alias derivation, suffix table",
		"that Open succeeds only behind the consistency check (visited == NumEntities over roots and subscribers) and cannot write; that a duplicate alias is an error returned through the walk and Open to the CLI (non-zero exit before planning); the default alias derivation; the suffix table on the lower-cased name; that a file that does not parse is skipped; who may write files. Also: the walk callback never answers SkipDir/SkipAll; a suffix filter written as a regular expression is evaluated against the reference suffixes and against names that merely contain one. Also: the consistency walk itself - seeded with all roots, index from 0 by one while below the length, subscribers appended, one counted per visit from 0, consistent exactly when the count equals NumEntities(); the reader is registered under the version the schemas admit. Also: the Alias field of a configuration is filled from the YAML alias key and from nothing else (the file name is the only fallback).",
		"correctness of the reachability count for all issuer graphs.",
		"GUARD-OPEN", "ABORT-BEFORE-WRITE", "ERR-CHAIN-OPEN", "PROV-ALIAS", "TAB-SUFFIX", "TOLERANT", "EFFECT-WRITE", "GUARD-ROOT", "WORKLIST", "SCHEMA-VERSION", "PROV-SUBJECT"),
	P("C19", "access-path provenance from YAML key to certificate field, dominance (before/after signing), error-drop analysis",
		"that each of the six manipulation keys reaches exactly its own field (OIDs through the OID parser, byte values through the raw reader with BitLength 8*len); TBS manipulations are stored before signing under their != nil guards, outer ones into the signed certificate after the signing call; a preset inner algorithm is kept; nothing is stored into the TBS after it was marshalled; a parse error of a manipulation is reported; merging keeps the manipulations. Also: the issuer context attached before signing is derived after the manipulations were applied. Also: the manipulated BIT STRINGs say 8 bits per byte of the very bytes stored. Also: no later store into a manipulated TBS field replaces the manipulation (both halves of the key info can be manipulated together). Also: the signing function and, after the manipulations, the body builder call no writer of a manipulable field. Also: OID arcs are parsed in base 10. Also: the bytes of a !binary: value are the base64 decoding of exactly the text behind the prefix.",
		"that all other fields equal those of the unmanipulated run.",
		"PROV-MANIP", "PROV-SIGN", "MERGE-COPY", "ERR-DROP", "SCHEMA-TAGS", "LIVE-FIELD", "TBS-WRITERS", "PROV-ISSUER", "BITSTRING-LEN", "FIELD-WRITTEN", "ASN1-CERT", "LINT-NARROW", "PROV-RAW"),
	P("C20", "call-graph reachability of explicit panics with per-site discharge rules, bug-pattern lints with fixture controls, error-drop analysis",
		"that every explicit panic reachable from the entry points is discharged by a checked invariant (constant in-range arguments, algorithm table rows, configurator result types, OID validation at parse time, year range); that six bug patterns are absent (relative index misuse, unchecked Index result, nil part dereference, single-result type assertion, unchecked narrowing, use after close); that no error is dropped; that schema enum values without a case reach an error. Also: a value answered as (nil, nil) is tested against nil before a method is called on it, also after it went through a struct field or a list handed to another function; every test of an error against nil is the right way round (a nil error is not reported as a failure, the results of a failed call are not used). No pointer is dereferenced where it is known to be nil or may still be nil after a join; constant indexes lie inside constant or tested lengths; an array filled from a list has the tested length of the list. A slice offset computed as len(buffer) - len(source) lies behind a test that the source is not longer. Every loop left through its condition changes something the condition reads (no hang on a file's content). A command reads args[i] only below the count its validator guarantees; a field tested against nil is dereferenced only where a test excluded nil; a number parsed as unsigned 64-bit is range-tested before it becomes a signed one. A helper handed both results of a call dereferences the value only where the error is nil. A pointer field that is nil when the document leaves the key out is dereferenced only behind a test that found it not nil; an error test decides something (no empty failure branch).",
		"panics inside libraries, arbitrary index/nil safety (no abstract interpreter for integers/slices is available): this is pattern checking, not a proof of panic freedom.",
		"PANIC-INV", "OID-VALID", "YEAR-RANGE", "LINT-RELIDX", "LINT-IDXNEG", "LINT-NILPART", "LINT-TYPEASSERT", "LINT-NARROW", "LINT-READ", "LINT-USEAFTERCLOSE", "ERR-DROP", "SCHEMA-ENUM", "LINT-TYPEDNIL", "LINT-NILRESULT", "ERR-POLARITY", "LINT-NILDEREF", "LINT-CONSTIDX", "LINT-NILPHI", "SCHEMA-VERSION", "LINT-ARRFILL", "LINT-DEADVALUE", "LINT-CONSTSLICE", "LINT-PADCOPY", "LINT-LOOPINV", "LINT-CLIARGS", "LINT-NILCHECKED", "LINT-LOOPVAR", "LINT-PANICOPS", "LINT-RUNEIDX"),
}

var notApplicable = map[string]string{
	"C12": "history-quantified convergence depends on run-time mtimes, stored hashes and file contents; every structural precondition that can be named (state rebuilt from disk only, hash-line round trip, no-hash guard, issuer-newer propagation, key reuse) is already an obligation of C10, C11, C13 and C14, so no further clause is decidable from source (DESIGN.md 5)",
}

var allPropertyIDs = []string{"C01", "C02", "C03", "C04", "C05", "C06", "C07", "C08", "C09", "C10", "C11", "C12", "C13", "C14", "C15", "C16", "C17", "C18", "C19", "C20"}

func emitManifest() {
	claimed := map[string]bool{}
	var checks []map[string]any
	for _, p := range properties {
		ok := len(p.Rules) > 0
		for _, rn := range p.Rules {
			if rules[rn] == nil {
				ok = false
			}
		}
		if !ok {
			continue
		}
		claimed[p.ID] = true
		checks = append(checks, map[string]any{
			"property_id":         p.ID,
			"quick_cmd":           "./check.sh " + p.ID + " quick",
			"thorough_cmd":        "./check.sh " + p.ID + " thorough",
			"evidence_file":       "/verif/evidence/" + p.ID + ".json",
			"replay_cmd_template": "./bin/gopkicheck -replay {path}",
			"engine":              "gopkicheck",
			"level_claimed":       map[string]any{"category": "other", "text": p.levelText(), "design_ref": p.DesignRef},
			"level_note":          commonNote,
			"technique":           "static analysis: " + p.Technique,
		})
	}
	var na []map[string]any
	for _, id := range allPropertyIDs {
		if claimed[id] {
			continue
		}
		reason := notApplicable[id]
		if reason == "" {
			reason = "no static check is registered for this property yet (design in DESIGN.md section 4); it is not claimed until its rules are built and tested both ways"
		}
		na = append(na, map[string]any{"property_id": id, "reason": reason})
	}
	var served []string
	for id := range claimed {
		served = append(served, id)
	}
	sort.Strings(served)
	m := map[string]any{
		"version":   1,
		"setup_cmd": "./setup.sh",
		"hooks": map[string]any{
			"guard":            "verif",
			"enable":           "none: static analysis needs no instrumentation; checks load /repo's working tree as it is",
			"baseline_off_cmd": "cd /repo && GOFLAGS=-mod=mod GOPROXY=off GOSUMDB=off go test -vet=off -count=1 ./...",
			"source_commits":   []string{},
			"add_only":         true,
		},
		"engines": []map[string]any{{
			"name": "gopkicheck", "path": "/verif/checker", "serves_properties": served,
			"kind_free_text": "repository-specific static analyser (go/packages + go/types + go/ssa, module call graph, constant/table evaluator, access-path provenance, CFG guard queries, ASN.1 tag and JSON-schema comparison); nothing of /repo is executed",
		}},
		"checks":         checks,
		"not_applicable": na,
		"notes":          "Every claimed check is level 'other': it decides named structural necessary conditions of the property from source for all inputs, and states in level_claimed.text and DESIGN.md what it does not decide. KNOWN_FINDINGS.txt lists genuine defects that are recorded rather than repaired, and the fix: commits in /repo.",
	}
	b, _ := json.MarshalIndent(m, "", " ")
	fmt.Println(string(b))
}
