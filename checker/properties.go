package main

import (
	"encoding/json"
	"fmt"
	"sort"
)

// The property table: which rules decide which structural clauses of which
// property, and what the check does not decide. MANIFEST.json is generated
// from it (gopkicheck -manifest) so that the two cannot drift apart.

const commonNote = "Trusted: go/types, go/ssa and go/packages of golang.org/x/tools v0.29.0; the reference tables in /verif/refs (transcribed from the cited RFCs and the repository's documentation); the library facts of DESIGN.md 2.8 (encoding/asn1 emits DER for the shape it is given, time layout tokens, curve constructors return the curves of their names). Assumed, not checked: correctness of the Go standard library, keybase brainpool, ghodss/yaml and santhosh-tekuri/jsonschema."

var properties = []Property{
	{ID: "C05",
		Rules:       []string{"TAB-KEYALG", "TAB-CURVEOID", "TAB-ALGOID", "TAB-SIGALG"},
		Technique:   "constant/table evaluation over AST+types and SSA decision chains, compared with RFC reference tables",
		DesignRef:   "DESIGN.md 4 (C05)",
		Explanation: "All 14 key-algorithm names and 8 signature-algorithm names of the schema are followed through the program's finite tables (name -> constant -> key kind -> RSA bit size / library curve constructor -> named-curve OID and its inverse; name -> constant -> hash constructor, hash id, OID, key kind, inner = outer OID), the SubjectPublicKeyInfo/PKCS#8 algorithm identifiers and the documented defaults, and compared entry by entry with reference tables transcribed from RFC 3279/4055/5758/5480/5639. The tables are finite and enumerated completely. Not decided: that the library curve constructors implement those curves, that key generation uses the key it reports, anything about run-time behaviour.",
		LevelText:   "Decides, for every entry of the finite name/constant/OID tables (complete enumeration), that the entry agrees with the standard: a necessary condition of C05 for all 14 x 8 algorithm names. It does not run key generation or signing; whether the generated key really is on that curve is left to the library.",
	},
}

var notApplicable = map[string]string{
	"C12": "history-quantified convergence depends on run-time mtimes, stored hashes and file contents; every structural precondition that can be named (state rebuilt from disk only, hash-line round trip, no-hash guard, issuer-newer propagation, key reuse) is already an obligation of C10, C11, C13 and C14, so no further clause is decidable from source (DESIGN.md 5)",
}

var allPropertyIDs = []string{"C01", "C02", "C03", "C04", "C05", "C06", "C07", "C08", "C09", "C10", "C11", "C12", "C13", "C14", "C15", "C16", "C17", "C18", "C19", "C20"}

func emitManifest() {
	claimed := map[string]bool{}
	var checks []map[string]any
	for _, p := range properties {
		ok := len(p.Rules) > 0
		for _, rn := range p.Rules {
			if rules[rn] == nil {
				ok = false
			}
		}
		if !ok {
			continue
		}
		claimed[p.ID] = true
		checks = append(checks, map[string]any{
			"property_id":         p.ID,
			"quick_cmd":           "./check.sh " + p.ID + " quick",
			"thorough_cmd":        "./check.sh " + p.ID + " thorough",
			"evidence_file":       "/verif/evidence/" + p.ID + ".json",
			"replay_cmd_template": "./bin/gopkicheck -replay {path}",
			"engine":              "gopkicheck",
			"level_claimed":       map[string]any{"category": "other", "text": p.LevelText, "design_ref": p.DesignRef},
			"level_note":          commonNote,
			"technique":           "static analysis: " + p.Technique,
		})
	}
	var na []map[string]any
	for _, id := range allPropertyIDs {
		if claimed[id] {
			continue
		}
		reason := notApplicable[id]
		if reason == "" {
			reason = "no static check is registered for this property yet (design in DESIGN.md section 4); it is not claimed until its rules are built and tested both ways"
		}
		na = append(na, map[string]any{"property_id": id, "reason": reason})
	}
	var served []string
	for id := range claimed {
		served = append(served, id)
	}
	sort.Strings(served)
	m := map[string]any{
		"version":   1,
		"setup_cmd": "./setup.sh",
		"hooks": map[string]any{
			"guard":            "verif",
			"enable":           "none: static analysis needs no instrumentation; checks load /repo's working tree as it is",
			"baseline_off_cmd": "cd /repo && GOFLAGS=-mod=mod GOPROXY=off GOSUMDB=off go test -vet=off -count=1 ./...",
			"source_commits":   []string{},
			"add_only":         true,
		},
		"engines": []map[string]any{{
			"name": "gopkicheck", "path": "/verif/checker", "serves_properties": served,
			"kind_free_text": "repository-specific static analyser (go/packages + go/types + go/ssa, module call graph, constant/table evaluator, access-path provenance, CFG guard queries, ASN.1 tag and JSON-schema comparison); nothing of /repo is executed",
		}},
		"checks":         checks,
		"not_applicable": na,
		"notes":          "Every claimed check is level 'other': it decides named structural necessary conditions of the property from source for all inputs, and states in level_claimed.text and DESIGN.md what it does not decide. KNOWN_FINDINGS.txt lists genuine defects that are recorded rather than repaired, and the fix: commits in /repo.",
	}
	b, _ := json.MarshalIndent(m, "", " ")
	fmt.Println(string(b))
}
