package main

import (
	"go/constant"
	"go/token"
	"go/types"
	"sort"
	"strings"

	"golang.org/x/tools/go/ssa"
)

// Access-path provenance (DESIGN.md 2.3): a backward slice from a value to a set of origin
// descriptions. An origin is a string built structurally:
//
//	P(fn.param)            a parameter (of an entry function, or when the call sites are not followed)
//	K(v)                   a constant
//	G(pkg.name)            a package-level variable
//	callee(a|b)#k          result k of a call with the origins of its arguments
//	I:Iface.Method(r|a)#k  result k of an interface method call
//	x.F  x[]  x[:]  x.(T)  field, element, sub-slice, type assertion of x
//	new(T)  make(T)        fresh memory
//
// Pointers are transparent (p.F is the field of what p points to). Loads from function-local
// memory are resolved flow-insensitively to everything stored there (including whole-struct
// copies). Module callees are inlined (their return operands with parameters substituted) up to
// a depth bound; recursion is cut.
type prov struct {
	c       *Ctx
	depth   int
	memo    map[provKey][]string
	busy    map[provKey]bool
	binds   []map[*ssa.Parameter][]string // parameter bindings of inlined calls (stack)
	fvBinds []map[*ssa.FreeVar][]string
	inl     []*ssa.Function
	opaque  map[*ssa.Function]bool // module functions not to be inlined
}

func (p *prov) inlining(f *ssa.Function) bool {
	for _, x := range p.inl {
		if x == f {
			return true
		}
	}
	return false
}

type provKey struct {
	v     ssa.Value
	depth int
}

func (c *Ctx) newProv() *prov {
	return &prov{c: c, depth: c.depth, memo: map[provKey][]string{}, busy: map[provKey]bool{}, opaque: map[*ssa.Function]bool{}}
}

const maxOrigins = 24

func uniq(in []string) []string {
	sort.Strings(in)
	out := in[:0]
	for i, s := range in {
		if i == 0 || s != in[i-1] {
			out = append(out, s)
		}
	}
	if len(out) > maxOrigins {
		out = append(out[:maxOrigins], "…")
	}
	return out
}

func suffixAll(in []string, suf string) []string {
	out := make([]string, len(in))
	for i, s := range in {
		out[i] = s + suf
	}
	return out
}

func joinArgs(args [][]string) string {
	parts := make([]string, len(args))
	for i, a := range args {
		if len(a) > 3 {
			a = append(append([]string{}, a[:3]...), "…")
		}
		parts[i] = strings.Join(a, ",")
	}
	return strings.Join(parts, "|")
}

// Origins computes the origin set of v.
func (p *prov) Origins(v ssa.Value) []string {
	return uniq(p.origins(v, 0))
}

func (p *prov) origins(v ssa.Value, d int) []string {
	if v == nil {
		return []string{"?nil"}
	}
	if d > 40 {
		return []string{"?deep"}
	}
	inline := len(p.binds)
	key := provKey{v, inline}
	if inline == 0 {
		if r, ok := p.memo[key]; ok {
			return r
		}
	}
	if p.busy[key] {
		return nil // cycle (loop-carried value): contributes nothing new
	}
	p.busy[key] = true
	defer delete(p.busy, key)
	out := p.compute(v, d)
	if inline == 0 {
		p.memo[key] = out
	}
	return out
}

func (p *prov) compute(v ssa.Value, d int) []string {
	c := p.c
	switch x := v.(type) {
	case *ssa.Const:
		if x.Value == nil {
			return []string{"K(nil)"}
		}
		return []string{"K(" + x.Value.ExactString() + ")"}
	case *ssa.Global:
		return []string{"G(" + objName(c, x.Object()) + ")"}
	case *ssa.Function:
		return []string{"F(" + c.FuncKey(x) + ")"}
	case *ssa.Builtin:
		return []string{"builtin " + x.Name()}
	case *ssa.Parameter:
		for i := len(p.binds) - 1; i >= 0; i-- {
			if b, ok := p.binds[i][x]; ok {
				return b
			}
		}
		return []string{"P(" + c.FuncKey(x.Parent()) + "." + x.Name() + ")"}
	case *ssa.FreeVar:
		for i := len(p.fvBinds) - 1; i >= 0; i-- {
			if b, ok := p.fvBinds[i][x]; ok {
				return b
			}
		}
		// bind through the MakeClosure in the parent
		fn := x.Parent()
		if parent := fn.Parent(); parent != nil {
			idx := -1
			for i, fv := range fn.FreeVars {
				if fv == x {
					idx = i
				}
			}
			var out []string
			for _, b := range parent.Blocks {
				for _, ins := range b.Instrs {
					if mc, ok := ins.(*ssa.MakeClosure); ok && mc.Fn == ssa.Value(fn) && idx >= 0 {
						out = append(out, p.origins(mc.Bindings[idx], d+1)...)
					}
				}
			}
			if len(out) > 0 {
				return uniq(out)
			}
		}
		return []string{"FV(" + x.Name() + ")"}
	case *ssa.Alloc:
		if x.Heap {
			// a struct literal built in an inlined helper and handed back by address: described by what it holds
			if len(p.binds) > 0 {
				if _, isStruct := x.Type().Underlying().(*types.Pointer).Elem().Underlying().(*types.Struct); isStruct {
					var out []string
					for _, l := range p.loadFrom(x, nil, d) {
						out = append(out, "&"+l)
					}
					if len(out) > 0 {
						return out
					}
				}
			}
			return []string{"new(" + typeShort(c, x.Type().Underlying().(*types.Pointer).Elem()) + ")@" + c.FuncKey(x.Parent())}
		}
		// address of a local: what it holds
		return p.loadFrom(x, nil, d)
	case *ssa.MakeSlice:
		// a made slice with what is stored into its elements in this function
		var elems []string
		if refs := x.Referrers(); refs != nil {
			for _, ref := range *refs {
				if ia, ok := ref.(*ssa.IndexAddr); ok {
					for _, rr := range *ia.Referrers() {
						if st, ok := rr.(*ssa.Store); ok && st.Addr == ssa.Value(ia) {
							elems = append(elems, p.origins(st.Val, d+1)...)
						}
					}
				}
			}
		}
		if len(elems) > 0 {
			return []string{"make(" + typeShort(c, x.Type()) + "){" + strings.Join(uniq(elems), ",") + "}"}
		}
		return []string{"make(" + typeShort(c, x.Type()) + ")"}
	case *ssa.MakeMap:
		return []string{"make(" + typeShort(c, x.Type()) + ")"}
	case *ssa.Phi:
		var out []string
		for _, e := range x.Edges {
			out = append(out, p.origins(e, d+1)...)
		}
		return uniq(out)
	case *ssa.MakeInterface:
		return p.origins(x.X, d+1)
	case *ssa.ChangeInterface:
		return p.origins(x.X, d+1)
	case *ssa.ChangeType:
		return p.origins(x.X, d+1)
	case *ssa.Convert:
		return suffixAllPrefix("conv:"+typeShort(c, x.Type())+"(", p.origins(x.X, d+1), ")")
	case *ssa.TypeAssert:
		t := ".(" + typeShort(c, x.AssertedType) + ")"
		if x.CommaOk {
			return suffixAll(p.origins(x.X, d+1), t+"!") // tuple marker; Extract #0 strips the '!'
		}
		return suffixAll(p.origins(x.X, d+1), t)
	case *ssa.Extract:
		tup := p.origins(x.Tuple, d+1)
		var out []string
		for _, s := range tup {
			switch {
			case strings.HasSuffix(s, "!"): // comma-ok forms
				if x.Index == 0 {
					out = append(out, strings.TrimSuffix(s, "!"))
				} else {
					out = append(out, "ok("+strings.TrimSuffix(s, "!")+")")
				}
			case strings.Contains(s, "#*"):
				// tuple of an inlined call: element origins separated per index
				out = append(out, tupleElem(s, x.Index))
			default:
				out = append(out, s+sprintf("#%d", x.Index))
			}
		}
		return uniq(flattenTuple(out))
	case *ssa.Field:
		return fieldsOf(p.origins(x.X, d+1), fieldOfVal(x).Name())
	case *ssa.FieldAddr:
		// an address: used by loads; as a value, describe the location
		return suffixAll(p.addrBase(x.X, d+1), "."+fieldOfAddr(x).Name())
	case *ssa.IndexAddr:
		return suffixAll(p.addrBase(x.X, d+1), "[]")
	case *ssa.Index:
		return suffixAll(p.origins(x.X, d+1), "[]")
	case *ssa.Lookup:
		s := "[]"
		if x.CommaOk {
			s = "[]!"
		}
		return suffixAll(p.origins(x.X, d+1), s)
	case *ssa.Slice:
		// a slice of a local array (the backing array of variadic arguments): what was stored into it
		if al, ok := x.X.(*ssa.Alloc); ok {
			if _, isArr := al.Type().Underlying().(*types.Pointer).Elem().Underlying().(*types.Array); isArr {
				var out []string
				for _, ref := range *al.Referrers() {
					if ia, ok := ref.(*ssa.IndexAddr); ok {
						for _, rr := range *ia.Referrers() {
							if st, ok := rr.(*ssa.Store); ok && st.Addr == ssa.Value(ia) {
								out = append(out, p.origins(st.Val, d+1)...)
							}
						}
					}
				}
				if len(out) > 0 {
					return uniq(out)
				}
			}
		}
		return suffixAll(p.origins(x.X, d+1), "[:]")
	case *ssa.UnOp:
		if x.Op == token.MUL {
			return p.load(x.X, d+1)
		}
		return suffixAllPrefix(x.Op.String()+"(", p.origins(x.X, d+1), ")")
	case *ssa.BinOp:
		a, b := p.origins(x.X, d+1), p.origins(x.Y, d+1)
		return []string{x.Op.String() + "(" + joinArgs([][]string{a, b}) + ")"}
	case *ssa.Call:
		return p.call(x, d)
	case *ssa.MakeClosure:
		return []string{"closure(" + c.FuncKey(x.Fn.(*ssa.Function)) + ")"}
	case *ssa.Range:
		return suffixAll(p.origins(x.X, d+1), "[range]")
	case *ssa.Next:
		return suffixAll(p.origins(x.Iter, d+1), "!next")
	}
	return []string{sprintf("?%T", v)}
}

func suffixAllPrefix(pre string, in []string, suf string) []string {
	out := make([]string, len(in))
	for i, s := range in {
		out[i] = pre + s + suf
	}
	return out
}

// tuples of inlined calls are rendered "#*{e0;e1;…}" per combination; keep it simple: one string per index.
func tupleElem(s string, idx int) string {
	i := strings.Index(s, "#*{")
	if i < 0 || !strings.HasSuffix(s, "}") {
		return s
	}
	parts := strings.Split(s[i+3:len(s)-1], "‖")
	if idx < len(parts) {
		return parts[idx]
	}
	return "?tuple"
}

func flattenTuple(in []string) []string {
	var out []string
	for _, s := range in {
		out = append(out, strings.Split(s, "¦")...)
	}
	return out
}

// addrBase: origins of the object an address expression is rooted in (pointers are transparent).
func (p *prov) addrBase(v ssa.Value, d int) []string {
	switch x := v.(type) {
	case *ssa.Alloc:
		if x.Heap {
			return []string{"new(" + typeShort(p.c, x.Type().Underlying().(*types.Pointer).Elem()) + ")@" + p.c.FuncKey(x.Parent())}
		}
		return []string{"local(" + x.Comment + ")"}
	}
	return p.origins(v, d)
}

// load resolves *addr.
func (p *prov) load(addr ssa.Value, d int) []string {
	switch a := addr.(type) {
	case *ssa.Alloc:
		return p.loadFrom(a, nil, d)
	case *ssa.FreeVar:
		// a captured variable: what the enclosing function keeps in it
		fn := a.Parent()
		if parent := fn.Parent(); parent != nil {
			var out []string
			for i, fv := range fn.FreeVars {
				if fv != a {
					continue
				}
				for _, b := range parent.Blocks {
					for _, ins := range b.Instrs {
						if mc, ok := ins.(*ssa.MakeClosure); ok && mc.Fn == ssa.Value(fn) {
							if al, ok := mc.Bindings[i].(*ssa.Alloc); ok {
								out = append(out, p.loadFrom(al, nil, d+1)...)
							}
						}
					}
				}
			}
			if len(out) > 0 {
				return uniq(out)
			}
		}
	case *ssa.FieldAddr:
		// walk up to a local root collecting the field path
		var path []*types.Var
		cur := ssa.Value(a)
		for {
			fa, ok := cur.(*ssa.FieldAddr)
			if !ok {
				break
			}
			path = append([]*types.Var{fieldOfAddr(fa)}, path...)
			cur = fa.X
		}
		if root, ok := cur.(*ssa.Alloc); ok {
			return p.loadFrom(root, path, d)
		}
		// pointer base: field of what the pointer points to
		base := p.origins(cur, d+1)
		for _, f := range path {
			base = fieldsOf(base, f.Name())
		}
		return base
	case *ssa.IndexAddr:
		if root := allocRoot(a.X); root != nil {
			if _, isArr := root.Type().Underlying().(*types.Pointer).Elem().Underlying().(*types.Array); isArr {
				// local array (e.g. varargs): union of stored elements
				var out []string
				for _, ref := range *root.Referrers() {
					if ia, ok := ref.(*ssa.IndexAddr); ok {
						for _, rr := range *ia.Referrers() {
							if st, ok := rr.(*ssa.Store); ok && st.Addr == ssa.Value(ia) {
								out = append(out, p.origins(st.Val, d+1)...)
							}
						}
					}
				}
				return uniq(out)
			}
		}
		return suffixAll(p.origins(a.X, d+1), "[]")
	case *ssa.Global:
		return []string{"G(" + objName(p.c, a.Object()) + ")"}
	}
	// what a pointer points to: on the way of a load through it, the pointer was not the nil one of its possible values
	base := p.origins(addr, d+1)
	if len(base) > 1 {
		var nn []string
		for _, b := range base {
			if b != "K(nil)" {
				nn = append(nn, b)
			}
		}
		if len(nn) > 0 {
			base = nn
		}
	}
	return suffixAll(base, "")
}

// loadFrom: everything stored to the local root at the given field path (flow-insensitive),
// including stores of enclosing structs.
func (p *prov) loadFrom(root *ssa.Alloc, path []*types.Var, d int) []string {
	var out []string
	fn := root.Parent()
	found := false
	lit := map[string][]string{}
	for _, b := range fn.Blocks {
		for _, ins := range b.Instrs {
			st, ok := ins.(*ssa.Store)
			if !ok {
				continue
			}
			// address = root + some field path q
			var q []*types.Var
			cur := st.Addr
			for {
				fa, ok := cur.(*ssa.FieldAddr)
				if !ok {
					break
				}
				q = append([]*types.Var{fieldOfAddr(fa)}, q...)
				cur = fa.X
			}
			if cur != ssa.Value(root) {
				continue
			}
			// q is a prefix of path: the stored struct contains our field; path is a prefix of q: we hold a struct, part of which is stored
			if isPrefix(q, path) {
				found = true
				o := p.origins(st.Val, d+1)
				for _, f := range path[len(q):] {
					o = fieldsOf(o, f.Name())
				}
				out = append(out, o...)
			} else if isPrefix(path, q) {
				// we load a struct, a component of which is stored here: collect into a literal
				found = true
				name := ""
				for _, f := range q[len(path):] {
					name += "." + f.Name()
				}
				lit[strings.TrimPrefix(name, ".")] = append(lit[strings.TrimPrefix(name, ".")], p.origins(st.Val, d+1)...)
			}
		}
	}
	if len(lit) > 0 {
		var ks []string
		for k := range lit {
			ks = append(ks, k)
		}
		sort.Strings(ks)
		parts := make([]string, len(ks))
		for i, k := range ks {
			parts[i] = k + "=" + strings.Join(uniq(lit[k]), ",")
		}
		out = append(out, "lit{"+strings.Join(parts, ";")+"}")
	}
	// address passed to a call that fills it (asn1.Unmarshal(&x), yaml.Unmarshal) or escapes
	for _, ref := range *root.Referrers() {
		if ci, ok := ref.(ssa.CallInstruction); ok {
			// a module function that only keeps or reads the address (no store through it, not handed on) fills nothing
			if g := ci.Common().StaticCallee(); g != nil && p.c.InModule(g) && g.Blocks != nil {
				writes := false
				for i, a := range ci.Common().Args {
					if a != ssa.Value(root) || i >= len(g.Params) {
						continue
					}
					if writesThrough(g.Params[i], 0) {
						writes = true
					}
				}
				if !writes {
					continue
				}
			}
			suf := ""
			for _, f := range path {
				suf += "." + f.Name()
			}
			out = append(out, "filled-by:"+shortName(calleeFullName(ci))+suf)
			found = true
		}
	}
	if !found {
		suf := ""
		for _, f := range path {
			suf += "." + f.Name()
		}
		out = append(out, "zero("+root.Comment+")"+suf)
	}
	return uniq(out)
}

func isPrefix(q, path []*types.Var) bool {
	if len(q) > len(path) {
		return false
	}
	for i := range q {
		if q[i] != path[i] {
			return false
		}
	}
	return true
}

func shortName(full string) string {
	s := strings.ReplaceAll(full, modPath+"/generator/db/", "")
	s = strings.ReplaceAll(s, modPath+"/generator/config/", "")
	s = strings.ReplaceAll(s, modPath+"/generator/", "")
	s = strings.ReplaceAll(s, modPath+"/", "")
	return s
}

func (p *prov) call(x *ssa.Call, d int) []string {
	c := p.c
	cc := x.Call
	var args [][]string
	if cc.IsInvoke() {
		args = append(args, p.origins(cc.Value, d+1))
	}
	for _, a := range cc.Args {
		args = append(args, p.origins(a, d+1))
	}
	if cc.IsInvoke() {
		iface := typeShort(c, cc.Value.Type())
		return []string{"I:" + iface + "." + cc.Method.Name() + "(" + joinArgs(args) + ")"}
	}
	if bi, ok := cc.Value.(*ssa.Builtin); ok {
		if bi.Name() == "append" && len(args) > 0 {
			// append(s, xs…): elements of both
			var out []string
			out = append(out, args[0]...)
			for _, a := range args[1:] {
				out = append(out, suffixAllPrefix("elem:", a, "")...)
			}
			return uniq(out)
		}
		return []string{bi.Name() + "(" + joinArgs(args) + ")"}
	}
	callee := cc.StaticCallee()
	if callee == nil {
		if mc, ok := cc.Value.(*ssa.MakeClosure); ok {
			callee = mc.Fn.(*ssa.Function)
		}
	}
	if callee == nil {
		return []string{"dyncall(" + joinArgs(args) + ")"}
	}
	if c.InModule(callee) && callee.Blocks != nil && len(p.binds) < p.depth && !p.inlining(callee) && !hasLoop(callee) && !p.opaque[callee] {
		// inline: return operands with parameters substituted
		bind := map[*ssa.Parameter][]string{}
		for i, prm := range callee.Params {
			if i < len(args) {
				bind[prm] = args[i]
			}
		}
		p.binds = append(p.binds, bind)
		p.inl = append(p.inl, callee)
		nres := callee.Signature.Results().Len()
		per := make([][]string, nres)
		skipFailed := nres >= 2 && isErrorType(callee.Signature.Results().At(nres-1).Type()) && errGuardedUses(x)
		// the same with a boolean ok as the last result
		lastIsBool := false
		if nres >= 2 {
			if bt, isB := callee.Signature.Results().At(nres - 1).Type().Underlying().(*types.Basic); isB && bt.Kind() == types.Bool {
				lastIsBool = true
			}
		}
		skipNotOk := lastIsBool && errGuardedUses(x)
		for _, ret := range returnsOf(callee) {
			rr := retResults(ret)
			if skipNotOk && len(rr) == nres {
				if k, isK := rr[nres-1].(*ssa.Const); isK && k.Value != nil && k.Value.Kind() == constant.Bool && !constant.BoolVal(k.Value) {
					per[nres-1] = append(per[nres-1], p.origins(rr[nres-1], d+1)...)
					continue
				}
			}
			if skipFailed && len(rr) == nres && definitelyNonNilErr(rr[nres-1], ret.Block()) {
				// the caller uses the other results only where this call's error is nil: what a failing
				// return hands back besides the error is never looked at
				per[nres-1] = append(per[nres-1], p.origins(rr[nres-1], d+1)...)
				continue
			}
			for i := 0; i < nres && i < len(rr); i++ {
				per[i] = append(per[i], p.origins(rr[i], d+1)...)
			}
		}
		p.binds = p.binds[:len(p.binds)-1]
		p.inl = p.inl[:len(p.inl)-1]
		if nres == 1 {
			return uniq(per[0])
		}
		parts := make([]string, nres)
		for i := range per {
			parts[i] = strings.Join(uniq(per[i]), "¦")
		}
		return []string{"#*{" + strings.Join(parts, "‖") + "}"}
	}
	return []string{shortName(calleeFullName(x)) + "(" + joinArgs(args) + ")"}
}

// fieldsOf selects field name of each origin; origins that are struct literals are opened.
func fieldsOf(in []string, name string) []string {
	var out []string
	for _, s := range in {
		if s == "K(nil)" && len(in) > 1 {
			continue // a field is read through the pointer: on that way it was not the nil one of its possible values
		}
		s = strings.TrimPrefix(s, "&") // a literal handed on by address: same fields
		if strings.HasPrefix(s, "lit{") && strings.HasSuffix(s, "}") {
			body := s[4 : len(s)-1]
			depth := 0
			start := 0
			var parts []string
			for i, r := range body {
				switch r {
				case '{', '(':
					depth++
				case '}', ')':
					depth--
				case ';':
					if depth == 0 {
						parts = append(parts, body[start:i])
						start = i + 1
					}
				}
			}
			parts = append(parts, body[start:])
			hit := false
			for _, pt := range parts {
				eq := strings.Index(pt, "=")
				if eq < 0 {
					continue
				}
				k, v := pt[:eq], pt[eq+1:]
				if k == name {
					hit = true
					out = append(out, splitTop(v, ',')...)
				} else if strings.HasPrefix(k, name+".") {
					hit = true
					out = append(out, "lit{"+strings.TrimPrefix(k, name+".")+"="+v+"}")
				}
			}
			if !hit {
				out = append(out, "zero."+name)
			}
			continue
		}
		out = append(out, s+"."+name)
	}
	return out
}

func splitTop(s string, sep rune) []string {
	var out []string
	depth, start := 0, 0
	for i, r := range s {
		switch r {
		case '{', '(':
			depth++
		case '}', ')':
			depth--
		default:
			if r == sep && depth == 0 {
				out = append(out, s[start:i])
				start = i + 1
			}
		}
	}
	return append(out, s[start:])
}

// Contents describes what a value holds: for an address of a literal (heap or local) the stored fields.
func (p *prov) Contents(v ssa.Value) []string {
	if al, ok := v.(*ssa.Alloc); ok {
		return uniq(p.loadFrom(al, nil, 0))
	}
	return p.Origins(v)
}

// hasLoop: functions with loops (parsers, converters over lists) are kept opaque: their result is
// described as a call on the argument origins instead of being inlined.
var loopCache = map[*ssa.Function]bool{}

func hasLoop(f *ssa.Function) bool {
	if v, ok := loopCache[f]; ok {
		return v
	}
	res := false
	for _, b := range f.Blocks {
		if inLoop(b) {
			res = true
			break
		}
	}
	loopCache[f] = res
	return res
}

// Opaque marks module functions whose calls are described as calls (not inlined).
func (p *prov) Opaque(fns ...*ssa.Function) *prov {
	for _, f := range fns {
		if f != nil {
			p.opaque[f] = true
		}
	}
	return p
}

// errGuardedUses: every use of a non-error result of the call sits where the call's error result is known to be nil.
func errGuardedUses(call ssa.Value) bool {
	refs := call.Referrers()
	if refs == nil {
		return false
	}
	tup, ok := call.Type().(*types.Tuple)
	if !ok {
		return false
	}
	var errExt *ssa.Extract
	var others []*ssa.Extract
	for _, r := range *refs {
		ex, ok := r.(*ssa.Extract)
		if !ok {
			if _, dbg := r.(*ssa.DebugRef); dbg {
				continue
			}
			return false
		}
		if ex.Index == tup.Len()-1 {
			errExt = ex
		} else {
			others = append(others, ex)
		}
	}
	if errExt == nil {
		return false
	}
	nilHere := func(b *ssa.BasicBlock) bool {
		for _, g := range guardsOf(b) {
			// a boolean ok: known true here
			cond, truth := g.Cond, g.Truth
			if u, isNot := cond.(*ssa.UnOp); isNot && u.Op == token.NOT {
				cond, truth = u.X, !truth
			}
			if cond == ssa.Value(errExt) && truth {
				return true
			}
			bin, ok := g.Cond.(*ssa.BinOp)
			if !ok || bin.X != ssa.Value(errExt) {
				continue
			}
			if k, ok := bin.Y.(*ssa.Const); !ok || k.Value != nil {
				continue
			}
			if (bin.Op == token.EQL) == g.Truth && (bin.Op == token.EQL || bin.Op == token.NEQ) {
				return true
			}
		}
		return false
	}
	for _, ex := range others {
		urefs := ex.Referrers()
		if urefs == nil {
			continue
		}
		for _, u := range *urefs {
			if _, dbg := u.(*ssa.DebugRef); dbg {
				continue
			}
			if phi, ok := u.(*ssa.Phi); ok {
				for i, e := range phi.Edges {
					if e == ssa.Value(ex) && !nilHere(phi.Block().Preds[i]) {
						return false
					}
				}
				continue
			}
			if nilHere(u.Block()) {
				continue
			}
			// `v, err := f()` with v a variable that lives in memory: the store precedes the error test;
			// what matters is where the variable is looked at afterwards
			if st, ok := u.(*ssa.Store); ok && st.Val == ssa.Value(ex) {
				if al, ok := st.Addr.(*ssa.Alloc); ok && al.Referrers() != nil {
					okAll := true
					for _, au := range *al.Referrers() {
						if au == ssa.Instruction(st) {
							continue
						}
						if _, dbg := au.(*ssa.DebugRef); dbg {
							continue
						}
						if !nilHere(au.Block()) {
							okAll = false
						}
					}
					if okAll {
						continue
					}
				}
			}
			return false
		}
	}
	return true
}

// definitelyNonNilErr: the error operand of a return is a freshly made error or is known non-nil where it is returned.
func definitelyNonNilErr(v ssa.Value, at *ssa.BasicBlock) bool {
	return definitelyNonNilErrD(v, at, 0)
}

func definitelyNonNilErrD(v ssa.Value, at *ssa.BasicBlock, depth int) bool {
	if call, ok := v.(*ssa.Call); ok {
		if f := call.Call.StaticCallee(); f != nil && f.Pkg != nil {
			switch f.Pkg.Pkg.Path() + "." + f.Name() {
			case "fmt.Errorf", "errors.New":
				return true
			}
			// an error-making helper of the module: every exit hands back a definitely non-nil error
			if f.Blocks != nil && depth < 3 && f.Signature.Results().Len() == 1 && isErrorType(f.Signature.Results().At(0).Type()) {
				all := true
				rets := returnsOf(f)
				for _, ret := range rets {
					if rr := retResults(ret); len(rr) != 1 || !definitelyNonNilErrD(rr[0], ret.Block(), depth+1) {
						all = false
					}
				}
				if all && len(rets) > 0 {
					return true
				}
			}
		}
	}
	if _, ok := v.(*ssa.MakeInterface); ok {
		return true // a concrete value boxed into the interface is a non-nil interface
	}
	for _, g := range guardsOf(at) {
		bin, ok := g.Cond.(*ssa.BinOp)
		if !ok || bin.X != v {
			continue
		}
		if k, ok := bin.Y.(*ssa.Const); ok && k.Value == nil && (bin.Op == token.NEQ) == g.Truth && (bin.Op == token.EQL || bin.Op == token.NEQ) {
			return true
		}
	}
	return false
}

// frame: a function analysed in the frame of a root function: the root itself (site nil) or a module helper the root
// calls, with the helper's parameters bound to the origins of the arguments at that call.
type frame struct {
	fn   *ssa.Function
	site ssa.CallInstruction // the call in the root function (for a nested helper: the outermost call)
}

// inFrames runs visit for root and for the module helpers it calls statically (up to depth levels), with the parameter
// bindings pushed so that origins computed inside visit are expressed in root's terms. Helpers that are entry points of
// their own (called from elsewhere too) are still visited: what matters is what happens on root's behalf.
func (p *prov) inFrames(root *ssa.Function, depth int, skip func(*ssa.Function) bool, visit func(fr frame)) {
	visit(frame{root, nil})
	var rec func(f *ssa.Function, outer ssa.CallInstruction, d int, seen map[*ssa.Function]bool)
	rec = func(f *ssa.Function, outer ssa.CallInstruction, d int, seen map[*ssa.Function]bool) {
		if d >= depth {
			return
		}
		for _, ci := range callsIn(f) {
			g := ci.Common().StaticCallee()
			if g == nil || !p.c.InModule(g) || g.Blocks == nil || seen[g] || (skip != nil && skip(g)) {
				continue
			}
			if _, isCall := ci.(*ssa.Call); !isCall {
				continue
			}
			bind := map[*ssa.Parameter][]string{}
			for i, prm := range g.Params {
				if i < len(ci.Common().Args) {
					bind[prm] = uniq(p.origins(ci.Common().Args[i], 0))
				}
			}
			site := outer
			if site == nil {
				site = ci
			}
			p.binds = append(p.binds, bind)
			seen[g] = true
			visit(frame{g, site})
			rec(g, site, d+1, seen)
			delete(seen, g)
			p.binds = p.binds[:len(p.binds)-1]
		}
	}
	rec(root, nil, 0, map[*ssa.Function]bool{root: true})
}

// here: origins of v in the current frame (bindings of enclosing inFrames calls apply).
func (p *prov) here(v ssa.Value) []string { return uniq(p.origins(v, 0)) }

// writesThrough: the function stores through the pointer parameter (or a field address derived from it), or hands the
// pointer to another call (which might).
func writesThrough(v ssa.Value, d int) bool {
	if d > 4 || v.Referrers() == nil {
		return false
	}
	for _, u := range *v.Referrers() {
		switch x := u.(type) {
		case *ssa.Store:
			if x.Addr == v {
				return true
			}
			// the pointer itself is stored somewhere (kept): not a write through it
		case *ssa.FieldAddr:
			if writesThrough(x, d+1) {
				return true
			}
		case *ssa.IndexAddr:
			if writesThrough(x, d+1) {
				return true
			}
		case ssa.CallInstruction:
			return true
		case *ssa.MapUpdate, *ssa.UnOp, *ssa.DebugRef, *ssa.MakeInterface, *ssa.Phi:
		}
	}
	return false
}
