package main

import (
	"go/token"
	"go/types"
	"strings"

	"golang.org/x/tools/go/ssa"
)

// Role finders: rules locate their subjects by what the code does, not by name.

// funcsCalling lists the module functions that statically call the library function `full`
// (import-path qualified, e.g. "crypto/ecdsa.SignASN1"), with the call sites.
func (c *Ctx) funcsCalling(full string) map[*ssa.Function][]ssa.CallInstruction {
	out := map[*ssa.Function][]ssa.CallInstruction{}
	for _, fn := range c.Funcs {
		for _, ci := range callsIn(fn) {
			if calleeFullName(ci) == full {
				out[fn] = append(out[fn], ci)
			}
		}
	}
	return out
}

// signFunc: the unique module function that produces signatures.
func (c *Ctx) signFunc() (*ssa.Function, string) {
	// the function that turns a context into a signed certificate: it takes the signature algorithm and stores the
	// signature value into a Certificate. The signature primitives may be called by it or by a helper it calls.
	var out []*ssa.Function
	for _, fn := range c.Funcs {
		if fn.Parent() != nil {
			continue
		}
		hasAlg := false
		for _, p := range fn.Params {
			if c.isModNamed("SignatureAlgorithm")(p.Type()) {
				hasAlg = true
			}
		}
		if !hasAlg {
			continue
		}
		for _, fs := range storesIntoType(c, fn, "cert.Certificate") {
			if fs.field == "SignatureValue" {
				out = append(out, fn)
				break
			}
		}
	}
	if len(out) != 1 {
		return nil, sprintf("expected exactly one function with a SignatureAlgorithm parameter that stores Certificate.SignatureValue, found %d", len(out))
	}
	fn := out[0]
	// both primitives are reached from it
	reach := c.Graph().Reach(fn)
	for _, prim := range []string{"crypto/ecdsa.SignASN1", "crypto/rsa.SignPKCS1v15"} {
		ok := false
		for f := range c.funcsCalling(prim) {
			if _, r := reach[f]; r {
				ok = true
			}
		}
		if !ok {
			return nil, c.FuncKey(fn) + " does not reach " + prim
		}
	}
	return fn, ""
}

// signPrimitiveCalls: the calls of the two signature primitives reachable from the signing function.
func (c *Ctx) signPrimitiveCalls() []ssa.CallInstruction {
	fn, _ := c.signFunc()
	if fn == nil {
		return nil
	}
	reach := c.Graph().Reach(fn)
	var out []ssa.CallInstruction
	for _, prim := range []string{"crypto/ecdsa.SignASN1", "crypto/rsa.SignPKCS1v15"} {
		for f, cis := range c.funcsCalling(prim) {
			if _, r := reach[f]; r {
				out = append(out, cis...)
			}
		}
	}
	return out
}

// keyTypeRoles maps the values of the module's key-kind enumeration to "ec"/"rsa":
// the constant whose equality test's true edge dominates the ECDSA (RSA) signing call.
func (c *Ctx) keyTypeRoles() (map[int64]string, *types.Named, string) {
	fn, why := c.signFunc()
	if fn == nil {
		return nil, nil, why
	}
	out := map[int64]string{}
	var typ *types.Named
	for _, ci := range c.signPrimitiveCalls() {
		role := ""
		switch calleeFullName(ci) {
		case "crypto/ecdsa.SignASN1":
			role = "ec"
		case "crypto/rsa.SignPKCS1v15":
			role = "rsa"
		default:
			continue
		}
		found := false
		for _, g := range guardsOf(ci.Block()) {
			bin, ok := g.Cond.(*ssa.BinOp)
			if !ok || bin.Op != token.EQL || !g.Truth {
				continue
			}
			k, ok := bin.Y.(*ssa.Const)
			if !ok {
				k, ok = bin.X.(*ssa.Const)
			}
			if !ok {
				continue
			}
			n, isNamed := k.Type().(*types.Named)
			if !isNamed || !c.IsModObj(n.Obj()) {
				continue
			}
			out[k.Int64()] = role
			typ = n
			found = true
			break
		}
		if !found {
			return nil, nil, "signing call to " + calleeFullName(ci) + " in " + c.FuncKey(ci.Parent()) + " is not guarded by an equality test of a key-kind constant"
		}
	}
	if len(out) != 2 {
		return nil, nil, "could not tell the EC and RSA key-kind constants apart"
	}
	return out, typ, ""
}

// resolveAlgFunc: the table function from a signature algorithm to (hash id, hash, OID, key kind).
func (c *Ctx) resolveAlgFunc() *ssa.Function {
	var out *ssa.Function
	for _, fn := range c.Funcs {
		if fn.Parent() != nil {
			continue
		}
		res := fn.Signature.Results()
		hasID, hasHash := false, false
		for i := 0; i < res.Len(); i++ {
			if typeIs(res.At(i).Type(), "crypto", "Hash") {
				hasID = true
			}
			if typeIs(res.At(i).Type(), "hash", "Hash") {
				hasHash = true
			}
		}
		if hasID && hasHash {
			if out != nil {
				return nil
			}
			out = fn
		}
	}
	if out == nil {
		// the table as data: a function from the algorithm to an entry {hash identifier, OID, key kind} and an error
		for _, fn := range c.Funcs {
			if fn.Parent() != nil || fn.Blocks == nil || len(fn.Params) != 1 || !c.isModNamed("SignatureAlgorithm")(fn.Params[0].Type()) {
				continue
			}
			if c.algEntryFields(fn) == nil {
				continue
			}
			if out != nil {
				return nil
			}
			out = fn
		}
	}
	return out
}

// algEntryFields: for a table function that answers (entry, error): the entry's field index per column, else nil.
func (c *Ctx) algEntryFields(fn *ssa.Function) map[string]int {
	res := fn.Signature.Results()
	if res.Len() != 2 || !isErrorType(res.At(1).Type()) {
		return nil
	}
	n, ok := res.At(0).Type().(*types.Named)
	if !ok || !c.IsModObj(n.Obj()) {
		return nil
	}
	st, ok := n.Underlying().(*types.Struct)
	if !ok {
		return nil
	}
	idx := map[string]int{}
	for i := 0; i < st.NumFields(); i++ {
		t := st.Field(i).Type()
		switch {
		case typeIs(t, "crypto", "Hash"):
			idx["hashid"] = i
		case isOID(t):
			idx["oid"] = i
		default:
			if fn, isNamed := t.(*types.Named); isNamed && c.IsModObj(fn.Obj()) {
				if b, isB := fn.Underlying().(*types.Basic); isB && b.Info()&types.IsInteger != 0 {
					idx["key"] = i
				}
			}
		}
	}
	if len(idx) != 3 {
		return nil
	}
	return idx
}

// algCol: which column of the algorithm table tab a value in a caller is ("hashid", "hash", "oid", "key", "err"), and
// the call of the table it comes from; "" when it is none. For the table with five results these are the extracted
// results; for the table of entries, the fields read from the entry (directly or through a local it was put into) and,
// for the hash, hashid.New().
func (c *Ctx) algCol(tab *ssa.Function, v ssa.Value) (string, *ssa.Call) {
	if tab == nil || v == nil {
		return "", nil
	}
	entry := c.algEntryFields(tab)
	tabCall := func(x ssa.Value) (*ssa.Call, int, bool) {
		ex, ok := x.(*ssa.Extract)
		if !ok {
			return nil, 0, false
		}
		call, ok := ex.Tuple.(*ssa.Call)
		if !ok || call.Call.StaticCallee() != tab {
			return nil, 0, false
		}
		return call, ex.Index, true
	}
	if entry == nil {
		call, i, ok := tabCall(v)
		if !ok {
			return "", nil
		}
		t := tab.Signature.Results().At(i).Type()
		switch {
		case typeIs(t, "hash", "Hash"):
			return "hash", call
		case typeIs(t, "crypto", "Hash"):
			return "hashid", call
		case isOID(t):
			return "oid", call
		case isErrorType(t):
			return "err", call
		}
		return "key", call
	}
	if call, i, ok := tabCall(v); ok && i == 1 {
		return "err", call
	}
	fieldCol := func(i int) string {
		for col, fi := range entry {
			if fi == i {
				return col
			}
		}
		return ""
	}
	switch x := v.(type) {
	case *ssa.Field:
		if call, i, ok := tabCall(x.X); ok && i == 0 {
			return fieldCol(x.Field), call
		}
	case *ssa.UnOp:
		if fa, ok := x.X.(*ssa.FieldAddr); ok && x.Op == token.MUL {
			if al, ok := fa.X.(*ssa.Alloc); ok && al.Referrers() != nil {
				var src *ssa.Call
				n := 0
				for _, ref := range *al.Referrers() {
					if st, isSt := ref.(*ssa.Store); isSt && st.Addr == ssa.Value(al) {
						n++
						if call, i, ok := tabCall(st.Val); ok && i == 0 {
							src = call
						}
					}
				}
				if n == 1 && src != nil {
					return fieldCol(fa.Field), src
				}
			}
		}
	case *ssa.Call:
		if calleeFullName(x) == "(crypto.Hash).New" && len(x.Call.Args) == 1 {
			if col, call := c.algCol(tab, x.Call.Args[0]); col == "hashid" {
				return "hash", call
			}
		}
	}
	return "", nil
}

// globalsOfType lists module package-level variables whose type satisfies pred.
func (c *Ctx) globalsOfType(pred func(types.Type) bool) []*ssa.Global {
	var out []*ssa.Global
	for _, sp := range c.SPkgs {
		for _, m := range sp.Members {
			if g, ok := m.(*ssa.Global); ok && g.Object() != nil && pred(g.Object().Type()) {
				out = append(out, g)
			}
		}
	}
	return out
}

func isMapOf(t types.Type, key, elem func(types.Type) bool) bool {
	m, ok := t.Underlying().(*types.Map)
	return ok && key(m.Key()) && elem(m.Elem())
}

func isString(t types.Type) bool {
	b, ok := t.Underlying().(*types.Basic)
	return ok && b.Kind() == types.String
}

func (c *Ctx) isModNamed(name string) func(types.Type) bool {
	return func(t types.Type) bool {
		n, ok := t.(*types.Named)
		return ok && c.IsModObj(n.Obj()) && n.Obj().Name() == name
	}
}

func isOID(t types.Type) bool { return typeIs(t, "encoding/asn1", "ObjectIdentifier") }

// implementations lists the module's named types (value or pointer) whose method set satisfies iface.
func (c *Ctx) implementations(iface *types.Interface) []types.Type {
	var out []types.Type
	for _, p := range c.Pkgs {
		sc := p.Types.Scope()
		for _, name := range sc.Names() {
			tn, ok := sc.Lookup(name).(*types.TypeName)
			if !ok || tn.IsAlias() {
				continue
			}
			if _, isIface := tn.Type().Underlying().(*types.Interface); isIface {
				continue
			}
			if types.Implements(tn.Type(), iface) {
				out = append(out, tn.Type())
			} else if types.Implements(types.NewPointer(tn.Type()), iface) {
				out = append(out, types.NewPointer(tn.Type()))
			}
		}
	}
	return out
}

// methodOf returns the SSA function for method name of type t (declared in the module).
func (c *Ctx) methodOf(t types.Type, name string) *ssa.Function {
	ms := c.Prog.MethodSets.MethodSet(t)
	for i := 0; i < ms.Len(); i++ {
		if ms.At(i).Obj().Name() == name {
			return c.Prog.MethodValue(ms.At(i))
		}
	}
	return nil
}

func typeShort(c *Ctx, t types.Type) string {
	return types.TypeString(t, func(p *types.Package) string {
		if c.isModPath(p.Path()) {
			return c.shortPkg(p.Path())
		}
		return p.Path()
	})
}

func hasPrefixAny(s string, ps ...string) bool {
	for _, p := range ps {
		if strings.HasPrefix(s, p) {
			return true
		}
	}
	return false
}
