package main

import (
	"encoding/json"
	"go/constant"
	"go/token"
	"go/types"
	"os"
	"path/filepath"
	"sort"
	"strconv"
	"strings"

	"golang.org/x/tools/go/ssa"
)

func init() {
	register(&Rule{Name: "ASN1-CERT", Floor: 8, Run: ruleAsn1Cert,
		Doc: "the struct handed to asn1.Marshal where a CERTIFICATE block is written has the field order, universal types, tags, EXPLICIT/OPTIONAL/DEFAULT markers of RFC 5280 4.1 (Certificate, TBSCertificate, Validity, SubjectPublicKeyInfo)"})
	register(&Rule{Name: "ASN1-CSR", Floor: 6, Run: ruleAsn1Csr,
		Doc: "the struct handed to asn1.Marshal where a CERTIFICATE REQUEST block is written has the shape of RFC 2986 with subject and attributes carried as the raw elements of the file in file order (no decoded Name, no slice marked `set`, which encoding/asn1 sorts when it writes: the signature of a stored request is over the bytes as they were), and the value the PEM reader decodes a request into has that same type"})
	register(&Rule{Name: "ASN1-EXT", Floor: 6, Run: ruleAsn1Ext,
		Doc: "the structs marshalled by the extension constructors (AuthorityKeyIdentifier, BasicConstraints, PolicyInformation, PolicyQualifierInfo, UserNotice, NoticeReference) have the shapes of RFC 5280 4.2.1; an OPTIONAL INTEGER without pointer whose value comes from a parameter cannot express a configured zero"})
	register(&Rule{Name: "ASN1-PKCS8", Floor: 4, Run: ruleAsn1Pkcs8,
		Doc: "PrivateKeyInfo and ECPrivateKey have the shapes of RFC 5208 / RFC 5915; the EC writer stores version 1 and the reader requires that same constant"})
	register(&Rule{Name: "ASN1-ADM", Floor: 7, Run: ruleAsn1Adm,
		Doc: "NamingAuthority, and the library-marshalled fields of Admissions and ProfessionInfo, carry the tags and string kinds of Common PKI AdmissionSyntax; the hand-assembled parts use [0] EXPLICIT for the per-admission authority, UTF8 for profession items and universal SEQUENCE wrappers"})
	register(&Rule{Name: "PARTIAL-COVER", Floor: 1, Run: rulePartialCover,
		Doc: "in every hand-written marshal method the constant (offset, length) ranges given to the partial struct marshaller plus the fields marshalled by hand cover every field of the struct exactly once, in declaration order"})
}

type asn1Shapes map[string]struct {
	Cite   string   `json:"cite"`
	Fields []string `json:"fields"`
}

var shapesCache asn1Shapes

func shapes() asn1Shapes {
	if shapesCache != nil {
		return shapesCache
	}
	b, err := os.ReadFile(filepath.Join(verifDir, "refs", "asn1shapes.json"))
	if err != nil {
		panic("asn1 shapes: " + err.Error())
	}
	raw := map[string]json.RawMessage{}
	if err := json.Unmarshal(b, &raw); err != nil {
		panic(err)
	}
	shapesCache = asn1Shapes{}
	for k, v := range raw {
		if strings.HasPrefix(k, "_") {
			continue
		}
		var s struct {
			Cite   string   `json:"cite"`
			Fields []string `json:"fields"`
		}
		if err := json.Unmarshal(v, &s); err != nil {
			panic("asn1 shapes " + k + ": " + err.Error())
		}
		shapesCache[k] = s
	}
	return shapesCache
}

// fieldParams mirrors encoding/asn1's parseFieldParameters.
type fieldParams struct {
	optional, explicit, omitEmpty, set, application, private bool
	tag                                                      *int
	def                                                      *int64
	stringKind                                               string
	timeKind                                                 string
	unknown                                                  []string
}

func parseASN1Tag(str string) fieldParams {
	var p fieldParams
	for _, part := range strings.Split(str, ",") {
		part = strings.TrimSpace(part)
		switch {
		case part == "":
		case part == "optional":
			p.optional = true
		case part == "explicit":
			p.explicit = true
		case part == "omitempty":
			p.omitEmpty = true
		case part == "set":
			p.set = true
		case part == "application":
			p.application = true
		case part == "private":
			p.private = true
		case part == "ia5", part == "printable", part == "utf8", part == "numeric":
			p.stringKind = part
		case part == "generalized", part == "utc":
			p.timeKind = part
		case strings.HasPrefix(part, "default:"):
			if n, err := strconv.ParseInt(part[8:], 10, 64); err == nil {
				p.def = &n
			}
		case strings.HasPrefix(part, "tag:"):
			if n, err := strconv.Atoi(part[4:]); err == nil {
				p.tag = &n
			}
		default:
			p.unknown = append(p.unknown, part)
		}
	}
	return p
}

// coreType renders the universal type of a Go type as encoding/asn1 would marshal it.
// Struct types render as SEQUENCE(*) and are bound to a reference role by the comparator.
func coreType(c *Ctx, t types.Type, p fieldParams) string {
	switch {
	case typeIs(t, "encoding/asn1", "BitString"):
		return "BIT STRING"
	case typeIs(t, "encoding/asn1", "ObjectIdentifier"):
		return "OBJECT IDENTIFIER"
	case typeIs(t, "encoding/asn1", "RawValue"):
		return "ANY"
	case typeIs(t, "time", "Time"):
		return "Time"
	case typeIs(t, "crypto/x509/pkix", "AlgorithmIdentifier"):
		return "AlgorithmIdentifier"
	case typeIs(t, "crypto/x509/pkix", "RDNSequence"):
		return "Name"
	case typeIs(t, "crypto/x509/pkix", "Extension"):
		return "Extension"
	}
	if ptr, ok := t.(*types.Pointer); ok && typeIs(ptr.Elem(), "math/big", "Int") {
		return "INTEGER"
	}
	switch u := t.Underlying().(type) {
	case *types.Basic:
		switch {
		case u.Info()&types.IsInteger != 0:
			return "INTEGER"
		case u.Kind() == types.Bool:
			return "BOOLEAN"
		case u.Kind() == types.String:
			switch p.stringKind {
			case "ia5":
				return "IA5String"
			case "utf8":
				return "UTF8String"
			case "printable":
				return "PrintableString"
			case "numeric":
				return "NumericString"
			}
			return "DirectoryString"
		}
	case *types.Slice:
		if b, ok := u.Elem().Underlying().(*types.Basic); ok && b.Kind() == types.Byte {
			return "OCTET STRING"
		}
		of := "SEQUENCE OF "
		if p.set {
			of = "SET OF "
		}
		return of + coreType(c, u.Elem(), fieldParams{})
	case *types.Struct:
		return "SEQUENCE(*)"
	case *types.Interface:
		if n, ok := t.(*types.Named); ok && c.IsModObj(n.Obj()) {
			return n.Obj().Name()
		}
		return "ANY"
	}
	return "?" + types.TypeString(t, nil)
}

func fieldShape(c *Ctx, st *types.Struct, i int) (string, fieldParams) {
	raw := reflectTagGet(st.Tag(i), "asn1")
	p := parseASN1Tag(raw)
	var parts []string
	if p.tag != nil {
		parts = append(parts, sprintf("[%d]", *p.tag))
	}
	if p.explicit {
		parts = append(parts, "EXPLICIT")
	}
	if p.optional {
		parts = append(parts, "OPTIONAL")
	}
	if p.def != nil {
		parts = append(parts, sprintf("DEFAULT:%d", *p.def))
	}
	if p.omitEmpty {
		parts = append(parts, "OMITEMPTY")
	}
	parts = append(parts, coreType(c, st.Field(i).Type(), p))
	return strings.Join(parts, " "), p
}

// innerStruct returns the struct type reached through slices.
func innerStruct(t types.Type) (*types.Struct, types.Type) {
	for {
		switch u := t.Underlying().(type) {
		case *types.Struct:
			return u, t
		case *types.Slice:
			t = u.Elem()
		default:
			return nil, nil
		}
	}
}

// compareShape checks struct type t against the reference role; nested SEQUENCE(Role) fields recurse.
// only limits the comparison to the given field indexes (nil = all).
func compareShape(c *Ctx, r *Rep, t types.Type, role string, only map[int]bool, seen map[string]bool) {
	ref, ok := shapes()[role]
	if !ok {
		r.Undecided("ref:"+role, "", "no reference shape")
		return
	}
	st, _ := innerStruct(t)
	if st == nil {
		r.Bad("shape|"+role, "", "a struct type for "+role, types.TypeString(t, nil))
		return
	}
	tname := typeShort(c, t)
	if seen[role+"/"+tname] {
		return
	}
	seen[role+"/"+tname] = true
	pos := ""
	if n, ok := t.(*types.Named); ok {
		pos = c.Pos(n.Obj().Pos())
	}
	if only == nil {
		r.Check(st.NumFields() == len(ref.Fields), "field-count|"+role, pos, sprintf("%d fields (%s)", len(ref.Fields), ref.Cite), sprintf("%d in %s", st.NumFields(), tname))
	}
	for i := 0; i < st.NumFields() && i < len(ref.Fields); i++ {
		if only != nil && !only[i] {
			continue
		}
		got, p := fieldShape(c, st, i)
		want := ref.Fields[i]
		fpos := c.Pos(st.Field(i).Pos())
		key := sprintf("field|%s.%d", role, i)
		if len(p.unknown) > 0 {
			r.Bad(key+"|tag-syntax", fpos, "well-formed asn1 tag", strings.Join(p.unknown, ","))
		}
		// bind nested struct roles
		wantCore := want
		nestedRole := ""
		if j := strings.Index(want, "SEQUENCE("); j >= 0 {
			k := strings.Index(want[j:], ")")
			nestedRole = want[j+9 : j+k]
			wantCore = want[:j] + "SEQUENCE(*)" + want[j+k+1:]
		}
		r.Check(got == wantCore, key, fpos, want+" ("+ref.Cite+")", got+" ("+st.Field(i).Name()+")")
		if nestedRole != "" {
			if inner, it := innerStruct(st.Field(i).Type()); inner != nil {
				compareShape(c, r, it, nestedRole, nil, seen)
			}
		}
	}
}

// marshalArgType: the static type of the value handed to asn1.Marshal at call site ci.
func marshalArgType(ci ssa.CallInstruction) types.Type {
	return unwrapIface(ci.Common().Args[0]).Type()
}

func ruleAsn1Cert(c *Ctx, r *Rep) {
	// the function that produces a PEM block of type CERTIFICATE and calls asn1.Marshal
	var found bool
	pw, _ := c.pemWrites()
	done := map[*ssa.Function]bool{}
	for _, w := range pw {
		if w.typ != "CERTIFICATE" || done[w.fn] {
			continue
		}
		done[w.fn] = true
		fn := w.fn
		for _, ci := range callsIn(fn) {
			if calleeFullName(ci) == "encoding/asn1.Marshal" {
				found = true
				t := marshalArgType(ci)
				compareShape(c, r, t, "Certificate", nil, map[string]bool{})
				// the block bytes are that marshalling
				r.Ok("marshal-site|"+c.FuncKey(fn), c.Pos(ci.Pos()), "asn1.Marshal of the certificate value feeds the CERTIFICATE block", typeShort(c, t))
			}
		}
	}
	if !found {
		r.Undecided("anchor:certificate-writer", "", "no function writes a CERTIFICATE block from asn1.Marshal")
	}
	// the signed bytes are the marshalling of the same TBSCertificate type
	if fn, _ := c.signFunc(); fn != nil {
		n := 0
		for _, ci := range callsIn(fn) {
			if calleeFullName(ci) == "encoding/asn1.Marshal" {
				n++
				t := marshalArgType(ci)
				compareShape(c, r, t, "TBSCertificate", nil, map[string]bool{})
			}
		}
		r.Check(n == 1, "tbs-marshal-once", c.FnPos(fn), "the signing function marshals exactly one value (the TBSCertificate)", sprintf("%d", n))
	}
}

func ruleAsn1Csr(c *Ctx, r *Rep) {
	pw, _ := c.pemWrites()
	done := map[*ssa.Function]bool{}
	var written []types.Type
	for _, w := range pw {
		if w.typ != "CERTIFICATE REQUEST" || done[w.fn] {
			continue
		}
		done[w.fn] = true
		for _, ci := range callsIn(w.fn) {
			if calleeFullName(ci) == "encoding/asn1.Marshal" {
				t := marshalArgType(ci)
				written = append(written, t)
				compareShape(c, r, t, "CertificationRequest", nil, map[string]bool{})
				r.Ok("marshal-site|"+c.FuncKey(w.fn), c.Pos(ci.Pos()), "asn1.Marshal of the request value feeds the CERTIFICATE REQUEST block", typeShort(c, t))
			}
		}
	}
	if len(written) == 0 {
		r.Undecided("anchor:request-writer", "", "no function writes a CERTIFICATE REQUEST block from asn1.Marshal")
		return
	}
	// the reader decodes into the type the writer encodes
	same := false
	var got []string
	for _, fn := range c.Funcs {
		for _, ci := range callsIn(fn) {
			if calleeFullName(ci) != "encoding/asn1.Unmarshal" || len(ci.Common().Args) < 2 {
				continue
			}
			pt, ok := unwrapIface(ci.Common().Args[1]).Type().Underlying().(*types.Pointer)
			if !ok {
				continue
			}
			for _, wt := range written {
				if types.Identical(pt.Elem(), wt) {
					same = true
					got = append(got, c.FuncKey(fn))
				}
			}
		}
	}
	r.Check(same, "reader-decodes-written-type", "", "some asn1.Unmarshal in the module decodes into "+typeShort(c, written[0]), strings.Join(got, ","))
}

// constructorsStoring lists cert-package functions that store the given OID into pkix.Extension.Id.
func constructorsStoring(c *Ctx, ev *evaluator, oid string) []*ssa.Function {
	var out []*ssa.Function
	for _, fn := range c.Funcs {
		if !strings.HasSuffix(fn.Pkg.Pkg.Path(), "generator/cert") {
			continue
		}
		for _, id := range idStoredBy(c, ev, fn) {
			if id == oid {
				out = append(out, fn)
				break
			}
		}
	}
	sort.Slice(out, func(i, j int) bool { return c.FuncKey(out[i]) < c.FuncKey(out[j]) })
	return out
}

func ruleAsn1Ext(c *Ctx, r *Rep) {
	ev := c.evaluator()
	cases := []struct{ oid, role string }{
		{"2.5.29.35", "AuthorityKeyIdentifier"},
		{"2.5.29.19", "BasicConstraints"},
		{"2.5.29.32", "PolicyInformation"},
	}
	for _, cs := range cases {
		fns := constructorsStoring(c, ev, cs.oid)
		if len(fns) == 0 {
			r.Undecided("anchor:constructor|"+cs.role, "", "no constructor stores "+cs.oid)
			continue
		}
		for _, fn := range fns {
			n := 0
			for _, ms := range marshalSitesOf(c, fn) {
				n++
				t := ms.arg.Type()
				compareShape(c, r, t, cs.role, nil, map[string]bool{})
				optionalIntZero(c, r, fn, ms.ci, t)
			}
			r.Check(n == 1, "marshal-site|"+c.FuncKey(fn), c.FnPos(fn), "the constructor marshals one value of the extension's type", sprintf("%d", n))
		}
	}
}

// optionalIntZero: an OPTIONAL, default-less, non-pointer INTEGER field whose stored value derives from a
// parameter (i.e. is configurable) cannot express zero: encoding/asn1 omits the zero value.
func optionalIntZero(c *Ctx, r *Rep, fn *ssa.Function, ci ssa.CallInstruction, t types.Type) {
	st, it := innerStruct(t)
	if st == nil {
		return
	}
	for i := 0; i < st.NumFields(); i++ {
		p := parseASN1Tag(reflectTagGet(st.Tag(i), "asn1"))
		b, ok := st.Field(i).Type().Underlying().(*types.Basic)
		if !ok || b.Info()&types.IsInteger == 0 || !p.optional || p.def != nil {
			continue
		}
		// does a parameter reach this field in fn?
		fromParam := false
		for _, blk := range fn.Blocks {
			for _, ins := range blk.Instrs {
				if s, ok := ins.(*ssa.Store); ok {
					if fa, ok := s.Addr.(*ssa.FieldAddr); ok && fieldOfAddr(fa) == st.Field(i) {
						if _, isParam := s.Val.(*ssa.Parameter); isParam {
							fromParam = true
						}
					}
				}
			}
		}
		tn := typeShort(c, it)
		if j := strings.LastIndex(tn, "."); j >= 0 {
			tn = tn[j+1:]
		}
		key := "optional-int-zero|" + c.FuncKey(fn) + "·" + tn + "." + st.Field(i).Name()
		if fromParam {
			r.Bad(key, c.Pos(st.Field(i).Pos()), "a configured value of 0 is encoded (pointer, or presence flag)", "OPTIONAL int without default: encoding/asn1 omits 0, so it is indistinguishable from absent")
		} else {
			r.Ok(key, c.Pos(st.Field(i).Pos()), "zero is not a configurable value", "not fed from a parameter")
		}
	}
}

func ruleAsn1Pkcs8(c *Ctx, r *Rep) {
	// PrivateKeyInfo: the value marshalled by the function that calls x509.MarshalPKCS1PrivateKey
	n := 0
	// PrivateKeyInfo: the module struct (version, AlgorithmIdentifier, octets) handed to asn1.Marshal in the function that
	// wraps a PKCS#1 key - or, when that function was split, anywhere in its package
	isPKI := func(t types.Type) bool {
		st, _ := innerStruct(t)
		if st == nil || st.NumFields() < 3 {
			return false
		}
		return typeIs(st.Field(1).Type(), "crypto/x509/pkix", "AlgorithmIdentifier") && isByteSlice(st.Field(2).Type())
	}
	seenPKI := map[string]bool{}
	for fn := range c.funcsCalling("crypto/x509.MarshalPKCS1PrivateKey") {
		for _, f2 := range c.Funcs {
			if f2.Pkg != fn.Pkg {
				continue
			}
			for _, ci := range callsIn(f2) {
				if calleeFullName(ci) != "encoding/asn1.Marshal" {
					continue
				}
				t := marshalArgType(ci)
				if !isPKI(t) || seenPKI[typeShort(c, t)] {
					continue
				}
				seenPKI[typeShort(c, t)] = true
				n++
				compareShape(c, r, t, "PrivateKeyInfo", nil, map[string]bool{})
			}
		}
	}
	// ECPrivateKey: the value marshalled by the function that calls (*big.Int).FillBytes / elliptic.Marshal
	var ecType types.Type
	for fn := range c.funcsCalling("crypto/elliptic.Marshal") {
		for _, ci := range callsIn(fn) {
			if calleeFullName(ci) != "encoding/asn1.Marshal" {
				continue
			}
			t := marshalArgType(ci)
			if st, _ := innerStruct(t); st != nil {
				n++
				ecType = t
				compareShape(c, r, t, "ECPrivateKey", nil, map[string]bool{})
				// version written
				var ver int64 = -1
				for _, b := range fn.Blocks {
					for _, ins := range b.Instrs {
						if s, ok := ins.(*ssa.Store); ok {
							if fa, ok := s.Addr.(*ssa.FieldAddr); ok && fieldOfAddr(fa) == st.Field(0) {
								if k, ok := s.Val.(*ssa.Const); ok {
									ver = k.Int64()
								}
							}
						}
					}
				}
				r.Check(ver == 1, "ec-version-written", c.FnPos(fn), "ecPrivkeyVer1 (1), RFC 5915 3", sprintf("%d", ver))
			}
		}
	}
	if n < 2 {
		r.Undecided("floor:pkcs8-marshal-sites", "", sprintf("%d private-key marshal sites found, expected 2", n))
	}
	// reader: a function that unmarshals into the EC type compares its version with constant 1
	if ecType != nil {
		st, _ := innerStruct(ecType)
		found := false
		for _, fn := range c.Funcs {
			for _, b := range fn.Blocks {
				for _, ins := range b.Instrs {
					bin, ok := ins.(*ssa.BinOp)
					if !ok || (bin.Op != token.NEQ && bin.Op != token.EQL) {
						continue
					}
					if f := fieldLoad(bin.X); f == st.Field(0) {
						if k, ok := bin.Y.(*ssa.Const); ok {
							found = true
							r.Check(k.Int64() == 1, "ec-version-read|"+c.FuncKey(fn), c.Pos(bin.Pos()), "reader accepts version 1 only", sprintf("%d", k.Int64()))
						}
					}
				}
			}
		}
		if !found {
			r.Bad("ec-version-read", "", "the EC key reader checks the version field", "no comparison found")
		}
	}
}

// rawValueLiterals lists, for fn, the asn1.RawValue composite literals with constant Class/Tag/IsCompound.
type rawLit struct {
	class, tag int64
	compound   bool
	pos        token.Pos
}

// rawValueLiterals lists, for fn, the asn1.RawValue composite literals with constant Class/Tag/IsCompound: those written
// in fn, and those a helper called from fn builds from the constants fn hands it (wrapRaw(class, tag, content)). A
// literal whose class or tag is a parameter of fn itself is not listed for fn: it is listed for each caller.
func rawValueLiterals(fn *ssa.Function) []rawLit {
	return rawValueLiteralsBound(fn, nil, 0)
}

func rawValueLiteralsBound(fn *ssa.Function, args []ssa.Value, depth int) []rawLit {
	type acc struct {
		lit        rawLit
		parametric bool
	}
	byAlloc := map[ssa.Value]*acc{}
	var order []ssa.Value
	for _, b := range fn.Blocks {
		for _, ins := range b.Instrs {
			st, ok := ins.(*ssa.Store)
			if !ok {
				continue
			}
			fa, ok := st.Addr.(*ssa.FieldAddr)
			if !ok || !typeIs(fa.X.Type().Underlying().(*types.Pointer).Elem(), "encoding/asn1", "RawValue") {
				continue
			}
			l := byAlloc[fa.X]
			if l == nil {
				l = &acc{lit: rawLit{pos: st.Pos()}}
				byAlloc[fa.X] = l
				order = append(order, fa.X)
			}
			name := fieldOfAddr(fa).Name()
			val := st.Val
			if prm, isP := val.(*ssa.Parameter); isP && (name == "Class" || name == "Tag" || name == "IsCompound") {
				bound := false
				for i, fp := range fn.Params {
					if fp == prm && i < len(args) {
						val, bound = args[i], true
					}
				}
				if !bound {
					l.parametric = true
					continue
				}
			}
			k, isK := val.(*ssa.Const)
			if !isK || k.Value == nil {
				if name == "Class" || name == "Tag" || name == "IsCompound" {
					l.parametric = true
				}
				continue
			}
			switch name {
			case "Class":
				l.lit.class = k.Int64()
			case "Tag":
				l.lit.tag = k.Int64()
			case "IsCompound":
				l.lit.compound = constant.BoolVal(k.Value)
			}
		}
	}
	var out []rawLit
	for _, a := range order {
		if !byAlloc[a].parametric {
			out = append(out, *&byAlloc[a].lit)
		}
	}
	// literals built by a helper from what fn hands it
	if depth < 2 {
		for _, ci := range callsIn(fn) {
			h := ci.Common().StaticCallee()
			if h == nil || h.Blocks == nil || h == fn || h.Pkg != fn.Pkg || hasLoop(h) {
				continue
			}
			// only helpers whose literal depends on their parameters: the others are listed under their own name
			own := rawValueLiteralsBound(h, nil, depth+1)
			bound := rawValueLiteralsBound(h, ci.Common().Args, depth+1)
			if len(bound) > len(own) {
				for _, l := range bound[len(own):] {
					l.pos = ci.Pos()
					out = append(out, l)
				}
			}
		}
	}
	return out
}

func ruleAsn1Adm(c *Ctx, r *Rep) {
	admissions := c.NamedType("generator/cert", "Admissions")
	profInfo := c.NamedType("generator/cert", "ProfessionInfo")
	admission := c.NamedType("generator/cert", "Admission")
	if admissions == nil || profInfo == nil || admission == nil {
		// role-based fallback: struct types with a marshal method
		r.Undecided("anchor:admission-types", "", "Admission/Admissions/ProfessionInfo not found")
		return
	}
	partial := partialMarshaller(c)
	if partial == nil {
		r.Undecided("anchor:partial-marshaller", "", "no func(any, uint, uint) ([]byte, error) using reflection")
		return
	}
	// library-marshalled fields: those covered by partial ranges
	for _, tr := range []struct {
		t    *types.Named
		role string
	}{{admissions, "Admissions"}, {profInfo, "ProfessionInfo"}} {
		cov, hand, why := partialCoverage(c, tr.t, partial)
		if why != "" {
			r.Undecided("shape:"+tr.role+".marshal", "", why)
			continue
		}
		only := map[int]bool{}
		for i := range cov {
			only[i] = true
		}
		compareShape(c, r, tr.t, tr.role, only, map[string]bool{})
		_ = hand
	}
	// hand-assembled parts
	mfn := c.methodOf(admissions, "marshal")
	// wrapper helpers: module functions of one parameter that build exactly one RawValue around it
	isWrapper := func(f *ssa.Function) (rawLit, bool) {
		if f == nil || !c.InModule(f) || f == partial || len(f.Params) != 1 || f.Blocks == nil {
			return rawLit{}, false
		}
		if lits := rawValueLiterals(f); len(lits) == 1 {
			return lits[0], true
		}
		return rawLit{}, false
	}
	var explicitFn *ssa.Function
	explicitArgOK := false
	for _, ci := range callsIn(mfn) {
		f := ci.Common().StaticCallee()
		l, ok := isWrapper(f)
		if !ok || (l.class == 0 && l.tag == 16) { // a SEQUENCE wrapper is checked below
			continue
		}
		explicitFn = f
		r.Check(l.class == 2 && l.tag == 0 && l.compound, "explicit-wrapper|"+c.FuncKey(f), c.Pos(l.pos), "[0] EXPLICIT = context-specific, constructed, tag 0", sprintf("class %d tag %d constructed %v", l.class, l.tag, l.compound))
		// its argument is the marshalled AdmissionAuthority (field 0)
		for _, pe := range phiEdges(ci.Common().Args[0], ci.Block()) {
			if ex, ok := pe.Val.(*ssa.Extract); ok {
				if call, ok := ex.Tuple.(*ssa.Call); ok && call.Call.IsInvoke() && call.Call.Method.Name() == "marshal" {
					if f := fieldLoad(call.Call.Value); f != nil && f == admissions.Underlying().(*types.Struct).Field(0) {
						explicitArgOK = true
					}
				}
			}
		}
	}
	r.Check(explicitFn != nil && explicitArgOK, "admissions-authority-explicit", c.FnPos(mfn), "the per-admission authority is wrapped [0] EXPLICIT", sprintf("wrapper found %v, wraps field 0: %v", explicitFn != nil, explicitArgOK))
	// the outer AdmissionSyntax authority is untagged: its marshal method does not call the wrapper
	ofn := c.methodOf(admission, "marshal")
	callsWrapper := false
	for _, ci := range callsIn(ofn) {
		if explicitFn != nil && ci.Common().StaticCallee() == explicitFn {
			callsWrapper = true
		}
	}
	r.Check(!callsWrapper, "admission-authority-untagged", c.FnPos(ofn), "AdmissionSyntax.admissionAuthority is an untagged GeneralName", sprintf("explicit wrapper used: %v", callsWrapper))
	// all SEQUENCE wrappers are universal 16 constructed: in the three marshal methods and in the module helpers they call
	pfn := c.methodOf(profInfo, "marshal")
	var assemblers []*ssa.Function
	seenAsm := map[*ssa.Function]bool{}
	var addAsm func(f *ssa.Function, d int)
	addAsm = func(f *ssa.Function, d int) {
		if f == nil || seenAsm[f] || f == partial || f == explicitFn || !c.InModule(f) || f.Blocks == nil || d > 4 {
			return
		}
		seenAsm[f] = true
		assemblers = append(assemblers, f)
		for _, ci := range callsIn(f) {
			if !ci.Common().IsInvoke() {
				addAsm(ci.Common().StaticCallee(), d+1)
			}
		}
	}
	for _, f := range []*ssa.Function{mfn, ofn, pfn} {
		addAsm(f, 0)
	}
	nSeq := 0
	for _, f := range assemblers {
		for i, l := range rawValueLiterals(f) {
			nSeq++
			r.Check(l.class == 0 && l.tag == 16 && l.compound, sprintf("sequence-wrapper|%s#%d", c.FuncKey(f), i), c.Pos(l.pos), "universal SEQUENCE (16), constructed", sprintf("class %d tag %d constructed %v", l.class, l.tag, l.compound))
		}
	}
	if nSeq == 0 {
		r.Undecided("floor:sequence-wrappers", c.FnPos(mfn), "no SEQUENCE wrapper found in the admission marshal methods or their helpers")
	}
	// profession items as UTF8String
	itemsOK := false
	for _, f := range assemblers {
		if f != pfn {
			// a helper counts when the profession-info method hands it the items
			called := false
			for _, ci := range callsIn(pfn) {
				if ci.Common().StaticCallee() == f {
					for _, a := range ci.Common().Args {
						if fl := fieldLoad(a); fl != nil && fl.Name() == "ProfessionItems" {
							called = true
						}
					}
				}
			}
			if !called {
				continue
			}
		}
		for _, ci := range callsIn(f) {
			if calleeFullName(ci) == "encoding/asn1.MarshalWithParams" {
				if k, ok := ci.Common().Args[1].(*ssa.Const); ok && k.Value != nil {
					itemsOK = constant.StringVal(k.Value) == "utf8"
					r.Check(itemsOK, "profession-items-utf8", c.Pos(ci.Pos()), "profession items as UTF8String (DirectoryString)", constant.StringVal(k.Value))
				}
			}
		}
	}
	if !itemsOK {
		r.Bad("profession-items-utf8|site", c.FnPos(pfn), "MarshalWithParams(item, \"utf8\")", "not found")
	}
	// NamingAuthority shape (referenced through the nested role above, but make it explicit)
	if na := c.NamedType("generator/cert", "NamingAuthority"); na != nil {
		compareShape(c, r, na, "NamingAuthority", nil, map[string]bool{})
	}
}

// partialMarshaller: the module func(any, uint, uint) ([]byte, error).
func partialMarshaller(c *Ctx) *ssa.Function {
	for _, fn := range c.Funcs {
		if fn.Parent() != nil || len(fn.Params) != 3 {
			continue
		}
		if _, ok := fn.Params[0].Type().Underlying().(*types.Interface); !ok {
			continue
		}
		b1, ok1 := fn.Params[1].Type().Underlying().(*types.Basic)
		b2, ok2 := fn.Params[2].Type().Underlying().(*types.Basic)
		if ok1 && ok2 && b1.Info()&types.IsInteger != 0 && b2.Info()&types.IsInteger != 0 {
			for _, ci := range callsIn(fn) {
				if calleeFullName(ci) == "encoding/asn1.MarshalWithParams" {
					return fn
				}
			}
		}
	}
	return nil
}

// partialCoverage: for struct type t's marshal method, the field indexes covered by partial
// ranges (value = source position of the call) and those marshalled by hand (first access position).
func partialCoverage(c *Ctx, t *types.Named, partial *ssa.Function) (cov map[int]token.Pos, hand map[int]token.Pos, why string) {
	fn := c.methodOf(t, "marshal")
	if fn == nil || fn.Blocks == nil {
		return nil, nil, "no marshal method"
	}
	st := t.Underlying().(*types.Struct)
	cov, hand = map[int]token.Pos{}, map[int]token.Pos{}
	for _, ci := range callsIn(fn) {
		if ci.Common().StaticCallee() != partial {
			continue
		}
		a := ci.Common().Args
		k1, ok1 := a[1].(*ssa.Const)
		k2, ok2 := a[2].(*ssa.Const)
		if !ok1 || !ok2 {
			return nil, nil, "non-constant range at " + c.Pos(ci.Pos())
		}
		if mi, ok := a[0].(*ssa.MakeInterface); !ok || !types.Identical(mi.X.Type(), t) {
			return nil, nil, "partial marshaller applied to something other than the receiver at " + c.Pos(ci.Pos())
		}
		for i := k1.Int64(); i < k1.Int64()+k2.Int64(); i++ {
			if i < 0 || int(i) >= st.NumFields() {
				return nil, nil, sprintf("range (%d,%d) exceeds the %d fields at %s", k1.Int64(), k2.Int64(), st.NumFields(), c.Pos(ci.Pos()))
			}
			if _, dup := cov[int(i)]; dup {
				return nil, nil, sprintf("field %d covered twice at %s", i, c.Pos(ci.Pos()))
			}
			cov[int(i)] = ci.Pos()
		}
	}
	// hand: field accesses on the receiver
	for _, b := range fn.Blocks {
		for _, ins := range b.Instrs {
			var idx = -1
			var pos token.Pos
			switch x := ins.(type) {
			case *ssa.FieldAddr:
				if al, ok := x.X.(*ssa.Alloc); ok && types.Identical(al.Type().Underlying().(*types.Pointer).Elem(), t) {
					idx, pos = x.Field, x.Pos()
				}
			case *ssa.Field:
				if types.Identical(x.X.Type(), t) {
					idx, pos = x.Field, x.Pos()
				}
			}
			if idx >= 0 {
				if p, ok := hand[idx]; !ok || pos < p {
					hand[idx] = pos
				}
			}
		}
	}
	return cov, hand, ""
}

func rulePartialCover(c *Ctx, r *Rep) {
	partial := partialMarshaller(c)
	if partial == nil {
		r.Undecided("anchor:partial-marshaller", "", "no func(any, uint, uint) ([]byte, error) using MarshalWithParams")
		return
	}
	partialLoop(c, r, partial)
	// every struct type whose marshal method calls the partial marshaller
	n := 0
	for _, p := range c.Pkgs {
		sc := p.Types.Scope()
		for _, name := range sc.Names() {
			tn, ok := sc.Lookup(name).(*types.TypeName)
			if !ok {
				continue
			}
			nt, ok := tn.Type().(*types.Named)
			if !ok {
				continue
			}
			st, ok := nt.Underlying().(*types.Struct)
			if !ok {
				continue
			}
			fn := c.methodOf(nt, "marshal")
			if fn == nil || fn.Blocks == nil {
				continue
			}
			uses := false
			for _, ci := range callsIn(fn) {
				if ci.Common().StaticCallee() == partial {
					uses = true
				}
			}
			if !uses {
				continue
			}
			n++
			key := name
			cov, hand, why := partialCoverage(c, nt, partial)
			if why != "" {
				r.Bad("cover|"+key, c.FnPos(fn), "well-formed constant ranges", why)
				continue
			}
			// each field exactly once
			var problems []string
			type ev struct {
				idx int
				pos token.Pos
			}
			var order []ev
			for i := 0; i < st.NumFields(); i++ {
				_, inCov := cov[i]
				_, inHand := hand[i]
				switch {
				case inCov && inHand:
					problems = append(problems, sprintf("field %d (%s) is marshalled by hand and by a partial range", i, st.Field(i).Name()))
					order = append(order, ev{i, cov[i]})
				case inCov:
					order = append(order, ev{i, cov[i]})
				case inHand:
					order = append(order, ev{i, hand[i]})
				default:
					problems = append(problems, sprintf("field %d (%s) is never marshalled", i, st.Field(i).Name()))
				}
			}
			sort.Slice(order, func(i, j int) bool { return order[i].pos < order[j].pos })
			for i := 1; i < len(order); i++ {
				if order[i].idx < order[i-1].idx {
					problems = append(problems, sprintf("field %d is written after field %d", order[i].idx, order[i-1].idx))
				}
			}
			r.Check(len(problems) == 0, "cover|"+key, c.FnPos(fn), sprintf("all %d fields exactly once, in declaration order", st.NumFields()), strings.Join(problems, "; "))
		}
	}
	if n < 2 {
		r.Undecided("floor:partial-users", "", sprintf("%d marshal methods use the partial marshaller, expected 2", n))
	}
	// the partial marshaller itself: iterates offset..offset+len over reflect fields and uses the field's own asn1 tag
	usesTag := false
	for _, ci := range callsIn(partial) {
		if calleeFullName(ci) == "(reflect.StructTag).Get" || calleeFullName(ci) == "(reflect.StructTag).Lookup" {
			if k, ok := ci.Common().Args[1].(*ssa.Const); ok && k.Value != nil && constant.StringVal(k.Value) == "asn1" {
				usesTag = true
			}
		}
	}
	r.Check(usesTag, "partial-uses-asn1-tag", c.FnPos(partial), "fields are marshalled with their own asn1 tag", sprintf("%v", usesTag))
}

// partialLoop: the marshaller itself encodes the fields offset, offset+1, … offset+count-1: every reflect Field access
// is at offset + i, where i is the variable of a loop that starts at 0, goes up by one and runs while i < count.
func partialLoop(c *Ctx, r *Rep, partial *ssa.Function) {
	if len(partial.Params) != 3 {
		return
	}
	fk := c.FuncKey(partial)
	fromParam := func(v ssa.Value, p *ssa.Parameter) bool {
		for i := 0; i < 4; i++ {
			switch x := v.(type) {
			case *ssa.Convert:
				v = x.X
				continue
			case *ssa.ChangeType:
				v = x.X
				continue
			}
			break
		}
		return v == ssa.Value(p)
	}
	// linear forms over (offset, count): a*offset + b*count + k
	type lin struct{ a, b, k int64 }
	var linOf func(v ssa.Value, depth int) (lin, bool)
	linOf = func(v ssa.Value, depth int) (lin, bool) {
		if depth > 6 {
			return lin{}, false
		}
		switch {
		case fromParam(v, partial.Params[1]):
			return lin{1, 0, 0}, true
		case fromParam(v, partial.Params[2]):
			return lin{0, 1, 0}, true
		}
		switch x := v.(type) {
		case *ssa.Const:
			if x.Value != nil && x.Value.Kind() == constant.Int {
				return lin{0, 0, x.Int64()}, true
			}
		case *ssa.Convert:
			return linOf(x.X, depth+1)
		case *ssa.BinOp:
			l, ok1 := linOf(x.X, depth+1)
			rr, ok2 := linOf(x.Y, depth+1)
			if ok1 && ok2 {
				switch x.Op {
				case token.ADD:
					return lin{l.a + rr.a, l.b + rr.b, l.k + rr.k}, true
				case token.SUB:
					return lin{l.a - rr.a, l.b - rr.b, l.k - rr.k}, true
				}
			}
		}
		return lin{}, false
	}
	n := 0
	for _, ci := range callsIn(partial) {
		name := calleeFullName(ci)
		var idx ssa.Value
		switch {
		case name == "(reflect.Value).Field" && len(ci.Common().Args) == 2:
			idx = ci.Common().Args[1]
		case ci.Common().IsInvoke() && ci.Common().Method.Name() == "Field" && len(ci.Common().Args) == 1:
			idx = ci.Common().Args[0]
		default:
			continue
		}
		n++
		// idx = phi + A (A possibly absent); phi starts at S, goes up by one, runs while phi < B:
		// the fields read are S+A … B+A-1, which must be offset … offset+count-1
		var phi *ssa.Phi
		add := lin{}
		okShape := false
		switch x := idx.(type) {
		case *ssa.Phi:
			phi, okShape = x, true
		case *ssa.BinOp:
			if x.Op == token.ADD {
				if p, isP := x.Y.(*ssa.Phi); isP {
					if l, ok := linOf(x.X, 0); ok {
						phi, add, okShape = p, l, true
					}
				} else if p, isP := x.X.(*ssa.Phi); isP {
					if l, ok := linOf(x.Y, 0); ok {
						phi, add, okShape = p, l, true
					}
				}
			}
		}
		okIdx, how := false, "index is not (a linear expression of offset and count) + loop variable"
		if okShape {
			var start, bound lin
			haveStart, step, haveBound := false, false, false
			for _, e := range phi.Edges {
				if b, isB := e.(*ssa.BinOp); isB && b.Op == token.ADD && b.X == ssa.Value(phi) {
					if k, isK := b.Y.(*ssa.Const); isK && k.Value != nil && k.Int64() == 1 {
						step = true
					}
					continue
				}
				if l, ok := linOf(e, 0); ok {
					start, haveStart = l, true
				}
			}
			if iff, ok := lastInstr(phi.Block()).(*ssa.If); ok {
				if cmp, ok := iff.Cond.(*ssa.BinOp); ok && cmp.Op == token.LSS && cmp.X == ssa.Value(phi) {
					if l, ok := linOf(cmp.Y, 0); ok {
						bound, haveBound = l, true
					}
				}
			}
			first := lin{start.a + add.a, start.b + add.b, start.k + add.k}
			end := lin{bound.a + add.a, bound.b + add.b, bound.k + add.k}
			okIdx = haveStart && step && haveBound && first == lin{1, 0, 0} && end == lin{1, 1, 0}
			how = sprintf("fields %d*offset+%d*count+%d up to (excluding) %d*offset+%d*count+%d, step one: %v", first.a, first.b, first.k, end.a, end.b, end.k, step)
		}
		r.Check(okIdx, sprintf("marshaller-loop|%s#%d", fk, n), c.Pos(ci.Pos()), "the fields read are offset … offset+count-1, one per round", how)
	}
	if n == 0 {
		r.Undecided("shape:marshaller-loop|"+fk, c.FnPos(partial), "no reflect Field access found in the partial marshaller")
	}
}
