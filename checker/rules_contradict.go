package main

import (
	"go/token"
	"sort"
	"strings"

	"golang.org/x/tools/go/ssa"
)

// LINT-CONTRADICT (Engler's contradiction rule for comparisons): a block that can only be entered when two
// comparisons of the same two things hold that cannot hold together - `a == b` on the way in and `a != b` at the
// door, written out or hidden in a boolean variable (`known := ok && a == b; if known && a != b`). Such a block is
// dead: a rejection, a repair or a reason that sits in it never happens. Operands are compared as values (the same
// register, parameter, constant) or as the same access path read twice with nothing in between that could have
// written it (no store to a like-named field, no call other than formatting/logging/read-only library calls).

func init() {
	register(&Rule{Name: "LINT-CONTRADICT", Floor: 1, Run: ruleContradict, Fixture: "fixture.neverRejects",
		Doc: "no block is reachable only under two comparisons of the same operands that exclude each other (equal and not equal, less and not less), whether the tests are written out or one of them is hidden in a boolean variable: what such a block does - rejecting a second file with the same alias, say - can never happen (a test merely repeated, whose second copy cannot succeed, is redundant and not reported)"})
}

type cmpAtom struct {
	written token.Token // the comparison as written (operands ordered), before the branch taken was applied
	holds   bool        // the comparison as written is true on the way in (false: the way in is its else side)
	op     token.Token
	kx, ky string
	loads  []ssa.Instruction // the memory reads behind the operands
	at     ssa.Instruction
}

func ruleContradict(c *Ctx, r *Rep) {
	var fns []*ssa.Function
	fns = append(fns, c.Funcs...)
	sort.Slice(fns, func(i, j int) bool { return c.FuncKey(fns[i]) < c.FuncKey(fns[j]) })
	total := 0
	for _, fn := range fns {
		reported := map[string]bool{}
		n := 0
		for _, b := range fn.Blocks {
			gs := guardsOf(b)
			if len(gs) < 2 {
				continue
			}
			var atoms []cmpAtom
			for _, g := range gs {
				if a, ok := cmpAtomOf(g.Cond, g.Truth); ok {
					atoms = append(atoms, a)
				}
			}
			total += len(atoms)
			for i := 0; i < len(atoms); i++ {
				for j := i + 1; j < len(atoms); j++ {
					a, b2 := atoms[i], atoms[j]
					if a.kx != b2.kx || a.ky != b2.ky || !excludes(a.op, b2.op) {
						continue
					}
					if a.at == b2.at {
						continue
					}
					// the same test written twice (`if err != nil { return }` ... `if err != nil {`): the second is
					// redundant, not contradictory - nothing that was meant to happen is lost
					if a.written == b2.written {
						continue
					}
					// likewise the else side of a test that cannot fail any more (`if err != nil { return }; if err == nil
					// { ... } else { never }`): a fallback, not a loss. Reported is the block that needs two written
					// comparisons to be true that exclude each other.
					if !a.holds || !b2.holds {
						continue
					}
					if writtenBetween(fn, a, b2) {
						continue
					}
					id := a.kx + a.op.String() + a.ky + "/" + b2.op.String()
					if reported[id] {
						continue
					}
					reported[id] = true
					n++
					r.Bad(sprintf("reachable-block|%s#%d", c.FuncKey(fn), n), firstPos(b), "no block behind two comparisons that exclude each other",
						sprintf("%s %s %s (at %s) and %s %s %s (at %s)", short(a.kx), a.op, short(a.ky), c.Pos(a.at.Pos()), short(b2.kx), b2.op, short(b2.ky), c.Pos(b2.at.Pos())))
				}
			}
		}
	}
	r.Ok("comparisons-looked-at", "", "every block's dominating comparisons were compared pairwise", sprintf("%d comparison facts", total))
}

func short(k string) string {
	if i := strings.LastIndex(k, "@"); i >= 0 {
		return k[:i]
	}
	return k
}

func excludes(a, b token.Token) bool {
	pair := func(x, y token.Token) bool { return (a == x && b == y) || (a == y && b == x) }
	return pair(token.EQL, token.NEQ) || pair(token.LSS, token.GEQ) || pair(token.GTR, token.LEQ) ||
		pair(token.EQL, token.LSS) || pair(token.EQL, token.GTR) || pair(token.LSS, token.GTR)
}

// cmpAtomOf: cond known to be `truth`, as a comparison in normal form (operands ordered by key).
func cmpAtomOf(cond ssa.Value, truth bool) (cmpAtom, bool) {
	for {
		u, ok := cond.(*ssa.UnOp)
		if !ok || u.Op != token.NOT {
			break
		}
		cond, truth = u.X, !truth
	}
	bin, ok := cond.(*ssa.BinOp)
	if !ok {
		return cmpAtom{}, false
	}
	op := bin.Op
	written := bin.Op
	switch op {
	case token.EQL, token.NEQ, token.LSS, token.LEQ, token.GTR, token.GEQ:
	default:
		return cmpAtom{}, false
	}
	if !truth {
		op = negateCmp(op)
	}
	var loads []ssa.Instruction
	kx := operandKey(bin.X, &loads)
	ky := operandKey(bin.Y, &loads)
	if kx == "" || ky == "" {
		return cmpAtom{}, false
	}
	if kx > ky {
		kx, ky = ky, kx
		op = flipCmp(op)
		written = flipCmp(written)
	}
	return cmpAtom{written: written, holds: truth, op: op, kx: kx, ky: ky, loads: loads, at: bin}, true
}

// operandKey names a comparison operand so that two readings of the same thing get the same name.
func operandKey(v ssa.Value, loads *[]ssa.Instruction) string {
	switch x := v.(type) {
	case *ssa.Const:
		if x.Value == nil {
			return "K:nil:" + x.Type().String()
		}
		return "K:" + x.Value.ExactString()
	case *ssa.Parameter:
		return "param:" + x.Name()
	case *ssa.UnOp:
		if x.Op == token.MUL {
			if k := pathKey(x.X); k != "" {
				*loads = append(*loads, x)
				return "*" + k
			}
		}
	case *ssa.Call:
		if b, ok := x.Call.Value.(*ssa.Builtin); ok && b.Name() == "len" && len(x.Call.Args) == 1 {
			if k := operandKey(x.Call.Args[0], loads); k != "" {
				return "len(" + k + ")"
			}
		}
	case *ssa.Convert:
		return operandKey(x.X, loads)
	case *ssa.ChangeType:
		return operandKey(x.X, loads)
	}
	// any other value: itself (a register is assigned once)
	if ins, ok := v.(ssa.Instruction); ok {
		if _, isPhi := v.(*ssa.Phi); isPhi {
			// a phi at a loop head changes from round to round, but two tests of it on one way to a block see one value
			return sprintf("v:%s@%p", v.Name(), v)
		}
		_ = ins
		return sprintf("v:%s@%p", v.Name(), v)
	}
	return ""
}

// writtenBetween: could the memory behind the operands have changed between the two tests?
func writtenBetween(fn *ssa.Function, a, b cmpAtom) bool {
	if len(a.loads) == 0 && len(b.loads) == 0 {
		return false
	}
	fields := map[string]bool{}
	for _, l := range append(append([]ssa.Instruction{}, a.loads...), b.loads...) {
		k := pathKey(l.(*ssa.UnOp).X)
		if i := strings.LastIndex(k, "."); i >= 0 {
			fields[k[i+1:]] = true
		} else {
			fields[k] = true
		}
	}
	first, second := a.at, b.at
	if canReachInstr(second, first) && !canReachInstr(first, second) {
		first, second = second, first
	}
	for _, blk := range fn.Blocks {
		for _, ins := range blk.Instrs {
			risky := false
			switch x := ins.(type) {
			case *ssa.Store:
				k := pathKey(x.Addr)
				name := k
				if i := strings.LastIndex(k, "."); i >= 0 {
					name = k[i+1:]
				}
				risky = k == "" || fields[name]
			case ssa.CallInstruction:
				if _, isB := x.Common().Value.(*ssa.Builtin); isB {
					continue
				}
				name := calleeFullName(x)
				if readOnlyLib(name) || strings.HasPrefix(name, "fmt.") || strings.Contains(name, "/logging.") || strings.HasPrefix(name, "log.") ||
					strings.HasPrefix(name, "strings.") || strings.HasPrefix(name, "bytes.") || strings.HasPrefix(name, "errors.") {
					continue
				}
				risky = true
			case *ssa.MapUpdate:
				risky = true
			}
			if risky && canReachInstr(first, ins) && canReachInstr(ins, second) {
				return true
			}
		}
	}
	return false
}

// pathKey names an address: field steps and loads spelled out, everything else by the identity of the register (a
// register is assigned once; two variables of the same name are two allocations).
func pathKey(v ssa.Value) string {
	switch x := v.(type) {
	case *ssa.FieldAddr:
		return pathKey(x.X) + "." + fieldOfAddr(x).Name()
	case *ssa.UnOp:
		if x.Op == token.MUL {
			return "*" + pathKey(x.X)
		}
	case *ssa.Parameter:
		return "param:" + x.Name()
	case *ssa.Global:
		return "global:" + x.Name()
	}
	return sprintf("v:%s@%p", v.Name(), v)
}
