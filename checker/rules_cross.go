package main

import (
	"go/constant"
	"go/token"
	"go/types"
	"sort"
	"strings"

	"golang.org/x/tools/go/ssa"
)

// Cross-wiring lints found with the type-aware mutation operators (field-swap, var-swap): changes that keep every type
// right and move a value, an index or a presence test to a like-typed neighbour. The repository's tests let all of them
// pass (one policy with one qualifier, one general name of each kind).

func init() {
	register(&Rule{Name: "LINT-IDXCROSS", Floor: 1, Run: ruleIdxCross, Fixture: "fixture.crossIndexed",
		Doc: "in nested loops an index is used on the list it counts: the index of the loop over one collection is not applied to a list that was made with the length of another collection being looped over at that place (policies[j].qualifiers[i] for policies[i].qualifiers[j]); an array is indexed by a constant below its length, by the index of a loop over a collection whose length was tested against the array's, or behind a comparison with its length - not by a value that merely was parsed from the input"})
	register(&Rule{Name: "LINT-GUARDFIELD", Floor: 1, Run: ruleGuardField, Fixture: "fixture.testsOneUsesOther",
		Doc: "a block entered because one field of a configuration struct was found non-empty uses that field: it does not parse or copy a like-typed sibling field of the same struct while never looking at the field that was tested (`if len(n.Url) > 0 { oid = parse(n.Oid) }`); likewise for optional values kept as pointers: behind `m.A != nil` no like-typed sibling `*m.B` is dereferenced while m.A is never read (the manipulation that was given is ignored, the one that was not is a nil dereference)"})
}

// ---- loops and the collections they count -------------------------------------------------------------------

type idxLoop struct {
	head *ssa.BasicBlock
	body map[*ssa.BasicBlock]bool
	idx  ssa.Value // the value the body uses as index
	coll ssa.Value // the collection whose length bounds it
}

func collKey(v ssa.Value) string {
	switch x := v.(type) {
	case *ssa.UnOp:
		if x.Op == token.MUL {
			return "*" + addrKeyOf(x.X)
		}
	case *ssa.Field:
		st, _ := x.X.Type().Underlying().(*types.Struct)
		if st != nil {
			return collKey(x.X) + "." + st.Field(x.Field).Name()
		}
	case *ssa.ChangeType:
		return collKey(x.X)
	case *ssa.Convert:
		return collKey(x.X)
	case *ssa.Slice:
		if x.Low == nil && x.High == nil {
			return collKey(x.X)
		}
	case *ssa.Parameter:
		return "param:" + x.Name()
	}
	return sprintf("v:%s@%p", v.Name(), v)
}

func addrKeyOf(v ssa.Value) string {
	switch x := v.(type) {
	case *ssa.FieldAddr:
		return addrKeyOf(x.X) + "." + fieldOfAddr(x).Name()
	case *ssa.IndexAddr:
		return collKey(x.X) + "[" + collKey(x.Index) + "]"
	}
	return sprintf("a:%s@%p", v.Name(), v)
}

func idxLoopsOf(fn *ssa.Function) []idxLoop {
	var out []idxLoop
	loops := naturalLoops(fn)
	var heads []*ssa.BasicBlock
	for h := range loops {
		heads = append(heads, h)
	}
	sort.Slice(heads, func(i, j int) bool { return heads[i].Index < heads[j].Index })
	for _, h := range heads {
		iff, ok := lastInstr(h).(*ssa.If)
		if !ok {
			continue
		}
		cmp, ok := iff.Cond.(*ssa.BinOp)
		if !ok || cmp.Op != token.LSS {
			continue
		}
		coll, ok := lenOperand(cmp.Y)
		if !ok {
			continue
		}
		// the index: the compared value itself (a phi counted up by one, or phi+1 of a range loop)
		out = append(out, idxLoop{head: h, body: loops[h], idx: cmp.X, coll: coll})
	}
	return out
}

// sizingOf: the collection whose length the list x was made with (nil: not known).
func sizingOf(fn *ssa.Function, x ssa.Value) ssa.Value {
	mkLen := func(mk *ssa.MakeSlice) ssa.Value {
		if of, k, ok := lenPlus(mk.Len); ok && k == 0 {
			return of
		}
		if k, isK := mk.Len.(*ssa.Const); isK && k.Value != nil && k.Int64() == 0 {
			if of, kk, ok := lenPlus(mk.Cap); ok && kk == 0 {
				return of
			}
		}
		return nil
	}
	switch y := x.(type) {
	case *ssa.MakeSlice:
		return mkLen(y)
	case *ssa.UnOp:
		if y.Op != token.MUL {
			return nil
		}
		// a list kept in a field or a local: what was stored there
		key := addrKeyOf(y.X)
		var found ssa.Value
		n := 0
		for _, b := range fn.Blocks {
			for _, ins := range b.Instrs {
				st, ok := ins.(*ssa.Store)
				if !ok || addrKeyOf(st.Addr) != key {
					continue
				}
				n++
				if mk, ok := st.Val.(*ssa.MakeSlice); ok {
					found = mkLen(mk)
				} else {
					found = nil
				}
			}
		}
		if n == 1 {
			return found
		}
	}
	return nil
}

func ruleIdxCross(c *Ctx, r *Rep) {
	looked := 0
	for _, fn := range c.Funcs {
		ls := idxLoopsOf(fn)
		n := 0
		byIdx := map[ssa.Value]*idxLoop{}
		for i := range ls {
			byIdx[ls[i].idx] = &ls[i]
		}
		for _, b := range fn.Blocks {
			for _, ins := range b.Instrs {
				ia, ok := ins.(*ssa.IndexAddr)
				if !ok {
					continue
				}
				// --- arrays
				if pt, isPtr := ia.X.Type().Underlying().(*types.Pointer); isPtr {
					if at, isArr := pt.Elem().Underlying().(*types.Array); isArr {
						looked++
						n++
						key := sprintf("array-index|%s#%d", c.FuncKey(fn), n)
						if k, isK := ia.Index.(*ssa.Const); isK && k.Value != nil {
							continue // LINT-CONSTIDX
						}
						why := ""
						if l := byIdx[ia.Index]; l != nil && l.body[b] {
							// the loop counts a collection whose length was tested against the array's on the way
							if bound, ok := lenBoundFromGuards(l.coll, l.head); ok && bound <= at.Len() {
								why = sprintf("index of a loop over a list of tested length %d", bound)
							}
							if lk := collKey(l.coll); lk == "*"+addrKeyOf(ia.X) || lk == collKey(ia.X) {
								why = "index of a loop over the array itself"
							}
							if _, isArrColl := l.coll.Type().Underlying().(*types.Array); isArrColl {
								why = "index of a loop over an array"
							}
							if pt2, ok := l.coll.Type().Underlying().(*types.Pointer); ok {
								if a2, ok := pt2.Elem().Underlying().(*types.Array); ok && a2.Len() <= at.Len() {
									why = "index of a loop over an array of that length"
								}
							}
						}
						if why == "" {
							for _, g := range guardsOf(b) {
								if bin, ok := g.Cond.(*ssa.BinOp); ok {
									op := bin.Op
									if !g.Truth {
										op = negateCmp(op)
									}
									if bin.X == ia.Index && (op == token.LSS || op == token.LEQ) {
										if k, isK := bin.Y.(*ssa.Const); isK && k.Value != nil && (op == token.LSS && k.Int64() <= at.Len() || op == token.LEQ && k.Int64() < at.Len()) {
											why = "behind a comparison with the length"
										}
										if _, isLen := lenOperand(bin.Y); isLen {
											why = "behind a comparison with a length"
										}
									}
								}
							}
						}
						if why == "" {
							// an index computed by masking or by a remainder stays inside: x & (n-1), x % n
							if bo, ok := ia.Index.(*ssa.BinOp); ok && (bo.Op == token.AND || bo.Op == token.REM) {
								why = "masked or reduced"
							}
							if cv, ok := ia.Index.(*ssa.Convert); ok {
								if bt, ok := cv.X.Type().Underlying().(*types.Basic); ok && bt.Kind() == types.Uint8 && at.Len() >= 256 {
									why = "an octet into a table of 256"
								}
							}
						}
						r.Check(why != "", key, c.Pos(ia.Pos()), sprintf("an index known to lie below the array's length %d", at.Len()), orStr(why, "an index that no test on the way bounds: "+ia.Index.Name()))
						continue
					}
				}
				// --- lists in loop nests
				l := byIdx[ia.Index]
				if l == nil || !l.body[b] {
					continue
				}
				size := sizingOf(fn, ia.X)
				if size == nil {
					continue
				}
				looked++
				sk, lk := collKey(size), collKey(l.coll)
				if sk == lk || sameLoad(size, l.coll) || sameFieldLoad(size, l.coll) {
					continue
				}
				// made with the length of another collection that is being looped over right here?
				for i := range ls {
					o := &ls[i]
					if o == l || !o.body[b] {
						continue
					}
					ok2 := collKey(o.coll)
					if ok2 == sk || sameLoad(size, o.coll) || sameFieldLoad(size, o.coll) {
						n++
						r.Bad(sprintf("index-belongs-to-list|%s#%d", c.FuncKey(fn), n), c.Pos(ia.Pos()),
							"a list made with the length of one collection is indexed by the loop over that collection",
							"the list has one place per element of "+short(sk)+", the index counts "+short(lk))
					}
				}
			}
		}
	}
	r.Ok("indexes-looked-at", "", "array and nested-loop indexes compared with what they count", sprintf("%d", looked))
}

func orStr(a, b string) string {
	if a != "" {
		return a
	}
	return b
}

// ---- LINT-GUARDFIELD ------------------------------------------------------------------------------------------

func ruleGuardField(c *Ctx, r *Rep) {
	looked := 0
	for _, fn := range c.Funcs {
		n := 0
		for _, b := range fn.Blocks {
			iff, ok := lastInstr(b).(*ssa.If)
			if !ok {
				continue
			}
			x, empty, ok := emptyTestOf(iff.Cond, true)
			isPtr := false
			if !ok {
				// the same for optional values kept as pointers: `if m.A != nil { use(*m.B) }` dereferences a pointer
				// nobody tested and ignores the one that was
				var isNil bool
				x, isNil, ok = nilTestOf(iff.Cond, true)
				if !ok {
					continue
				}
				if _, p := x.Type().Underlying().(*types.Pointer); !p {
					continue
				}
				empty, isPtr = isNil, true
			}
			base, fld, st := fieldRead(x)
			if fld == nil {
				continue
			}
			// only structs of the configuration layer (json-tagged, or a struct of optional pointers of the module):
			// that is where like-typed siblings sit side by side
			if !hasJSONTags(st) && !isPtr {
				continue
			}
			// the region entered when the field is NOT empty
			succ := 1
			if !empty {
				succ = 0
			}
			entry := b.Succs[succ]
			if len(entry.Preds) != 1 {
				continue
			}
			region := map[*ssa.BasicBlock]bool{}
			for _, bb := range fn.Blocks {
				if entry.Dominates(bb) {
					region[bb] = true
				}
			}
			looked++
			usesTested := false
			var siblings []string
			for bb := range region {
				for _, ins := range bb.Instrs {
					v, isV := ins.(ssa.Value)
					if !isV {
						continue
					}
					b2, f2, _ := fieldRead(v)
					if f2 == nil || b2 != base {
						continue
					}
					if f2 == fld {
						usesTested = true
					} else if types.Identical(f2.Type(), fld.Type()) && valueUsed(v) {
						if isPtr {
							// only a dereference of the sibling counts (handing the pointer on leaves the test to the receiver)
							deref := false
							if v.Referrers() != nil {
								for _, u := range *v.Referrers() {
									if ld, isLd := u.(*ssa.UnOp); isLd && ld.Op == token.MUL && ld.X == v {
										deref = true
									}
								}
							}
							if !deref {
								continue
							}
						}
						siblings = append(siblings, f2.Name())
					}
				}
			}
			if usesTested || len(siblings) == 0 {
				continue
			}
			sort.Strings(siblings)
			n++
			r.Bad(sprintf("tested-field-used|%s#%d", c.FuncKey(fn), n), c.Pos(iff.Cond.Pos()), "the block behind a presence test of ."+fld.Name()+" uses ."+fld.Name(),
				"it never reads ."+fld.Name()+" but reads the like-typed ."+strings.Join(uniq(siblings), ", ."))
		}
	}
	r.Ok("presence-tests-looked-at", "", "blocks behind a presence test of a configuration field", sprintf("%d", looked))
}

// valueUsed: the value is used as data - handed on, parsed, stored - and not merely measured or compared with the empty
// value (a second presence test in the same condition is not a use).
func valueUsed(v ssa.Value) bool {
	if v.Referrers() == nil {
		return false
	}
	for _, u := range *v.Referrers() {
		switch y := u.(type) {
		case *ssa.Call:
			if b, ok := y.Call.Value.(*ssa.Builtin); ok && b.Name() == "len" {
				continue
			}
			// a one-expression predicate of the module that asks whether its argument is empty (isSet(x)): measuring too
			if x, _, ok := emptyTestOf(y, true); ok && x == v {
				continue
			}
		case *ssa.BinOp:
			if y.Op == token.EQL || y.Op == token.NEQ {
				if _, isK := y.Y.(*ssa.Const); isK {
					continue
				}
				if _, isK := y.X.(*ssa.Const); isK {
					continue
				}
			}
		case *ssa.DebugRef:
			continue
		}
		return true
	}
	return false
}

// fieldRead: v is the value of field F of a struct reached from base (a load through a field address, or a Field of a
// struct value): base identity, the field, the struct type.
func fieldRead(v ssa.Value) (string, *types.Var, *types.Struct) {
	switch x := v.(type) {
	case *ssa.UnOp:
		if x.Op == token.MUL {
			if fa, ok := x.X.(*ssa.FieldAddr); ok {
				st, _ := fa.X.Type().Underlying().(*types.Pointer).Elem().Underlying().(*types.Struct)
				return addrKeyOf(fa.X), fieldOfAddr(fa), st
			}
		}
	case *ssa.Field:
		st, _ := x.X.Type().Underlying().(*types.Struct)
		if st != nil {
			return collKey(x.X), st.Field(x.Field), st
		}
	}
	return "", nil, nil
}

func hasJSONTags(st *types.Struct) bool {
	if st == nil {
		return false
	}
	for i := 0; i < st.NumFields(); i++ {
		if reflectTagGet(st.Tag(i), "json") != "" {
			return true
		}
	}
	return false
}

// ---- GN-TEXT ----------------------------------------------------------------------------------------------------

func init() {
	register(&Rule{Name: "GN-TEXT", Floor: 3, Run: ruleGnText,
		Doc: "where a configured general name {type, name} becomes a certificate-side name, the text converted (to a dNSName, rfc822Name or URI, or split into the octets of an iPAddress) is the field the schema calls `name`, and the field the kinds are told apart by is the one it calls `type` - never the other way round"})
}

func ruleGnText(c *Ctx, r *Rep) {
	jsonName := func(st *types.Struct, f *types.Var) string {
		for i := 0; i < st.NumFields(); i++ {
			if st.Field(i) == f {
				return strings.Split(reflectTagGet(st.Tag(i), "json"), ",")[0]
			}
		}
		return ""
	}
	isGnStruct := func(st *types.Struct) bool {
		if st == nil {
			return false
		}
		have := map[string]bool{}
		for i := 0; i < st.NumFields(); i++ {
			have[strings.Split(reflectTagGet(st.Tag(i), "json"), ",")[0]] = true
		}
		return have["type"] && have["name"]
	}
	gnIface := c.NamedType("generator/cert", "GeneralName")
	for _, fn := range c.Funcs {
		n := 0
		for _, b := range fn.Blocks {
			for _, ins := range b.Instrs {
				switch x := ins.(type) {
				case *ssa.ChangeType, *ssa.Convert:
					v := x.(ssa.Value)
					nt, ok := v.Type().(*types.Named)
					if !ok || !c.IsModObj(nt.Obj()) || gnIface == nil {
						continue
					}
					if it, ok := gnIface.Underlying().(*types.Interface); !ok || !types.Implements(nt, it) {
						continue
					}
					var src ssa.Value
					if ct, ok := x.(*ssa.ChangeType); ok {
						src = ct.X
					} else {
						src = x.(*ssa.Convert).X
					}
					_, f, st := fieldRead(src)
					if f == nil || !isGnStruct(st) {
						continue
					}
					n++
					jn := jsonName(st, f)
					r.Check(jn == "name", sprintf("name-text|%s#%d", c.FuncKey(fn), n), c.Pos(ins.Pos()), "the text of a "+nt.Obj().Name()+" is the configured `name`", "field ."+f.Name()+" (json `"+jn+"`)")
				case *ssa.Lookup:
					// the discriminator as the key of a table of kinds
					if _, isMap := x.X.Type().Underlying().(*types.Map); !isMap {
						continue
					}
					_, f, st := fieldRead(x.Index)
					if f == nil || !isGnStruct(st) {
						continue
					}
					n++
					jn := jsonName(st, f)
					r.Check(jn == "type", sprintf("kind-by-type|%s#%d", c.FuncKey(fn), n), c.Pos(ins.Pos()), "the kinds of general names are looked up by the configured `type`", "field ."+f.Name()+" (json `"+jn+"`) as the key of a table")
				case *ssa.Call:
					if x.Call.StaticCallee() == nil && !x.Call.IsInvoke() {
						// the constructor of the kind, taken from a table: the text it is given
						for _, a := range x.Call.Args {
							_, f, st := fieldRead(a)
							if f == nil || !isGnStruct(st) {
								continue
							}
							n++
							jn := jsonName(st, f)
							r.Check(jn == "name", sprintf("name-text|%s#%d", c.FuncKey(fn), n), c.Pos(ins.Pos()), "the text handed to the constructor of the kind is the configured `name`", "field ."+f.Name()+" (json `"+jn+"`)")
						}
						continue
					}
					if calleeFullName(x) != "strings.Split" || len(x.Call.Args) != 2 {
						continue
					}
					_, f, st := fieldRead(x.Call.Args[0])
					if f == nil || !isGnStruct(st) {
						continue
					}
					n++
					jn := jsonName(st, f)
					r.Check(jn == "name", sprintf("name-text|%s#%d", c.FuncKey(fn), n), c.Pos(ins.Pos()), "the octets of an address are split out of the configured `name`", "field ."+f.Name()+" (json `"+jn+"`)")
				case *ssa.BinOp:
					// the discriminator: a {type, name} field compared with a constant text
					if x.Op != token.EQL {
						continue
					}
					k, isK := x.Y.(*ssa.Const)
					if !isK || k.Value == nil {
						continue
					}
					_, f, st := fieldRead(x.X)
					if f == nil || !isGnStruct(st) {
						continue
					}
					n++
					jn := jsonName(st, f)
					r.Check(jn == "type", sprintf("kind-by-type|%s#%d", c.FuncKey(fn), n), c.Pos(ins.Pos()), "the kinds of general names are told apart by the configured `type`", "field ."+f.Name()+" (json `"+jn+"`) compared with "+k.Value.ExactString())
				}
			}
		}
	}
}

// ---- SUBJECT-ORDER ------------------------------------------------------------------------------------------------

func init() {
	register(&Rule{Name: "SUBJECT-ORDER", Floor: 1, Run: ruleSubjectOrder,
		Doc: "[shape] the subject parser writes the attribute of the i-th piece of the text to place len-1-i of the list it answers (the text lists the most specific attribute first, the certificate the least specific): where the list is made with one place per piece and filled by index, every store into it - the one for a text value and the one for a value given as hex - uses the index len(list)-i-1 with i the index of the loop over the pieces; a parser of another shape (append in a backward loop, a reversal afterwards) is not judged by this rule"})
}

func ruleSubjectOrder(c *Ctx, r *Rep) {
	fn := c.Func("generator/config", "ParseRDNSequence")
	if fn == nil {
		r.Undecided("anchor:ParseRDNSequence", "", "not found")
		return
	}
	// the function (the parser or a helper two levels below it) that fills a made list of RDNs by index inside a loop
	var cands []*ssa.Function
	seenF := map[*ssa.Function]bool{}
	var add func(f *ssa.Function, d int)
	add = func(f *ssa.Function, d int) {
		if f == nil || seenF[f] || !c.InModule(f) || f.Blocks == nil || d > 2 {
			return
		}
		seenF[f] = true
		cands = append(cands, f)
		for _, ci := range callsIn(f) {
			add(ci.Common().StaticCallee(), d+1)
		}
	}
	add(fn, 0)
	judged := 0
	for _, f := range cands {
		ls := idxLoopsOf(f)
		n := 0
		for _, b := range f.Blocks {
			for _, ins := range b.Instrs {
				st, ok := ins.(*ssa.Store)
				if !ok {
					continue
				}
				ia, ok := st.Addr.(*ssa.IndexAddr)
				if !ok {
					continue
				}
				mk, ok := ia.X.(*ssa.MakeSlice)
				if !ok || !strings.Contains(mk.Type().String(), "RelativeDistinguishedNameSET") && !strings.Contains(mk.Type().String(), "RDNSequence") {
					continue
				}
				// the loop this store sits in, over the pieces the list was sized by
				var loop *idxLoop
				for i := range ls {
					if ls[i].body[b] {
						if of, k, ok := lenPlus(mk.Len); ok && k == 0 && (collKey(of) == collKey(ls[i].coll) || sameLoad(of, ls[i].coll)) {
							loop = &ls[i]
						}
					}
				}
				if loop == nil {
					continue
				}
				n++
				judged++
				// index == len(list) - i - 1, however it is associated and whether or not a one-line helper computes it: the
				// expression is brought into the form a*len(list) + b*i + k
				type lin struct{ l, i, k int64 }
				var linOf func(v ssa.Value, bind map[*ssa.Parameter]*lin, d int) *lin
				linOf = func(v ssa.Value, bind map[*ssa.Parameter]*lin, d int) *lin {
					if d > 6 {
						return nil
					}
					if v == loop.idx {
						return &lin{0, 1, 0}
					}
					if x, ok := lenOperand(v); ok && x == ssa.Value(mk) {
						return &lin{1, 0, 0}
					}
					switch x := v.(type) {
					case *ssa.Const:
						if x.Value != nil && x.Value.Kind() == constant.Int {
							return &lin{0, 0, x.Int64()}
						}
					case *ssa.Parameter:
						return bind[x]
					case *ssa.BinOp:
						a, b := linOf(x.X, bind, d+1), linOf(x.Y, bind, d+1)
						if a == nil || b == nil {
							return nil
						}
						switch x.Op {
						case token.ADD:
							return &lin{a.l + b.l, a.i + b.i, a.k + b.k}
						case token.SUB:
							return &lin{a.l - b.l, a.i - b.i, a.k - b.k}
						}
					case *ssa.Call:
						g := x.Call.StaticCallee()
						if g == nil || !c.InModule(g) || len(g.Blocks) != 1 {
							return nil
						}
						ret, ok := lastInstr(g.Blocks[0]).(*ssa.Return)
						if !ok || len(ret.Results) != 1 {
							return nil
						}
						nb := map[*ssa.Parameter]*lin{}
						for j, prm := range g.Params {
							if j < len(x.Call.Args) {
								nb[prm] = linOf(x.Call.Args[j], bind, d+1)
							}
						}
						return linOf(ret.Results[0], nb, d+1)
					}
					return nil
				}
				okIdx := false
				if f := linOf(ia.Index, nil, 0); f != nil {
					okIdx = f.l == 1 && f.i == -1 && f.k == -1
				}
				r.Check(okIdx, sprintf("reversed-place|%s#%d", c.FuncKey(f), n), c.Pos(st.Pos()), "the place written is len(list) - i - 1 for the loop's own index i", "index "+ia.Index.String())
			}
		}
	}
	if judged == 0 {
		r.Ok("shape-not-judged", c.FnPos(fn), "a list made with one place per piece and filled by index", "the parser has another shape: this rule says nothing about it")
	}
}
