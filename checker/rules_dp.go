package main

import (
	"go/constant"
	"go/token"
	"go/types"
	"sort"
	"strings"

	"golang.org/x/tools/go/ssa"
)

func init() {
	register(&Rule{Name: "VALIDATE-DP", Floor: 3, Run: ruleValidateDP,
		Doc: "[shape] the subject validator's table is filled by the recurrence fits[i][j] = (subject attribute j equals profile attribute i and fits[i+1][j+1]) or (profile attribute i is optional and fits[i+1][j]), starts from fits[len][len] = true, and the verdict is fits[0][0]; with allowOther the verdict is that every non-optional attribute occurs in the subject"})
}

type dpRenderer struct {
	o, n  ssa.Value // outer / inner loop variables (indexes of the table store)
	table ssa.Value // the [][]bool
}

func (d *dpRenderer) idx(v ssa.Value) string {
	switch {
	case v == d.o:
		return "i"
	case v == d.n:
		return "j"
	}
	if bin, ok := v.(*ssa.BinOp); ok && (bin.Op == token.ADD || bin.Op == token.SUB) {
		if k, ok := bin.Y.(*ssa.Const); ok {
			op := "+"
			if bin.Op == token.SUB {
				op = "-"
			}
			return d.idx(bin.X) + op + k.Value.ExactString()
		}
	}
	if k, ok := v.(*ssa.Const); ok && k.Value != nil {
		return k.Value.ExactString()
	}
	if call, ok := v.(*ssa.Call); ok {
		if bi, isB := call.Call.Value.(*ssa.Builtin); isB && bi.Name() == "len" {
			return "len(" + d.slice(call.Call.Args[0]) + ")"
		}
	}
	return "?"
}

// slice names a slice by its element type (want/have are both []ObjectIdentifier: told apart by which index is used on them).
func (d *dpRenderer) slice(v ssa.Value) string {
	if v == d.table {
		return "fits"
	}
	return typeString(v.Type())
}

func typeString(t types.Type) string {
	s := types.TypeString(t, func(p *types.Package) string { return p.Name() })
	return s
}

func (d *dpRenderer) val(v ssa.Value) string {
	switch x := v.(type) {
	case *ssa.UnOp:
		if x.Op == token.MUL {
			switch a := x.X.(type) {
			case *ssa.IndexAddr:
				// fits[a][b] or slice[k]
				if inner, ok := a.X.(*ssa.UnOp); ok && inner.Op == token.MUL {
					if ia2, ok := inner.X.(*ssa.IndexAddr); ok && ia2.X == d.table {
						return "fits[" + d.idx(ia2.Index) + "][" + d.idx(a.Index) + "]"
					}
				}
				return d.slice(a.X) + "[" + d.idx(a.Index) + "]"
			case *ssa.FieldAddr:
				if ia, ok := a.X.(*ssa.IndexAddr); ok {
					return d.slice(ia.X) + "[" + d.idx(ia.Index) + "]." + fieldOfAddr(a).Name()
				}
			}
		}
		if x.Op == token.NOT {
			return "!" + d.val(x.X)
		}
	case *ssa.BinOp:
		return d.idx(x.X) + x.Op.String() + d.idx(x.Y)
	case *ssa.Call:
		name := shortName(calleeFullName(x))
		var as []string
		for _, a := range x.Call.Args {
			as = append(as, d.val(a))
		}
		return name + "(" + strings.Join(as, ",") + ")"
	}
	return "?" + v.String()
}

func ruleValidateDP(c *Ctx, r *Rep) {
	fn := c.Func("generator/config", "Validate")
	if fn == nil {
		r.Undecided("anchor:Validate", "", "not found")
		return
	}
	validate := fn
	// the table may be filled in a helper of the validator: take the first function among the validator and what it
	// calls (two levels) that stores into a [][]bool inside a loop
	{
		var cands []*ssa.Function
		seenF := map[*ssa.Function]bool{}
		var add func(f *ssa.Function, d int)
		add = func(f *ssa.Function, d int) {
			if f == nil || seenF[f] || !c.InModule(f) || f.Blocks == nil || d > 2 {
				return
			}
			seenF[f] = true
			cands = append(cands, f)
			for _, ci := range callsIn(f) {
				add(ci.Common().StaticCallee(), d+1)
			}
		}
		add(fn, 0)
		for _, f := range cands {
			if fillsBoolTable(f) {
				fn = f
				break
			}
		}
	}
	fk := c.FuncKey(fn)
	// stores of `true` into a [][]bool element inside a loop: fits[i][j] = true
	type trueStore struct {
		st   *ssa.Store
		o, n ssa.Value
		tab  ssa.Value
	}
	var inLoopStores, seedStores []trueStore
	for _, b := range fn.Blocks {
		for _, ins := range b.Instrs {
			st, ok := ins.(*ssa.Store)
			if !ok {
				continue
			}
			if b, isB := st.Val.Type().Underlying().(*types.Basic); !isB || b.Kind() != types.Bool {
				continue
			}
			if k, ok := st.Val.(*ssa.Const); ok && !constBool(k) {
				continue // storing false adds no way of becoming true
			}
			ia, ok := st.Addr.(*ssa.IndexAddr)
			if !ok {
				continue
			}
			row, ok := ia.X.(*ssa.UnOp)
			if !ok || row.Op != token.MUL {
				continue
			}
			ia2, ok := row.X.(*ssa.IndexAddr)
			if !ok {
				continue
			}
			ts := trueStore{st, ia2.Index, ia.Index, ia2.X}
			_, oIsPhi := ia2.Index.(*ssa.Phi)
			_, nIsPhi := ia.Index.(*ssa.Phi)
			if oIsPhi && nIsPhi && inLoop(b) {
				inLoopStores = append(inLoopStores, ts)
			} else {
				seedStores = append(seedStores, ts)
			}
		}
	}
	if len(inLoopStores) == 0 {
		r.Undecided("shape:"+fk, c.FnPos(fn), "no table fill `fits[i][j] = true` over two loop variables found: the validator is not the table recurrence this rule knows")
		return
	}
	d := &dpRenderer{o: inLoopStores[0].o, n: inLoopStores[0].n, table: inLoopStores[0].tab}
	// the seed: fits[len(want)][len(have)] = true
	okSeed := false
	for _, s := range seedStores {
		if s.tab == d.table && strings.HasPrefix(d.idx(s.o), "len(") && strings.HasPrefix(d.idx(s.n), "len(") {
			okSeed = true
		}
	}
	r.Check(okSeed, "seed|"+fk, c.FnPos(fn), "fits[len(profile)][len(subject)] = true (both exhausted)", sprintf("%v", okSeed))
	validateSpaceAndExits(c, r, fn, validate, d)
	// the recurrence: union of the path conditions of all in-loop true-stores, from the inner loop body's entry
	inner := d.n.(*ssa.Phi).Block() // inner loop header
	var body *ssa.BasicBlock
	if iff, ok := lastInstr(inner).(*ssa.If); ok {
		_ = iff
		body = inner.Succs[0]
	}
	if body == nil {
		r.Undecided("shape:"+fk, c.FnPos(fn), "inner loop header does not end in a test")
		return
	}
	// the recurrence, path by path: every way through one round of the inner loop, with boolean variables and
	// short-circuit results resolved along the path; the value the cell ends up with is compared with
	// (j < len ∧ equal ∧ fits[i+1][j+1]) ∨ (optional ∧ fits[i+1][j]) for every value of the conditions the path did not test
	canon := func(a string) string {
		switch {
		case strings.Contains(a, ".Equal(") && strings.Contains(a, "[i]") && strings.Contains(a, "[j]"):
			return "equal"
		case strings.HasPrefix(a, "j<len("):
			return "inrange"
		case strings.HasSuffix(a, "[i].Optional"):
			return "optional"
		case a == "fits[i+1][j+1]":
			return "f11"
		case a == "fits[i+1][j]":
			return "f10"
		}
		return a
	}
	// atomOf renders a (phi-resolved) boolean value as canonical atom + polarity; constants are reported separately
	type bval struct {
		isConst bool
		c       bool
		atom    string
		pos     bool
	}
	phis := map[*ssa.Phi]ssa.Value{}
	var evalB func(v ssa.Value) bval
	evalB = func(v ssa.Value) bval {
		neg := false
		for i := 0; i < 20; i++ {
			if phi, ok := v.(*ssa.Phi); ok {
				if pv, ok := phis[phi]; ok {
					v = pv
					continue
				}
			}
			if u, ok := v.(*ssa.UnOp); ok && u.Op == token.NOT {
				v, neg = u.X, !neg
				continue
			}
			break
		}
		if k, ok := v.(*ssa.Const); ok && k.Value != nil {
			return bval{isConst: true, c: constBool(k) != neg}
		}
		a := d.val(v)
		pos := !neg
		// j >= len, j == len, j != len: the index never exceeds len
		for _, alt := range []struct {
			op  string
			neg bool
		}{{"j>=len(", true}, {"j==len(", true}, {"j!=len(", false}} {
			if strings.HasPrefix(a, alt.op) {
				a = "j<len(" + a[len(alt.op):]
				if alt.neg {
					pos = !pos
				}
			}
		}
		return bval{atom: canon(a), pos: pos}
	}
	type cell struct {
		set bool
		v   bval
	}
	var mism []string
	seenAtoms := map[string]bool{}
	nPaths := 0
	var walkR func(prev, b *ssa.BasicBlock, asg map[string]bool, order []string, cur cell, seen map[*ssa.BasicBlock]bool)
	walkR = func(prev, b *ssa.BasicBlock, asg map[string]bool, order []string, cur cell, seen map[*ssa.BasicBlock]bool) {
		if nPaths > 500 {
			return
		}
		saved := map[*ssa.Phi]ssa.Value{}
		for k, v := range phis {
			saved[k] = v
		}
		defer func() { phis = saved }()
		if prev != nil {
			for i, p := range b.Preds {
				if p != prev {
					continue
				}
				for _, ins := range b.Instrs {
					phi, isPhi := ins.(*ssa.Phi)
					if !isPhi {
						break
					}
					v := phi.Edges[i]
					if inner2, ok := v.(*ssa.Phi); ok {
						if pv, ok := phis[inner2]; ok {
							v = pv
						}
					}
					phis[phi] = v
				}
				break
			}
		}
		if b == inner {
			// end of the round: compare
			nPaths++
			var free []string
			val := map[string]bool{}
			for _, k := range []string{"inrange", "equal", "f11", "optional", "f10"} {
				if v, ok := asg[k]; ok {
					val[k] = v
				} else {
					free = append(free, k)
				}
			}
			for mask := 0; mask < 1<<len(free); mask++ {
				for i, k := range free {
					val[k] = mask&(1<<i) != 0
				}
				want := (val["inrange"] && val["equal"] && val["f11"]) || (val["optional"] && val["f10"])
				got := false
				switch {
				case !cur.set:
				case cur.v.isConst:
					got = cur.v.c
				default:
					v, known := val[cur.v.atom]
					if !known {
						if av, ok := asg[cur.v.atom]; ok {
							v, known = av, true
						}
					}
					if !known {
						mism = append(mism, "the cell takes the value of something outside the recurrence: "+cur.v.atom)
						continue
					}
					got = v == cur.v.pos
				}
				if got != want {
					mism = append(mism, sprintf("cell is %v, expected %v, on path [%s] with inrange=%v equal=%v fits[i+1][j+1]=%v optional=%v fits[i+1][j]=%v", got, want, strings.Join(order, " "), val["inrange"], val["equal"], val["f11"], val["optional"], val["f10"]))
				}
			}
			return
		}
		if seen[b] {
			return
		}
		seen[b] = true
		defer delete(seen, b)
		for _, ins := range b.Instrs {
			switch x := ins.(type) {
			case *ssa.Store:
				for _, s := range inLoopStores {
					if s.st == x {
						cur = cell{true, evalB(x.Val)}
					}
				}
			case *ssa.Return:
				mism = append(mism, "the round returns at "+c.Pos(x.Pos()))
				return
			case *ssa.If:
				bv := evalB(x.Cond)
				if bv.isConst {
					if bv.c {
						walkR(b, b.Succs[0], asg, order, cur, seen)
					} else {
						walkR(b, b.Succs[1], asg, order, cur, seen)
					}
					return
				}
				seenAtoms[bv.atom] = true
				if v, ok := asg[bv.atom]; ok {
					if v == bv.pos {
						walkR(b, b.Succs[0], asg, order, cur, seen)
					} else {
						walkR(b, b.Succs[1], asg, order, cur, seen)
					}
					return
				}
				for _, v := range []bool{true, false} {
					na := map[string]bool{}
					for k, x2 := range asg {
						na[k] = x2
					}
					na[bv.atom] = v
					no := append(append([]string{}, order...), sprintf("%s=%v", bv.atom, v))
					if v == bv.pos {
						walkR(b, b.Succs[0], na, no, cur, seen)
					} else {
						walkR(b, b.Succs[1], na, no, cur, seen)
					}
				}
				return
			}
		}
		for _, sx := range succs(b) {
			walkR(b, sx, asg, order, cur, seen)
		}
	}
	for _, s := range inLoopStores {
		if s.o != d.o || s.n != d.n || s.tab != d.table {
			r.Undecided("shape:"+fk, c.Pos(s.st.Pos()), "table stores with different index variables")
			return
		}
	}
	walkR(inner, body, map[string]bool{}, nil, cell{}, map[*ssa.BasicBlock]bool{})
	if nPaths == 0 {
		r.Undecided("shape:"+fk, c.FnPos(fn), "no path through one round of the inner loop")
		return
	}
	r.Check(len(mism) == 0, "recurrence|"+fk, c.FnPos(fn), "fits[i][j] = (j < len(subject) ∧ profile[i] equals subject[j] ∧ fits[i+1][j+1]) ∨ (profile[i].Optional ∧ fits[i+1][j]) on each of the "+sprintf("%d", nPaths)+" paths of a round", strings.Join(head(uniq(mism), 2), " ;; "))
	// verdict: the final answer of the ordered branch is fits[0][0] (answer|… obligations say which way round)
	okVerdict := false
	for _, f := range []*ssa.Function{fn, validate} {
		for _, b := range f.Blocks {
			if iff, ok := lastInstr(b).(*ssa.If); ok {
				cond := iff.Cond
				if u, isNot := cond.(*ssa.UnOp); isNot && u.Op == token.NOT {
					cond = u.X
				}
				if call, isCall := cond.(*ssa.Call); isCall && call.Call.StaticCallee() == fn && fn != validate {
					okVerdict = true
				}
				if d.val(cond) == "fits[0][0]" {
					okVerdict = true
				}
			}
		}
	}
	r.Check(okVerdict, "verdict|"+fk, c.FnPos(fn), "rejected when fits[0][0] is false", sprintf("%v", okVerdict))
}

// dpPaths is pathsDNF with the DP renderer's atoms.
func dpPaths(d *dpRenderer, from, to *ssa.BasicBlock, limit int) ([][]literal, bool) {
	var out [][]literal
	ok := true
	var walk func(b *ssa.BasicBlock, acc []literal, seen map[*ssa.BasicBlock]bool)
	walk = func(b *ssa.BasicBlock, acc []literal, seen map[*ssa.BasicBlock]bool) {
		if len(out) > limit {
			ok = false
			return
		}
		if b == to {
			out = append(out, append([]literal{}, acc...))
			return
		}
		if seen[b] {
			return
		}
		seen[b] = true
		defer delete(seen, b)
		if iff, isIf := lastInstr(b).(*ssa.If); isIf {
			s := d.val(iff.Cond)
			pos := true
			if strings.HasPrefix(s, "!") {
				s, pos = s[1:], false
			}
			walk(b.Succs[0], append(acc, literal{s, pos}), seen)
			walk(b.Succs[1], append(acc[:len(acc):len(acc)], literal{s, !pos}), seen)
			return
		}
		for _, s := range succs(b) {
			walk(s, acc, seen)
		}
	}
	walk(from, nil, map[*ssa.BasicBlock]bool{})
	return out, ok
}

func canReachBlock(a, b *ssa.BasicBlock) bool {
	return reachableFrom(a, nil)[b]
}

// rootPhi follows a slice variable back through appends and phis to its loop-header phi or definition (identity of the variable).
func rootPhi(v ssa.Value) ssa.Value {
	seen := map[ssa.Value]bool{}
	for i := 0; i < 20 && v != nil && !seen[v]; i++ {
		seen[v] = true
		switch x := v.(type) {
		case *ssa.Call:
			if bi, ok := x.Call.Value.(*ssa.Builtin); ok && bi.Name() == "append" {
				v = x.Call.Args[0]
				continue
			}
			return v
		case *ssa.Phi:
			// prefer the edge that is not derived from this phi (the definition before the loop)
			var next ssa.Value
			for _, e := range x.Edges {
				if !derivesFrom(e, x, map[ssa.Value]bool{}) {
					next = e
				}
			}
			if next == nil {
				return v
			}
			v = next
			continue
		default:
			return v
		}
	}
	return v
}

// lenPlus reads v as len(x)+k.
func lenPlus(v ssa.Value) (ssa.Value, int64, bool) {
	if x, ok := lenOperand(v); ok {
		return x, 0, true
	}
	if b, ok := v.(*ssa.BinOp); ok && (b.Op == token.ADD || b.Op == token.SUB) {
		if x, ok := lenOperand(b.X); ok {
			if k, ok := b.Y.(*ssa.Const); ok && k.Value != nil {
				if b.Op == token.SUB {
					return x, -k.Int64(), true
				}
				return x, k.Int64(), true
			}
		}
		if x, ok := lenOperand(b.Y); ok && b.Op == token.ADD {
			if k, ok := b.X.(*ssa.Const); ok && k.Value != nil {
				return x, k.Int64(), true
			}
		}
	}
	return nil, 0, false
}

// countedRange describes `for v := first; v <cmp> bound; v += step` as the closed range of values v takes,
// each end being a constant or len(x)+k.
type rangeEnd struct {
	of ssa.Value // nil: a constant
	k  int64
}

func (e rangeEnd) String() string {
	if e.of == nil {
		return sprintf("%d", e.k)
	}
	if e.k == 0 {
		return "len(" + e.of.Name() + ")"
	}
	return sprintf("len(%s)%+d", e.of.Name(), e.k)
}

func endOf(v ssa.Value) (rangeEnd, bool) {
	if k, ok := v.(*ssa.Const); ok && k.Value != nil && k.Value.Kind() == constant.Int {
		return rangeEnd{nil, k.Int64()}, true
	}
	if x, k, ok := lenPlus(v); ok {
		return rangeEnd{x, k}, true
	}
	return rangeEnd{}, false
}

// countedRange: lo, hi (inclusive) and direction of a loop variable.
func countedRange(phi *ssa.Phi) (lo, hi rangeEnd, down bool, why string) {
	body := naturalLoops(phi.Parent())[phi.Block()]
	if body == nil {
		return lo, hi, false, "not at a loop head"
	}
	init, next, ok := carriedRound(phi, body)
	if !ok {
		return lo, hi, false, "more than one way into or round the loop"
	}
	step := int64(0)
	if b, ok := next.(*ssa.BinOp); ok && b.X == ssa.Value(phi) {
		if k, ok := b.Y.(*ssa.Const); ok && k.Value != nil {
			switch b.Op {
			case token.ADD:
				step = k.Int64()
			case token.SUB:
				step = -k.Int64()
			}
		}
	}
	if step != 1 && step != -1 {
		return lo, hi, false, "the step is not one up or one down"
	}
	first, ok := endOf(init)
	if !ok {
		return lo, hi, false, "the first value is neither a constant nor a length"
	}
	iff, _ := lastInstr(phi.Block()).(*ssa.If)
	if iff == nil {
		return lo, hi, false, "no test at the loop head"
	}
	cond, stays := iff.Cond, body[phi.Block().Succs[0]]
	if u, ok := cond.(*ssa.UnOp); ok && u.Op == token.NOT {
		cond, stays = u.X, !stays
	}
	bin, ok := cond.(*ssa.BinOp)
	if !ok {
		return lo, hi, false, "the test at the loop head is not a comparison"
	}
	op, other := bin.Op, bin.Y
	if bin.Y == ssa.Value(phi) {
		other = bin.X
		op = map[token.Token]token.Token{token.LSS: token.GTR, token.GTR: token.LSS, token.LEQ: token.GEQ, token.GEQ: token.LEQ, token.EQL: token.EQL, token.NEQ: token.NEQ}[op]
	} else if bin.X != ssa.Value(phi) {
		return lo, hi, false, "the test at the loop head does not compare the loop variable"
	}
	if !stays {
		op = map[token.Token]token.Token{token.LSS: token.GEQ, token.GEQ: token.LSS, token.GTR: token.LEQ, token.LEQ: token.GTR, token.EQL: token.NEQ, token.NEQ: token.EQL}[op]
	}
	bound, ok := endOf(other)
	if !ok {
		return lo, hi, false, "the bound is neither a constant nor a length"
	}
	// the loop runs while  phi op bound
	if step == -1 {
		switch op {
		case token.GEQ:
		case token.GTR:
			bound.k++
		default:
			return lo, hi, false, "a loop counting down that does not go on while the variable is above a bound"
		}
		return bound, first, true, ""
	}
	switch op {
	case token.LEQ:
	case token.LSS:
		bound.k--
	default:
		return lo, hi, false, "a loop counting up that does not go on while the variable is below a bound"
	}
	return first, bound, false, ""
}

// exitAfter follows unconditional jumps from b to the return they end in.
func exitAfter(b *ssa.BasicBlock) *ssa.Return {
	for i := 0; i < 8 && b != nil; i++ {
		switch x := lastInstr(b).(type) {
		case *ssa.Return:
			return x
		case *ssa.Jump:
			b = b.Succs[0]
		default:
			return nil
		}
	}
	return nil
}

func constBoolResult(ret *ssa.Return) (val, ok bool) {
	res := retResults(ret)
	if len(res) != 1 {
		return false, false
	}
	k, isK := res[0].(*ssa.Const)
	if !isK || k.Value == nil || k.Value.Kind() != constant.Bool {
		return false, false
	}
	return constant.BoolVal(k.Value), true
}

func validateSpaceAndExits(c *Ctx, r *Rep, fn, validate *ssa.Function, d *dpRenderer) {
	fk := c.FuncKey(fn)
	// --- the table's dimensions: make([][]bool, len(W)+1), rows make([]bool, len(H)+1)
	var W, H ssa.Value
	if mk, ok := d.table.(*ssa.MakeSlice); ok {
		if x, k, ok := lenPlus(mk.Len); ok && k == 1 {
			W = x
		}
	}
	for _, b := range fn.Blocks {
		for _, ins := range b.Instrs {
			st, ok := ins.(*ssa.Store)
			if !ok {
				continue
			}
			ia, ok := st.Addr.(*ssa.IndexAddr)
			if !ok || ia.X != d.table {
				continue
			}
			if mk, ok := st.Val.(*ssa.MakeSlice); ok {
				if x, k, ok := lenPlus(mk.Len); ok && k == 1 {
					H = x
				}
			}
		}
	}
	// --- the list of wanted OIDs runs parallel to the profile's attribute list: row i of the table reads want[i] and
	// attributes[i].Optional, so the two must be the same length, element for element
	if W != nil {
		var A ssa.Value
		for _, b := range fn.Blocks {
			for _, ins := range b.Instrs {
				fa, ok := ins.(*ssa.FieldAddr)
				if !ok || fieldOfAddr(fa).Name() != "Optional" {
					continue
				}
				if ia, ok := fa.X.(*ssa.IndexAddr); ok && ia.Index == d.o {
					A = ia.X
				}
			}
		}
		if A != nil {
			ok, how := lenEqualLists(c, fn, validate, W, A, 0)
			r.Check(ok, "want-parallel-to-attributes|"+fk, c.FnPos(fn), "the list compared against the subject has one entry per profile attribute (made with the attribute list's length, not filtered)", how)
		}
	}
	if W == nil || H == nil {
		r.Undecided("shape:table-size|"+fk, c.FnPos(fn), "the table is not made with len(profile attributes)+1 rows of len(subject)+1 cells")
	} else {
		// --- the cells computed: every row 0..len(W)-1 from the last to the first, every column 0..len(H)
		if op, ok := d.o.(*ssa.Phi); ok {
			lo, hi, down, why := countedRange(op)
			if why != "" {
				r.Undecided("shape:rows|"+fk, c.Pos(op.Pos()), why)
			} else {
				good := down && lo.of == nil && lo.k == 0 && hi.of == W && hi.k == -1
				r.Check(good, "rows|"+fk, c.Pos(op.Pos()), "rows len(profile)-1 down to 0 (each row is computed from the one below)", sprintf("%s .. %s, counting down: %v", lo, hi, down))
			}
		}
		if np, ok := d.n.(*ssa.Phi); ok {
			lo, hi, _, why := countedRange(np)
			if why != "" {
				r.Undecided("shape:columns|"+fk, c.Pos(np.Pos()), why)
			} else {
				good := lo.of == nil && lo.k == 0 && hi.of == H && hi.k == 0
				r.Check(good, "columns|"+fk, c.Pos(np.Pos()), "columns 0 .. len(subject), in either direction", sprintf("%s .. %s", lo, hi))
			}
		}
	}
	// --- the answer: the test of fits[0][0], in the function that fills the table or, when that function returns
	// the cell, at its call in the validator
	type cellTest struct {
		iff *ssa.If
		neg bool
	}
	var tests []cellTest
	testsOfValue := func(f *ssa.Function, isCell func(ssa.Value) bool) {
		for _, b := range f.Blocks {
			iff, ok := lastInstr(b).(*ssa.If)
			if !ok {
				continue
			}
			cond, neg := iff.Cond, false
			if u, ok := cond.(*ssa.UnOp); ok && u.Op == token.NOT {
				cond, neg = u.X, true
			}
			if isCell(cond) {
				tests = append(tests, cellTest{iff, neg})
			}
		}
	}
	testsOfValue(fn, func(v ssa.Value) bool { return d.val(v) == "fits[0][0]" })
	if len(tests) == 0 && fn != validate {
		returnsCell := false
		for _, ret := range returnsOf(fn) {
			if res := retResults(ret); len(res) == 1 && d.val(res[0]) == "fits[0][0]" {
				returnsCell = true
			}
		}
		if returnsCell {
			testsOfValue(validate, func(v ssa.Value) bool {
				call, ok := v.(*ssa.Call)
				return ok && call.Call.StaticCallee() == fn
			})
		}
	}
	for _, t := range tests {
		b := t.iff.Block()
		fitsIdx, failIdx := 0, 1
		if t.neg {
			fitsIdx, failIdx = 1, 0
		}
		for _, side := range []struct {
			idx  int
			want bool
			what string
		}{{fitsIdx, true, "the subject fits the attribute list"}, {failIdx, false, "the subject does not fit"}} {
			ret := exitAfter(b.Succs[side.idx])
			if ret == nil {
				r.Undecided("shape:answer|"+fk, c.Pos(t.iff.Pos()), "the test of fits[0][0] does not lead straight to an exit")
				continue
			}
			v, isK := constBoolResult(ret)
			r.Check(isK && v == side.want, sprintf("answer|%v|%s", side.want, fk), c.Pos(ret.Pos()), sprintf("%s: the answer is %v", side.what, side.want), sprintf("%v (constant: %v)", v, isK))
		}
	}
	if len(tests) == 0 {
		r.Undecided("shape:answer|"+fk, c.FnPos(fn), "no test of fits[0][0] found")
	}
	fn = validate // the remaining obligations are about the validator itself
	fk = c.FuncKey(fn)
	// --- rejections before the table: an attribute name that resolves to nothing, an empty RDN
	n := 0
	for _, ret := range returnsOf(fn) {
		why := ""
		for _, g := range guardsOf(ret.Block()) {
			if x, isNil, ok := nilTestOf(g.Cond, g.Truth); ok && isErrorType(x.Type()) && !isNil {
				why = "an attribute name could not be resolved"
			}
			if x, empty, ok := emptyTestOf(g.Cond, g.Truth); ok && empty {
				if _, isRDN := x.Type().Underlying().(*types.Slice); isRDN && strings.Contains(x.Type().String(), "RelativeDistinguishedName") {
					why = "the subject holds an empty RDN"
				}
			}
		}
		if why == "" {
			continue
		}
		n++
		v, isK := constBoolResult(ret)
		r.Check(isK && !v, sprintf("reject|%s#%d", fk, n), c.Pos(ret.Pos()), why+": the answer is false", sprintf("%v (constant: %v)", v, isK))
	}
	// --- allowOther: the rejection for a missing mandatory attribute is decided attribute by attribute, i.e. inside
	// a loop that runs over the profile's attribute list (a tally over the subject counts a repeated attribute twice)
	{
		var attrLike func(v ssa.Value, depth int) bool
		attrLike = func(v ssa.Value, depth int) bool {
			if sl, ok := v.Type().Underlying().(*types.Slice); ok {
				if st, ok := sl.Elem().Underlying().(*types.Struct); ok {
					for i := 0; i < st.NumFields(); i++ {
						if st.Field(i).Name() == "Optional" {
							return true
						}
					}
				}
			}
			if mk, ok := v.(*ssa.MakeSlice); ok && depth < 2 {
				if x, k, ok := lenPlus(mk.Len); ok && k == 0 {
					return attrLike(x, depth+1)
				}
			}
			return false
		}
		// the loop's bound is the length of the attribute list (or of a list made with that length); the length is
		// taken in the header or, for a range loop, once before it
		overAttributes := func(h *ssa.BasicBlock) bool {
			iff, ok := lastInstr(h).(*ssa.If)
			if !ok {
				return false
			}
			bin, ok := iff.Cond.(*ssa.BinOp)
			if !ok {
				return false
			}
			for _, side := range []ssa.Value{bin.X, bin.Y} {
				if x, isLen := lenOperand(side); isLen && attrLike(x, 0) {
					return true
				}
			}
			return false
		}
		readsAllowOther, n := false, 0
		for _, ret := range returnsOf(fn) {
			under := false
			for _, g := range guardsOf(ret.Block()) {
				if ld, ok := g.Cond.(*ssa.UnOp); ok && ld.Op == token.MUL && g.Truth {
					if fa, ok := ld.X.(*ssa.FieldAddr); ok && fieldOfAddr(fa).Name() == "AllowOther" {
						under = true
					}
				}
			}
			if !under {
				continue
			}
			readsAllowOther = true
			inAttrLoop := func(f *ssa.Function, blk *ssa.BasicBlock) bool {
				for h, body := range naturalLoops(f) {
					if !overAttributes(h) {
						continue
					}
					// an exit from inside the loop is not part of the natural loop: it lies behind the header's way into the body
					for _, sc := range h.Succs {
						if body[sc] && sc.Dominates(blk) {
							return true
						}
					}
				}
				return false
			}
			v, isK := constBoolResult(ret)
			if !isK {
				// the answer of a helper of the module: its rejecting exits are looked at the same way
				if res := retResults(ret); len(res) == 1 {
					if call, ok := res[0].(*ssa.Call); ok {
						if h := call.Call.StaticCallee(); h != nil && h.Blocks != nil && c.InModule(h) {
							for _, hr := range returnsOf(h) {
								if hv, hk := constBoolResult(hr); hk && !hv {
									n++
									ok := inAttrLoop(h, hr.Block())
									r.Check(ok, sprintf("mandatory-per-attribute|%s#%d", fk, n), c.Pos(hr.Pos()), "with other attributes allowed, the rejection is decided inside a loop over the profile's attributes (one decision per mandatory attribute)", sprintf("in %s, inside such a loop: %v", h.Name(), ok))
								}
							}
						}
					}
				}
				continue
			}
			if v {
				continue
			}
			n++
			inLoop := inAttrLoop(fn, ret.Block())
			r.Check(inLoop, sprintf("mandatory-per-attribute|%s#%d", fk, n), c.Pos(ret.Pos()), "with other attributes allowed, the rejection is decided inside a loop over the profile's attributes (one decision per mandatory attribute)", sprintf("inside such a loop: %v", inLoop))
		}
		if readsAllowOther && n == 0 {
			r.Undecided("shape:mandatory-per-attribute|"+fk, c.FnPos(fn), "no rejecting exit found where other attributes are allowed")
		}
		// every attribute of the profile gets its turn: the loop over the attributes that holds a rejection is left only
		// through its own condition or by returning (an optional attribute is passed over, it does not end the search)
		checkLoops := func(f *ssa.Function) {
			k := 0
			loopsOfF := naturalLoops(f)
			var hs []*ssa.BasicBlock
			for h := range loopsOfF {
				hs = append(hs, h)
			}
			sort.Slice(hs, func(i, j int) bool { return hs[i].Index < hs[j].Index })
			for _, h := range hs {
				body := loopsOfF[h]
				if !overAttributes(h) {
					continue
				}
				holdsReject := false
				for _, ret := range returnsOf(f) {
					if v, isK := constBoolResult(ret); isK && !v {
						for _, sc := range h.Succs {
							if body[sc] && sc.Dominates(ret.Block()) {
								holdsReject = true
							}
						}
					}
				}
				if !holdsReject {
					continue
				}
				var done *ssa.BasicBlock
				for _, sc := range h.Succs {
					if !body[sc] {
						done = sc
					}
				}
				early := ""
				if done != nil {
					for _, p := range done.Preds {
						if p != h && h.Dominates(p) {
							early = "left early"
							if at := firstPos(p); at != "" {
								early = "left early at " + at
							}
						}
					}
				}
				k++
				r.Check(early == "", sprintf("every-attribute-looked-at|%s#%d", c.FuncKey(f), k), firstPos(h), "the loop over the profile's attributes that can reject is left only when all attributes were seen, or by returning", early)
			}
		}
		checkLoops(fn)
		for _, ci := range callsIn(fn) {
			if h := ci.Common().StaticCallee(); h != nil && h != fn && c.InModule(h) && h.Blocks != nil {
				checkLoops(h)
			}
		}
		// the two rejections that come before any comparison are there: an attribute name that resolves to nothing and
		// an empty RDN each lead to an exit that answers false (in the validator or in a helper it calls)
		{
			unresolved, emptyRdn := 0, 0
			count := func(f *ssa.Function) {
				for _, ret := range returnsOf(f) {
					res := retResults(ret)
					if len(res) == 0 {
						continue
					}
					k, isK := res[len(res)-1].(*ssa.Const)
					if !isK || k.Value == nil || k.Value.Kind() != constant.Bool || constant.BoolVal(k.Value) {
						continue
					}
					for _, g := range guardsOf(ret.Block()) {
						if x, isNil, ok := nilTestOf(g.Cond, g.Truth); ok && isErrorType(x.Type()) && !isNil {
							unresolved++
							break
						}
						if x, empty, ok := emptyTestOf(g.Cond, g.Truth); ok && empty && strings.Contains(x.Type().String(), "RelativeDistinguishedName") {
							emptyRdn++
							break
						}
					}
				}
			}
			count(fn)
			for _, ci := range callsIn(fn) {
				if h := ci.Common().StaticCallee(); h != nil && h != fn && c.InModule(h) && h.Blocks != nil && strings.HasSuffix(fnPkgPath(h), "generator/config") {
					count(h)
				}
			}
			r.Check(unresolved > 0 && emptyRdn > 0, "early-rejections-present|"+fk, c.FnPos(fn), "an unresolvable attribute name and an empty RDN each have an exit that answers false", sprintf("unresolvable name: %d exit(s), empty RDN: %d exit(s)", unresolved, emptyRdn))
		}
	}
	// --- what is compared: wherever the validator (or the function holding its table) compares two attribute types, one
	// comes from the profile's attribute list and the other from the configuration's subject. Operands whose origins
	// are not expressed in the validator's own parameters (a comparison moved into a helper) are left alone.
	for vi, vf := range []*ssa.Function{validate, fn} {
		if vi == 1 && fn == validate {
			continue
		}
		var profP, contP string
		for _, prm := range vf.Params {
			switch typeShort(c, prm.Type()) {
			case "config.CertificateProfile", "*config.CertificateProfile":
				profP = "P(" + c.FuncKey(vf) + "." + prm.Name() + ")"
			case "config.CertificateContent", "*config.CertificateContent":
				contP = "P(" + c.FuncKey(vf) + "." + prm.Name() + ")"
			}
		}
		if profP == "" || contP == "" {
			continue
		}
		pv := c.newProv()
		side := func(v ssa.Value) string {
			o := strings.Join(pv.Origins(v), " , ")
			hasP, hasC := strings.Contains(o, profP), strings.Contains(o, contP)
			switch {
			case hasP && !hasC:
				return "profile"
			case hasC && !hasP:
				return "subject"
			case hasP && hasC:
				return "both"
			}
			return ""
		}
		n := 0
		for _, ci := range callsIn(vf) {
			if !strings.HasSuffix(calleeFullName(ci), "ObjectIdentifier).Equal") || len(ci.Common().Args) != 2 {
				continue
			}
			a, b := side(ci.Common().Args[0]), side(ci.Common().Args[1])
			if a == "" || b == "" {
				continue
			}
			n++
			ok := (a == "profile" && b == "subject") || (a == "subject" && b == "profile")
			r.Check(ok, sprintf("compares-profile-with-subject|%s#%d", c.FuncKey(vf), n), c.Pos(ci.Pos()), "an attribute type of the profile's list is compared with an attribute type of the subject", a+" with "+b)
		}
	}
	// --- allowOther: what decides that a mandatory attribute is there is a comparison of attribute TYPES (OID with OID),
	// the profile's with the subject's - in the branch itself or in a helper it hands both sides to. Presence looked up
	// through anything coarser (a short name that many OIDs share, a text) lets one attribute stand in for another.
	{
		var profP, contP string
		for _, prm := range validate.Params {
			switch typeShort(c, prm.Type()) {
			case "config.CertificateProfile", "*config.CertificateProfile":
				profP = "P(" + c.FuncKey(validate) + "." + prm.Name() + ")"
			case "config.CertificateContent", "*config.CertificateContent":
				contP = "P(" + c.FuncKey(validate) + "." + prm.Name() + ")"
			}
		}
		if profP != "" && contP != "" {
			pv := c.newProv()
			side := func(v ssa.Value) string {
				o := strings.Join(pv.Origins(v), " , ")
				hasP, hasC := strings.Contains(o, profP), strings.Contains(o, contP)
				switch {
				case hasP && !hasC:
					return "profile"
				case hasC && !hasP:
					return "subject"
				}
				return ""
			}
			// a helper that compares, OID with OID, something of one of its parameters with something of another
			var comparesParams func(h *ssa.Function, d int) bool
			comparesParams = func(h *ssa.Function, d int) bool {
				if h == nil || !c.InModule(h) || h.Blocks == nil || d > 2 {
					return false
				}
				hp := c.newProv()
				for _, ci := range callsIn(h) {
					if strings.HasSuffix(calleeFullName(ci), "ObjectIdentifier).Equal") && len(ci.Common().Args) == 2 {
						pa, pb := "", ""
						for _, prm := range h.Params {
							key := "P(" + c.FuncKey(h) + "." + prm.Name() + ")"
							if strings.Contains(strings.Join(hp.Origins(ci.Common().Args[0]), ","), key) {
								pa = key
							}
							if strings.Contains(strings.Join(hp.Origins(ci.Common().Args[1]), ","), key) {
								pb = key
							}
						}
						if pa != "" && pb != "" && pa != pb {
							return true
						}
					} else if comparesParams(ci.Common().StaticCallee(), d+1) {
						return true
					}
				}
				return false
			}
			regionBlocks, compares := 0, 0
			var at token.Pos
			for _, b := range validate.Blocks {
				inRegion := false
				for _, g := range guardsOf(b) {
					if g.Truth && strings.Contains(strings.Join(pv.Origins(g.Cond), ","), ".AllowOther") {
						inRegion = true
						if !at.IsValid() {
							at = g.Cond.Pos()
						}
					}
				}
				if !inRegion {
					continue
				}
				regionBlocks++
				for _, ins := range b.Instrs {
					ci, isCall := ins.(ssa.CallInstruction)
					if !isCall {
						continue
					}
					args := ci.Common().Args
					if strings.HasSuffix(calleeFullName(ci), "ObjectIdentifier).Equal") && len(args) == 2 {
						a, b2 := side(args[0]), side(args[1])
						if a != "" && b2 != "" && a != b2 {
							compares++
						}
						continue
					}
					if h := ci.Common().StaticCallee(); h != nil && c.InModule(h) {
						hasProf, hasSubj := false, false
						for _, a := range args {
							switch side(a) {
							case "profile":
								hasProf = true
							case "subject":
								hasSubj = true
							}
						}
						if hasProf && hasSubj && comparesParams(h, 0) {
							compares++
						}
					}
				}
			}
			if regionBlocks > 0 {
				r.Check(compares > 0, "allow-other-compares-types|"+c.FuncKey(validate), c.Pos(at), "with allowOther, a mandatory attribute counts as present on account of a comparison of its type (OID) with the subject's attribute types", sprintf("%d such comparison(s) in the branch", compares))
			}
		}
	}
	// --- allowOther: each mandatory attribute is searched for; found is false until an attribute equals it
	for _, b := range fn.Blocks {
		for _, ins := range b.Instrs {
			flag, ok := ins.(*ssa.Phi)
			if !ok {
				break
			}
			if bt, isB := flag.Type().Underlying().(*types.Basic); !isB || bt.Kind() != types.Bool {
				continue
			}
			allConst := len(flag.Edges) >= 2
			for _, e := range flag.Edges {
				if k, ok := e.(*ssa.Const); !ok || k.Value == nil {
					allConst = false
				}
			}
			if !allConst {
				continue
			}
			// which edges come from behind an Equal(...) == true test
			matched := func(p *ssa.BasicBlock) bool {
				for _, g := range guardsOf(p) {
					if call, ok := g.Cond.(*ssa.Call); ok && g.Truth && strings.HasSuffix(calleeFullName(call), ".Equal") {
						return true
					}
				}
				return false
			}
			// a flag of the search: some way in comes from behind a comparison with the wanted attribute, whichever way
			behindEqual := func(p *ssa.BasicBlock) bool {
				for _, g := range guardsOf(p) {
					if call, ok := g.Cond.(*ssa.Call); ok && strings.HasSuffix(calleeFullName(call), ".Equal") {
						return true
					}
				}
				return false
			}
			anyMatch := false
			for i := range flag.Edges {
				if behindEqual(b.Preds[i]) {
					anyMatch = true
				}
			}
			if !anyMatch {
				continue
			}
			okEdges := true
			for i, e := range flag.Edges {
				if constBool(e.(*ssa.Const)) != matched(b.Preds[i]) {
					okEdges = false
				}
			}
			r.Check(okEdges, "search-flag|"+fk, c.Pos(flag.Pos()), "found is true exactly on the way in from an attribute that equals the wanted one", sprintf("%v", okEdges))
			// its test: not found -> false
			for _, ref := range *flag.Referrers() {
				var iff *ssa.If
				neg := false
				switch u := ref.(type) {
				case *ssa.If:
					iff = u
				case *ssa.UnOp:
					if u.Op == token.NOT {
						for _, r2 := range *u.Referrers() {
							if i2, ok := r2.(*ssa.If); ok {
								iff, neg = i2, true
							}
						}
					}
				}
				if iff == nil {
					continue
				}
				missIdx := 1
				if neg {
					missIdx = 0
				}
				ret := exitAfter(iff.Block().Succs[missIdx])
				if ret == nil {
					r.Undecided("shape:missing-mandatory|"+fk, c.Pos(iff.Pos()), "a mandatory attribute that is not found does not lead straight to an exit")
					continue
				}
				v, isK := constBoolResult(ret)
				r.Check(isK && !v, "missing-mandatory|"+fk, c.Pos(ret.Pos()), "a mandatory attribute that is missing: the answer is false", sprintf("%v (constant: %v)", v, isK))
				// and when all were found: the exit of the loop over the attributes answers true
				for _, lb := range fn.Blocks {
					if !lb.Dominates(iff.Block()) || lb == iff.Block() {
						continue
					}
					body := naturalLoops(fn)[lb]
					if body == nil || !body[iff.Block()] {
						continue
					}
					// lb heads a loop around the test: its exit edge
					for _, sc := range lb.Succs {
						if body[sc] {
							continue
						}
						if ret := exitAfter(sc); ret != nil {
							v, isK := constBoolResult(ret)
							r.Check(isK && v, "all-mandatory-found|"+fk, c.Pos(ret.Pos()), "every mandatory attribute was found (any order, others allowed): the answer is true", sprintf("%v (constant: %v)", v, isK))
						}
					}
				}
			}
		}
	}
}

// fillsBoolTable: the function stores into an element of a [][]bool inside a loop.
func fillsBoolTable(f *ssa.Function) bool {
	loops := naturalLoops(f)
	for _, b := range f.Blocks {
		in := false
		for _, body := range loops {
			if body[b] {
				in = true
			}
		}
		if !in {
			continue
		}
		for _, ins := range b.Instrs {
			st, ok := ins.(*ssa.Store)
			if !ok {
				continue
			}
			ia, ok := st.Addr.(*ssa.IndexAddr)
			if !ok {
				continue
			}
			row, ok := ia.X.(*ssa.UnOp)
			if !ok || row.Op != token.MUL {
				continue
			}
			if ia2, ok := row.X.(*ssa.IndexAddr); ok {
				if sl, ok := ia2.X.Type().Underlying().(*types.Slice); ok {
					if in2, ok := sl.Elem().Underlying().(*types.Slice); ok {
						if bt, ok := in2.Elem().Underlying().(*types.Basic); ok && bt.Kind() == types.Bool {
							return true
						}
					}
				}
			}
		}
	}
	return false
}

// lenEqualLists: list w is made with the length of list a (directly, through the parameters of the function that uses
// them, or by a helper that makes one entry per element of its argument).
func lenEqualLists(c *Ctx, fn, outer *ssa.Function, w, a ssa.Value, depth int) (bool, string) {
	if depth > 3 {
		return false, "too many levels"
	}
	sameVal := func(x, y ssa.Value) bool {
		if x == y {
			return true
		}
		return sameFieldLoad(x, y)
	}
	switch x := w.(type) {
	case *ssa.MakeSlice:
		if of, _, ok := lenPlus(x.Len); ok {
			if k := x.Len; k != nil {
				if _, off, _ := lenPlus(k); off == 0 && sameVal(of, a) {
					return true, "made with len of the attribute list"
				}
			}
		}
		return false, "made with another length"
	case *ssa.Parameter:
		// both lists are parameters: compare what the (single) caller hands in
		var pa *ssa.Parameter
		if p, ok := a.(*ssa.Parameter); ok {
			pa = p
		}
		if pa == nil || fn == outer {
			return false, "the list is a parameter"
		}
		iw, ia := -1, -1
		for i, p := range fn.Params {
			if p == x {
				iw = i
			}
			if p == pa {
				ia = i
			}
		}
		for _, ci := range callsIn(outer) {
			if ci.Common().StaticCallee() == fn && iw >= 0 && ia >= 0 {
				return lenEqualLists(c, outer, outer, ci.Common().Args[iw], ci.Common().Args[ia], depth+1)
			}
		}
		return false, "call of the table function not found"
	case *ssa.Extract:
		// (list, ok) := helper(attributes): the helper makes one entry per element of its argument
		call, ok := x.Tuple.(*ssa.Call)
		if !ok || call.Call.StaticCallee() == nil || !c.InModule(call.Call.StaticCallee()) {
			return false, "result of a call that is not a module helper"
		}
		h := call.Call.StaticCallee()
		for _, ret := range returnsOf(h) {
			rr := retResults(ret)
			if x.Index >= len(rr) {
				continue
			}
			if k, isK := rr[x.Index].(*ssa.Const); isK && k.IsNil() {
				continue // the failing exit
			}
			ms, isMS := rr[x.Index].(*ssa.MakeSlice)
			if !isMS {
				return false, "the helper does not return a freshly made list"
			}
			of, off, okL := lenPlus(ms.Len)
			prm, isP := of.(*ssa.Parameter)
			if !okL || off != 0 || !isP {
				return false, "the helper's list is not made with the length of its argument"
			}
			for i, p := range h.Params {
				if p == prm && i < len(call.Call.Args) && sameVal(call.Call.Args[i], a) {
					return true, "made by " + c.FuncKey(h) + " with the length of the attribute list"
				}
			}
			return false, "the helper's list follows another argument"
		}
		return false, "no exit of the helper returns a list"
	}
	return false, "the list is re-sliced, appended to or chosen between (" + w.Name() + ")"
}
