package main

import (
	"go/constant"
	"go/token"
	"go/types"
	"sort"
	"strings"

	"golang.org/x/tools/go/ssa"
)

func init() {
	register(&Rule{Name: "EFFECT-WRITE", Floor: 3, Run: ruleEffectWrite,
		Doc: "file-mutating library calls occur only inside the native filesystem adapter; Filesystem.WriteFile is invoked only by the PEM export and by PutConfig; the export's file name is the configuration path up to its last dot plus .pem; PutConfig writes only for an alias it did not know; nothing reachable from the CLI deletes files"})
	register(&Rule{Name: "ABORT-BEFORE-WRITE", Floor: 3, Run: ruleAbortBeforeWrite,
		Doc: "opening the directory and planning cannot write (their call-graph closures contain no file mutation); a failed subject validation is an error of planning; the CLI reaches generation only after Open and planning succeeded"})
	register(&Rule{Name: "GUARD-CONSENT", Floor: 2, Run: ruleGuardConsent,
		Doc: "the CLI reaches BulkUpdate only when no planned change replaces an existing certificate, or after the user's answer, trimmed and lower-cased, equals y and reading it did not fail; otherwise the process exits without generating"})
	register(&Rule{Name: "GUARD-OPEN", Floor: 1, Run: ruleGuardOpen,
		Doc: "Open succeeds only when the consistency check holds; the check compares the number of entities reachable from the roots through subscriber lists with the number of entities"})
	register(&Rule{Name: "ORDER", Floor: 3, Run: ruleOrder, Fixture: "fixture.spawns",
		Doc: "BulkUpdate processes the change list in order and per change stores the configuration, generates and stores the artifact, in that order and for that change's alias; the module starts no goroutine and uses no channel (one schedule)"})
	register(&Rule{Name: "EFFECT-DET", Floor: 1, Run: ruleEffectDet,
		Doc: "the configuration hash is a deterministic function of the configuration: its call-graph closure reads no clock, no randomness and ranges over no map"})
}

var fileMutators = map[string]bool{
	"os.WriteFile": true, "os.Create": true, "os.OpenFile": true, "os.Remove": true, "os.RemoveAll": true, "os.Rename": true,
	"os.Mkdir": true, "os.MkdirAll": true, "os.MkdirTemp": true, "os.CreateTemp": true, "os.Truncate": true, "os.Chtimes": true, "os.Chmod": true, "os.Chown": true,
	"os.Symlink": true, "os.Link": true, "io/ioutil.WriteFile": true,
	"(*os.File).Write": true, "(*os.File).WriteString": true, "(*os.File).WriteAt": true, "(*os.File).Truncate": true,
}

// mutatorSites lists file-mutating library calls per module function.
func mutatorSites(c *Ctx) map[*ssa.Function][]ssa.CallInstruction {
	out := map[*ssa.Function][]ssa.CallInstruction{}
	for _, fn := range c.Funcs {
		for _, ci := range callsIn(fn) {
			if fileMutators[calleeFullName(ci)] {
				out[fn] = append(out[fn], ci)
			}
		}
	}
	return out
}

// fsIface: the module's filesystem abstraction (interface with WriteFile and DeleteFile).
func (c *Ctx) fsIface() *types.Named {
	return c.NamedType("generator/db/filesystem", "Filesystem")
}

func ruleEffectWrite(c *Ctx, r *Rep) {
	fsI := c.fsIface()
	if fsI == nil {
		r.Undecided("anchor:Filesystem", "", "interface not found")
		return
	}
	// where a write or removal through the os package lies behind a test of filepath.IsAbs, it is taken for the
	// relative name: the name is appended to the directory the run was given
	for _, fn := range c.Funcs {
		n := 0
		for _, ci := range callsIn(fn) {
			switch calleeFullName(ci) {
			case "os.WriteFile", "os.Remove", "os.RemoveAll", "os.Create", "os.OpenFile", "os.Rename", "os.Mkdir", "os.MkdirAll":
			default:
				continue
			}
			for _, g := range guardsOf(ci.Block()) {
				if call, ok := g.Cond.(*ssa.Call); ok && calleeFullName(call) == "path/filepath.IsAbs" {
					n++
					r.Check(!g.Truth, sprintf("relative-names-only|%s#%d", c.FuncKey(fn), n), c.Pos(ci.Pos()), "the os call is made for names that are not absolute", sprintf("made where IsAbs is %v", g.Truth))
				}
			}
		}
	}
	impls := c.implementations(fsI.Underlying().(*types.Interface))
	implMethods := map[*ssa.Function]bool{}
	for _, t := range impls {
		ms := c.Prog.MethodSets.MethodSet(t)
		for i := 0; i < ms.Len(); i++ {
			if f := c.Prog.MethodValue(ms.At(i)); f != nil && f.Synthetic == "" {
				implMethods[f] = true
			}
		}
	}
	sites := mutatorSites(c)
	for _, fn := range sortedFuncs(c, keysOfFuncMap(sites)) {
		for _, ci := range sites[fn] {
			r.Check(implMethods[fn], "mutating-call|"+c.FuncKey(fn)+"|"+calleeFullName(ci), c.Pos(ci.Pos()), "file mutation only inside an implementation of the Filesystem interface", c.FuncKey(fn))
		}
	}
	if len(sites) == 0 {
		r.Undecided("floor:mutating-calls", "", "no file-mutating call found at all")
	}
	// the functions that write or remove refuse a name for one reason only, that it is absolute: every other name the
	// database hands over (dots, spaces, any depth) names a file below the directory of the run. The conditions in such a
	// function and in the module functions it calls are tests of an error or of filepath.IsAbs.
	for _, fn := range sortedFuncs(c, keysOfFuncMap(sites)) {
		if !implMethods[fn] {
			continue
		}
		group := []*ssa.Function{fn}
		seenF := map[*ssa.Function]bool{fn: true}
		for i := 0; i < len(group) && i < 8; i++ {
			for _, ci := range callsIn(group[i]) {
				if h := ci.Common().StaticCallee(); h != nil && h.Blocks != nil && c.InModule(h) && !seenF[h] && fnPkgPath(h) == fnPkgPath(fn) {
					seenF[h] = true
					group = append(group, h)
				}
			}
		}
		k := 0
		for _, f := range group {
			for _, b := range f.Blocks {
				iff, ok := lastInstr(b).(*ssa.If)
				if !ok {
					continue
				}
				cond := iff.Cond
				if u, isNot := cond.(*ssa.UnOp); isNot && u.Op == token.NOT {
					cond = u.X
				}
				k++
				okCond, what := false, "another test"
				if x, _, isNilTest := nilTestOf(iff.Cond, true); isNilTest && isErrorType(x.Type()) {
					okCond, what = true, "an error test"
				}
				if call, isCall := cond.(*ssa.Call); isCall && calleeFullName(call) == "path/filepath.IsAbs" {
					okCond, what = true, "filepath.IsAbs"
				}
				r.Check(okCond, sprintf("refuses-only-absolute|%s#%d", c.FuncKey(fn), k), c.Pos(cond.Pos()), "on the way to the os call a name is refused only for being absolute (conditions are error tests or filepath.IsAbs)", what+" in "+c.FuncKey(f))
			}
		}
	}
	// a write replaces the file: os.WriteFile and os.Create truncate; an OpenFile that can write must say O_TRUNC
	// (a shorter new content must not leave the tail of the old one behind, e.g. an old key after the new one)
	for _, fn := range sortedFuncs(c, keysOfFuncMap(sites)) {
		for _, ci := range sites[fn] {
			if calleeFullName(ci) != "os.OpenFile" {
				continue
			}
			k, ok := ci.Common().Args[1].(*ssa.Const)
			if !ok || k.Value == nil {
				r.Undecided("shape:open-flags|"+c.FuncKey(fn), c.Pos(ci.Pos()), "the flags of os.OpenFile are not a constant")
				continue
			}
			flags := k.Int64()
			wr, rdwr, trunc, app := osConst(c, "O_WRONLY"), osConst(c, "O_RDWR"), osConst(c, "O_TRUNC"), osConst(c, "O_APPEND")
			writes := flags&wr != 0 || flags&rdwr != 0
			r.Check(!writes || (flags&trunc != 0 && flags&app == 0), "write-replaces-file|"+c.FuncKey(fn), c.Pos(ci.Pos()), "a file opened for writing is truncated (O_TRUNC, no O_APPEND)", sprintf("flags %#x", flags))
		}
	}
	// who invokes Filesystem.WriteFile / DeleteFile
	allowedWriters := map[string]string{
		"filesystem.FsDb.exportPemFile": "writes the artifact file of the entity",
		"filesystem.FsDb.PutConfig":     "writes the configuration of an alias added through the API",
	}
	for _, fn := range c.Funcs {
		for _, ci := range callsIn(fn) {
			cc := ci.Common()
			if !cc.IsInvoke() || !types.Identical(cc.Value.Type(), fsI) {
				continue
			}
			switch cc.Method.Name() {
			case "WriteFile":
				_, ok := allowedWriters[c.FuncKey(fn)]
				if ok {
					r.Ok("writer|"+c.FuncKey(fn), c.Pos(ci.Pos()), "Filesystem.WriteFile is invoked only by the PEM export and PutConfig", c.FuncKey(fn))
					checkWriteSite(c, r, fn, ci, nil)
					continue
				}
				// a helper that writes on behalf of one of them: every static caller chain ends in an allowed writer
				roots, only := writerRoots(c, fn, allowedWriters, 0)
				r.Check(only && len(roots) > 0, "writer|"+c.FuncKey(fn), c.Pos(ci.Pos()), "Filesystem.WriteFile is invoked only by the PEM export and PutConfig (or a helper only they call)", c.FuncKey(fn))
				if !only {
					continue
				}
				for _, root := range roots {
					for _, site := range callsIn(root) {
						if reachesStatically(c, site.Common().StaticCallee(), fn, 0) {
							checkWriteSite(c, r, root, ci, site)
						}
					}
				}
			case "DeleteFile":
				r.Bad("deleter|"+c.FuncKey(fn), c.Pos(ci.Pos()), "no module code deletes files", c.FuncKey(fn))
			}
		}
	}
	// nothing reachable from the CLI deletes files
	entries, _ := c.entryPoints()
	if cli := entries["cli.sign"]; cli != nil {
		reach := c.Graph().Reach(cli)
		bad := []string{}
		for f := range reach {
			for _, ci := range sites[f] {
				if strings.Contains(calleeFullName(ci), "Remove") {
					bad = append(bad, c.FuncKey(f))
				}
			}
		}
		r.Check(len(bad) == 0, "cli-never-deletes", c.FnPos(cli), "no os.Remove* reachable from the sign command", strings.Join(bad, ","))
	} else if c.Mod == modPath {
		r.Undecided("anchor:cli-sign", "", "sign closure not found")
	}
}

// checkWriteSite checks the write ci made by fn itself (site nil) or by a helper that fn calls at site.
func checkWriteSite(c *Ctx, r *Rep, fn *ssa.Function, ci ssa.CallInstruction, site ssa.CallInstruction) {
	pv := c.newProv()
	fk := c.FuncKey(fn)
	nameArg := ci.Common().Args[0]
	origins := func(v ssa.Value) []string {
		if site == nil {
			return pv.Origins(v)
		}
		var out []string
		pv.inFrames(fn, 3, nil, func(fr frame) {
			if fr.fn == ci.Parent() {
				out = pv.here(v)
			}
		})
		return out
	}
	if strings.HasSuffix(fk, "exportPemFile") || strings.Contains(strings.ToLower(fk), "export") {
		// name = <meta>.artifactFileName(): a method building configFileName[:LastIndex(configFileName, ".")] + ".pem"
		call, ok := nameArg.(*ssa.Call)
		if !ok || call.Call.StaticCallee() == nil {
			r.Bad("export-name|"+fk, c.Pos(ci.Pos()), "the artifact file name method", nameArg.String())
			return
		}
		nf := call.Call.StaticCallee()
		okShape := false
		why := ""
		for _, ret := range returnsOf(nf) {
			add, ok := retResults(ret)[0].(*ssa.BinOp)
			if !ok || add.Op != token.ADD {
				why = "not a concatenation"
				continue
			}
			k, ok := add.Y.(*ssa.Const)
			if !ok || k.Value == nil || constant.StringVal(k.Value) != ".pem" {
				why = "suffix is not the constant .pem"
				continue
			}
			sl, ok := add.X.(*ssa.Slice)
			if !ok || sl.Low != nil {
				why = "prefix is not name[:i]"
				continue
			}
			li, ok := sl.High.(*ssa.Call)
			if !ok || calleeFullName(li) != "strings.LastIndex" {
				why = "cut position is not strings.LastIndex"
				continue
			}
			dot, ok := li.Call.Args[1].(*ssa.Const)
			so, lo := pv.Origins(sl.X), pv.Origins(li.Call.Args[0])
			if ok && dot.Value != nil && constant.StringVal(dot.Value) == "." && len(so) == 1 && len(lo) == 1 && so[0] == lo[0] && strings.HasSuffix(so[0], ".configFileName") {
				okShape = true
			} else {
				why = "not cut at the last dot of the configuration file name: " + strings.Join(so, ",")
			}
		}
		r.Check(okShape, "export-name|"+fk, c.FnPos(nf), "<config path without extension>.pem", why)
		// for the entity's own metadata
		mo := pv.Origins(call.Call.Args[0])
		ok2 := len(mo) >= 1
		for _, x := range mo {
			if !strings.Contains(x, ".fsMetadata[]") {
				ok2 = false
			}
		}
		r.Check(ok2, "export-name-of-entity|"+fk, c.Pos(ci.Pos()), "the file name of the metadata stored for this alias", strings.Join(mo, ","))
		return
	}
	// PutConfig: only for an alias that was not known
	guarded := false
	gs := guardsOf(ci.Block())
	if site != nil {
		gs = append(gs, guardsOf(site.Block())...)
	}
	for _, g := range gs {
		cond, truth := g.Cond, g.Truth
		if u, isNot := cond.(*ssa.UnOp); isNot && u.Op == token.NOT {
			cond, truth = u.X, !truth
		}
		if ex, ok := cond.(*ssa.Extract); ok && ex.Index == 1 && !truth {
			if lk, ok := ex.Tuple.(*ssa.Lookup); ok && lk.CommaOk {
				guarded = true
			}
		}
		// the lookup wrapped in a predicate of one expression: func (db) hasX(k) bool { _, ok := db.m[k]; return ok }
		if call, ok := cond.(*ssa.Call); ok && !truth {
			if h := call.Call.StaticCallee(); h != nil && h.Blocks != nil && len(h.Blocks) == 1 && c.InModule(h) {
				if ret, ok := lastInstr(h.Blocks[0]).(*ssa.Return); ok && len(ret.Results) == 1 {
					if ex, ok := ret.Results[0].(*ssa.Extract); ok && ex.Index == 1 {
						if lk, ok := ex.Tuple.(*ssa.Lookup); ok && lk.CommaOk {
							guarded = true
						}
					}
				}
			}
		}
	}
	r.Check(guarded, "putconfig-only-new|"+fk, c.Pos(ci.Pos()), "the configuration file is written only when the alias did not exist (existing configuration files are never rewritten)", sprintf("%v", guarded))
	o := origins(nameArg)
	okName := len(o) == 1 && strings.HasPrefix(o[0], "+(P(") && strings.Contains(o[0], "K(\".yaml\")")
	r.Check(okName, "putconfig-name|"+fk, c.Pos(ci.Pos()), "alias + \".yaml\"", strings.Join(o, ","))
}

func ruleAbortBeforeWrite(c *Ctx, r *Rep) {
	g := c.Graph()
	sites := mutatorSites(c)
	fsI := c.fsIface()
	entries, missing := c.entryPoints()
	for _, m := range missing {
		r.Undecided("anchor:entry|"+m, "", "entry point not found")
	}
	for _, name := range []string{"filesystem.FsDb.Open", "db.PlanBulkUpdate"} {
		e := entries[name]
		if e == nil {
			continue
		}
		reach := g.Reach(e)
		var bad []string
		for f := range reach {
			for _, ci := range sites[f] {
				bad = append(bad, c.FuncKey(f)+" calls "+calleeFullName(ci))
			}
			if fsI != nil {
				for _, ci := range callsIn(f) {
					cc := ci.Common()
					if cc.IsInvoke() && types.Identical(cc.Value.Type(), fsI) && (cc.Method.Name() == "WriteFile" || cc.Method.Name() == "DeleteFile") {
						bad = append(bad, c.FuncKey(f)+" invokes Filesystem."+cc.Method.Name())
					}
				}
			}
		}
		sort.Strings(bad)
		r.Check(len(bad) == 0, "closure-write-free|"+name, c.FnPos(e), sprintf("no file mutation among the %d functions reachable", len(reach)), strings.Join(head(bad, 3), "; "))
	}
	// a failed validation is an error
	for fn, cis := range c.funcsCalling(c.modPkg("generator/config") + ".Validate") {
		for _, ci := range cis {
			call := ci.(*ssa.Call)
			var region *ssa.BasicBlock
			for _, ref := range *call.Referrers() {
				if iff, ok := ref.(*ssa.If); ok {
					region = iff.Block().Succs[1] // Validate false
				}
				if un, ok := ref.(*ssa.UnOp); ok && un.Op == token.NOT {
					for _, r2 := range *un.Referrers() {
						if iff, ok := r2.(*ssa.If); ok {
							region = iff.Block().Succs[0]
						}
					}
				}
			}
			ok := region != nil
			if ok {
				for b := range regionBlocks(region) {
					ret, isRet := b.Instrs[len(b.Instrs)-1].(*ssa.Return)
					if !isRet || !returnsNonNilError(ret) {
						ok = false
					}
				}
			}
			r.Check(ok, "validation-failure-is-error|"+c.FuncKey(fn), c.Pos(ci.Pos()), "a subject that does not validate makes the function return an error", sprintf("%v", ok))
			if ok {
				chainUp(c, r, "validate", fn, map[*ssa.Function]bool{}, 0)
			}
		}
	}
	// CLI order: Open ok -> plan ok -> BulkUpdate
	cli := entries["cli.sign"]
	if cli == nil {
		return
	}
	host, open, plan, bulk := c.cliSteps()
	if open == nil || plan == nil || bulk == nil {
		r.Undecided("shape:cli-sign", c.FnPos(cli), "Open / PlanBulkUpdate / BulkUpdate calls not all found")
		return
	}
	// nothing ends the command successfully before the directory was opened (opening is what refuses a broken
	// hierarchy): every normal return and every os.Exit(0) of the sequencing function lies behind the open step, and so
	// does every call of a helper that can end the process with status 0
	{
		var early []string
		exitsZero := func(f *ssa.Function) bool {
			if f == nil || !c.InModule(f) || f.Blocks == nil {
				return false
			}
			for _, ci := range callsIn(f) {
				if calleeFullName(ci) == "os.Exit" {
					if k, ok := ci.Common().Args[0].(*ssa.Const); ok && k.Value != nil && k.Int64() == 0 {
						return true
					}
				}
			}
			return false
		}
		for _, b := range host.Blocks {
			for _, ins := range b.Instrs {
				switch x := ins.(type) {
				case *ssa.Return:
					if len(b.Preds) == 0 && b.Index != 0 {
						continue // the recover block
					}
					if !instrDominates(open.site, x) {
						early = append(early, "a return at "+c.Pos(x.Pos()))
					}
				case ssa.CallInstruction:
					if x == ssa.CallInstruction(open.site) {
						continue
					}
					zero := false
					if calleeFullName(x) == "os.Exit" {
						if k, ok := x.Common().Args[0].(*ssa.Const); ok && k.Value != nil && k.Int64() == 0 {
							zero = true
						}
					}
					if g := x.Common().StaticCallee(); g != nil && g != open.owner && exitsZero(g) {
						zero = true
					}
					if zero && !instrDominates(open.site, x) {
						early = append(early, "exit status 0 at "+c.Pos(x.Pos()))
					}
				}
			}
		}
		r.Check(len(early) == 0, "cli-opens-first", c.Pos(open.site.Pos()), "the command cannot end successfully without having opened the directory", strings.Join(early, "; "))
	}
	for _, st := range []struct {
		name string
		this *cliStep
		next *cliStep
	}{{"open", open, plan}, {"plan", plan, bulk}} {
		e, _ := errValueOf(st.this.call)
		ok := false
		how := "error discarded"
		if e != nil {
			ok, how = propagates(c, e, st.this.call)
		}
		// the next step lies on the err == nil side
		if ok {
			entry, _ := nonNilRegion(e)
			if st.this.owner == st.next.owner && entry != nil && entry.Dominates(st.next.call.Block()) {
				ok, how = false, "the next step is on the error branch"
			}
			dominated := instrDominates(st.this.site, st.next.site)
			if st.this.site == st.next.site && st.this.owner == st.next.owner {
				dominated = instrDominates(st.this.call, st.next.call) // both steps inside one run function
			}
			if !dominated {
				ok, how = false, "the next step is not dominated by this one"
			}
			if st.this.owner != host {
				// inside a helper: the error must end the process there (a helper that returns the error is followed by
				// the chain rules, not by this one)
				if !strings.Contains(how, "exit") && !strings.Contains(how, "Exit") {
					for _, ci := range callsIn(st.this.owner) {
						if calleeFullName(ci) == "os.Exit" {
							how += " (helper ends the process)"
						}
					}
				}
			}
		}
		r.Check(ok, "cli-stops-on-error|"+st.name, c.Pos(st.this.call.Pos()), "an error ends the process with a non-zero status before the next step", how)
	}
}

func ruleGuardConsent(c *Ctx, r *Rep) {
	entries, _ := c.entryPoints()
	cli := entries["cli.sign"]
	if cli == nil {
		r.Undecided("anchor:cli-sign", "", "sign closure not found")
		return
	}
	pv := c.newProv()
	host, planStep, bulkStep := c.cliPlanHost()
	if bulkStep == nil || planStep == nil {
		r.Undecided("shape:cli-sign", c.FnPos(cli), "BulkUpdate / PlanBulkUpdate call not found")
		return
	}
	// the sequencing function may be a run function below the command's closure: what it is handed (the reader the
	// answer is read from) is what its single caller passes
	if host != cli {
		var sites []ssa.CallInstruction
		for _, f := range c.Funcs {
			for _, ci := range callsIn(f) {
				if ci.Common().StaticCallee() == host {
					sites = append(sites, ci)
				}
			}
		}
		if len(sites) == 1 {
			bind := map[*ssa.Parameter][]string{}
			for j, prm := range host.Params {
				if j < len(sites[0].Common().Args) {
					bind[prm] = uniq(pv.origins(sites[0].Common().Args[j], 0))
				}
			}
			pv.binds = append(pv.binds, bind)
			defer func() { pv.binds = pv.binds[:len(pv.binds)-1] }()
		}
	}
	// from here on "cli" is the function that sequences the steps, "bulk" the call in it that leads to generation
	cli = host
	bulk := bulkStep.site
	listO := bulkStep.originsIn(pv, host, bulkStep.call.Call.Args[1])
	planO := planStep.originsIn(pv, host, planStep.call)
	r.Check(len(listO) == 1 && len(planO) == 1 && listO[0] == planO[0]+"#0", "generates-the-plan", c.Pos(bulk.Pos()), "BulkUpdate executes exactly the planned change list", strings.Join(listO, ","))
	if len(planO) != 1 {
		return
	}
	planned := planO[0] + "#0"
	wantAnswer := "strings.ToLower(strings.TrimSpace((*bufio.Reader).ReadString(bufio.NewReader(G(os.Stdin))|K(10))#0))"
	B := bulk.Block()

	// One "way into generation" = the branch facts known on it. Each way must be the no-overwrite way (no planned change is
	// a replacement) or the consent way (the answer y was read without error). The facts may be tested in place, through
	// boolean helpers, or inside a gate function that ends the process otherwise.
	type verdict struct {
		kind string // "flag" | "consent" | ""
		ok   bool
		why  string
		pos  token.Pos
	}
	var classify func(facts []guard) verdict
	classify = func(facts []guard) verdict {
		var flagFact *guard
		answerYes, readOK := false, false
		var answerPos token.Pos
		var helperFlag *guard
		helperFlagOK, helperFlagWhy := false, ""
		for i := range facts {
			g := facts[i]
			switch cond := g.Cond.(type) {
			case *ssa.Phi:
				if b, ok := cond.Type().Underlying().(*types.Basic); ok && b.Kind() == types.Bool && !g.Truth && flagFact == nil {
					flagFact = &facts[i]
				}
			case *ssa.BinOp:
				if k, isK := cond.Y.(*ssa.Const); isK && k.Value != nil && k.Value.Kind() == constant.String && constant.StringVal(k.Value) == "y" {
					o := uniq(pv.origins(cond.X, 0))
					if len(o) == 1 && o[0] == wantAnswer && ((cond.Op == token.EQL && g.Truth) || (cond.Op == token.NEQ && !g.Truth)) {
						answerYes = true
						answerPos = g.If.Pos()
					}
				}
				if k, isK := cond.Y.(*ssa.Const); isK && k.Value == nil {
					eo := uniq(pv.origins(cond.X, 0))
					if len(eo) == 1 && strings.HasSuffix(eo[0], "ReadString(bufio.NewReader(G(os.Stdin))|K(10))#1") && ((cond.Op == token.EQL && g.Truth) || (cond.Op == token.NEQ && !g.Truth)) {
						readOK = true
					}
				}
				// len(<list of the planned replacements>) == 0
				if k, isK := cond.Y.(*ssa.Const); isK && k.Value != nil && k.Value.Kind() == constant.Int && k.Int64() == 0 {
					if lc, ok := cond.X.(*ssa.Call); ok {
						if bi, isB := lc.Call.Value.(*ssa.Builtin); isB && bi.Name() == "len" {
							empty := (cond.Op == token.EQL && g.Truth) || ((cond.Op == token.NEQ || cond.Op == token.GTR) && !g.Truth)
							if empty {
								for _, o := range uniq(pv.origins(lc.Call.Args[0], 0)) {
									if ok2, why := replacementListOrigin(c, pv, o, planned); ok2 || why != "" {
										helperFlag, helperFlagOK, helperFlagWhy = &facts[i], ok2, why
									}
								}
							}
						}
					}
				}
			case *ssa.Call:
				f := cond.Call.StaticCallee()
				if f == nil || !c.InModule(f) || f.Blocks == nil || f.Signature.Results().Len() != 1 {
					continue
				}
				if b, ok := f.Signature.Results().At(0).Type().Underlying().(*types.Basic); !ok || b.Kind() != types.Bool {
					continue
				}
				bind := map[*ssa.Parameter][]string{}
				for j, prm := range f.Params {
					if j < len(cond.Call.Args) {
						bind[prm] = uniq(pv.origins(cond.Call.Args[j], 0))
					}
				}
				pv.binds = append(pv.binds, bind)
				if g.Truth && consentHelper(c, pv, f, wantAnswer) {
					answerYes, readOK = true, true
					answerPos = cond.Pos()
				} else if !g.Truth {
					if ok, why, is := overwriteFlagHelper(c, pv, f, planned); is {
						helperFlag, helperFlagOK, helperFlagWhy = &facts[i], ok, why
					}
				}
				pv.binds = pv.binds[:len(pv.binds)-1]
			}
		}
		switch {
		case answerYes || readOK:
			return verdict{"consent", answerYes && readOK, sprintf("answer is y: %v, read error excluded: %v", answerYes, readOK), answerPos}
		case helperFlag != nil:
			return verdict{"flag", helperFlagOK, helperFlagWhy, helperFlag.If.Pos()}
		case flagFact != nil:
			cond := flagFact.Cond.(*ssa.Phi)
			okFlag := true
			why := ""
			for i, e := range flattenPhi(cond) {
				k, isK := e.val.(*ssa.Const)
				if !isK {
					okFlag, why = false, "flag is not built from constants"
					continue
				}
				if constBool(k) {
					under := false
					for _, g := range append(guardsOf(e.from), edgeGuard(e.from, e.to)...) {
						bin, isBin := g.Cond.(*ssa.BinOp)
						if !isBin || bin.Op != token.EQL || !g.Truth {
							continue
						}
						kk, isKK := bin.Y.(*ssa.Const)
						if !isKK || !c.isModNamed("ChangeType")(kk.Type()) {
							continue
						}
						name := c.constName(kk.Type(), kk.Value)
						o := uniq(pv.origins(bin.X, 0))
						if strings.HasSuffix(name, "ChangeReplace") && len(o) == 1 && strings.HasPrefix(o[0], planned) && strings.HasSuffix(o[0], ".Change") {
							under = true
						}
					}
					if !under {
						okFlag, why = false, sprintf("flag set to true (edge %d) outside `change.Change == ChangeReplace` over the planned list", i)
					}
				}
			}
			// and the converse: a planned replacement cannot leave the flag false. Every way into a join of the flag that
			// comes from behind `change.Change == ChangeReplace` brings the constant true, or the flag itself where it is
			// known to be true already
			nest := map[*ssa.Phi]bool{}
			var collect func(p *ssa.Phi)
			collect = func(p *ssa.Phi) {
				if nest[p] {
					return
				}
				nest[p] = true
				for _, e := range p.Edges {
					if inner, ok := e.(*ssa.Phi); ok {
						collect(inner)
					}
				}
			}
			collect(cond)
			underReplace := func(gs []guard) bool {
				for _, g := range gs {
					bin, isBin := g.Cond.(*ssa.BinOp)
					if !isBin || bin.Op != token.EQL || !g.Truth {
						continue
					}
					kk, isKK := bin.Y.(*ssa.Const)
					if !isKK || !c.isModNamed("ChangeType")(kk.Type()) {
						continue
					}
					if strings.HasSuffix(c.constName(kk.Type(), kk.Value), "ChangeReplace") {
						return true
					}
				}
				return false
			}
			nUnder := 0
			for p := range nest {
				for i, e := range p.Edges {
					from := p.Block().Preds[i]
					gs := append(guardsOf(from), edgeGuard(from, p.Block())...)
					if !underReplace(gs) {
						continue
					}
					nUnder++
					if k, isK := e.(*ssa.Const); isK {
						if !constBool(k) {
							okFlag, why = false, "the flag is set to false behind `change.Change == ChangeReplace`"
						}
						continue
					}
					knownTrue := false
					if inner, isPhi := e.(*ssa.Phi); isPhi && nest[inner] {
						for _, g := range gs {
							if gp, ok := g.Cond.(*ssa.Phi); ok && nest[gp] && g.Truth {
								knownTrue = true
							}
						}
						// a join that itself lies behind the test: its own ways in are checked by this loop
						if !knownTrue && inner != p && underReplace(guardsOf(inner.Block())) {
							knownTrue = true
						}
					}
					if !knownTrue {
						okFlag, why = false, "a planned replacement can pass without the flag becoming true"
					}
				}
			}
			if nUnder == 0 {
				okFlag, why = false, "no way into the flag comes from behind `change.Change == ChangeReplace`"
			}
			return verdict{"flag", okFlag, why, flagFact.If.Pos()}
		}
		return verdict{}
	}

	// the ways: edges into the generating block, or - when a gate function that can end the process dominates it - the
	// gate's normal returns
	type way struct {
		facts []guard
		desc  string
		pos   token.Pos
	}
	var ways []way
	var refusals []struct {
		from *ssa.BasicBlock
		pos  token.Pos
	}
	var gate *ssa.Call
	for _, ci := range callsIn(cli) {
		call, ok := ci.(*ssa.Call)
		if !ok || !instrDominates(call, bulk) {
			continue
		}
		g := call.Call.StaticCallee()
		if g == nil || !c.InModule(g) || g.Blocks == nil || g.Pkg != cli.Pkg || g.Signature.Results().Len() != 0 {
			continue
		}
		exits := false
		for _, ci2 := range callsIn(g) {
			if calleeFullName(ci2) == "os.Exit" {
				exits = true
			}
		}
		if exits {
			gate = call
		}
	}
	if gate != nil {
		g := gate.Call.StaticCallee()
		bind := map[*ssa.Parameter][]string{}
		for j, prm := range g.Params {
			if j < len(gate.Call.Args) {
				bind[prm] = pv.Origins(gate.Call.Args[j])
			}
		}
		pv.binds = append(pv.binds, bind)
		defer func() { pv.binds = pv.binds[:len(pv.binds)-1] }()
		for _, ret := range returnsOf(g) {
			// a return behind os.Exit is not a way out
			live := false
			for _, p := range ret.Block().Preds {
				for _, sx := range succs(p) {
					if sx == ret.Block() {
						live = true
					}
				}
			}
			if len(ret.Block().Preds) == 0 {
				live = true
			}
			if !live {
				continue
			}
			if len(ret.Block().Preds) <= 1 {
				ways = append(ways, way{guardsOf(ret.Block()), "return of " + c.FuncKey(g), ret.Pos()})
				continue
			}
			for _, p := range ret.Block().Preds {
				isLive := false
				for _, sx := range succs(p) {
					if sx == ret.Block() {
						isLive = true
					}
				}
				if isLive {
					ways = append(ways, way{append(edgeGuard(p, ret.Block()), guardsOf(p)...), sprintf("return of %s from block %d", c.FuncKey(g), p.Index), ret.Pos()})
				}
			}
		}
	} else {
		for _, p := range B.Preds {
			live := false
			for _, sx := range succs(p) { // edges after os.Exit are not real
				if sx == B {
					live = true
				}
			}
			if !live {
				continue
			}
			ways = append(ways, way{append(edgeGuard(p, B), guardsOf(p)...), sprintf("block%d", p.Index), bulk.Pos()})
		}
	}
	nFlag, nConsent := 0, 0
	for _, wy := range ways {
		v := classify(wy.facts)
		switch v.kind {
		case "consent":
			nConsent++
			r.Check(v.ok, "consent-edge", c.Pos(v.pos), "answer == \"y\" after TrimSpace and ToLower, read from os.Stdin without error", v.why)
		case "flag":
			nFlag++
			r.Check(v.ok, "no-overwrite-edge", c.Pos(v.pos), "taken only when no planned change has Change == ChangeReplace", v.why)
		default:
			r.Bad("entry-edge|"+wy.desc, c.Pos(wy.pos), "every way into generation is the no-overwrite way or the consent way", "a way ("+wy.desc+") under neither condition")
		}
	}
	r.Check(nFlag == 1 && nConsent == 1, "entry-edges", c.Pos(bulk.Pos()), "exactly two ways into generation: nothing is overwritten, or the user consented", sprintf("%d flag edges, %d consent edges", nFlag, nConsent))

	// a refusal ends the process: from the refusing side of the consent test generation cannot be reached
	host = cli
	target := B
	if gate != nil {
		host = gate.Call.StaticCallee()
		target = nil
	}
	for _, b := range host.Blocks {
		iff, ok := lastInstr(b).(*ssa.If)
		if !ok {
			continue
		}
		var refuse *ssa.BasicBlock
		var pos token.Pos
		cond := iff.Cond
		neg := false
		for {
			if u, isU := cond.(*ssa.UnOp); isU && u.Op == token.NOT {
				cond, neg = u.X, !neg
				continue
			}
			break
		}
		if call, isCall := cond.(*ssa.Call); isCall {
			if f := call.Call.StaticCallee(); f != nil && c.InModule(f) && f.Blocks != nil && f.Signature.Results().Len() == 1 {
				bind := map[*ssa.Parameter][]string{}
				for j, prm := range f.Params {
					if j < len(call.Call.Args) {
						bind[prm] = uniq(pv.origins(call.Call.Args[j], 0))
					}
				}
				pv.binds = append(pv.binds, bind)
				is := consentHelper(c, pv, f, wantAnswer)
				pv.binds = pv.binds[:len(pv.binds)-1]
				if is {
					refuse, pos = b.Succs[1], call.Pos()
					if neg {
						refuse = b.Succs[0]
					}
				}
			}
		} else if bin, isBin := cond.(*ssa.BinOp); isBin {
			if k, isK := bin.Y.(*ssa.Const); isK && k.Value != nil && k.Value.Kind() == constant.String && constant.StringVal(k.Value) == "y" {
				refuse, pos = b.Succs[0], iff.Pos()
				if (bin.Op == token.EQL) != neg {
					refuse = b.Succs[1]
				}
			}
		}
		if refuse == nil {
			continue
		}
		reach := reachableFrom(refuse, nil)
		reaches := false
		if target != nil {
			reaches = reach[target]
		} else {
			for blk := range reach {
				if _, isRet := lastInstr(blk).(*ssa.Return); isRet {
					reaches = true // the gate returns normally after a refusal
				}
			}
		}
		r.Check(!reaches, "refusal-exits", c.Pos(pos), "any other answer ends the process (os.Exit) without generating", sprintf("generation reachable: %v", reaches))
	}
	_ = refusals
}

// replacementListOrigin: the origin names a list built by a module helper from the planned change list that contains
// an entry only for changes with Change == ChangeReplace.
func replacementListOrigin(c *Ctx, pv *prov, origin, planned string) (bool, string) {
	// shape: pkg.helper(<planned>)  (helpers with loops are kept opaque by the provenance engine)
	i := strings.Index(origin, "(")
	if i < 0 || !strings.HasSuffix(origin, ")") {
		return false, ""
	}
	name, arg := origin[:i], origin[i+1:len(origin)-1]
	if arg != planned {
		return false, ""
	}
	var f *ssa.Function
	for _, g := range c.Funcs {
		if shortName(calleeFullNameOfFunc(g)) == name {
			f = g
		}
	}
	if f == nil || len(f.Params) != 1 {
		return false, ""
	}
	// every append to the returned slice is under `<element of the parameter>.Change == ChangeReplace`
	n := 0
	for _, ci := range callsIn(f) {
		bi, ok := ci.Common().Value.(*ssa.Builtin)
		if !ok || bi.Name() != "append" {
			continue
		}
		n++
		under := false
		for _, g := range guardsOf(ci.Block()) {
			bin, isBin := g.Cond.(*ssa.BinOp)
			if !isBin {
				continue
			}
			kk, isKK := bin.Y.(*ssa.Const)
			if !isKK || !c.isModNamed("ChangeType")(kk.Type()) {
				continue
			}
			isReplace := (bin.Op == token.EQL && g.Truth) || (bin.Op == token.NEQ && !g.Truth)
			o := uniq(pv.origins(bin.X, 0))
			if isReplace && strings.HasSuffix(c.constName(kk.Type(), kk.Value), "ChangeReplace") && len(o) == 1 && strings.HasPrefix(o[0], "P("+c.FuncKey(f)+"."+f.Params[0].Name()+")") && strings.HasSuffix(o[0], ".Change") {
				under = true
			}
		}
		if !under {
			return false, "the list of overwritten entities gets an entry outside `change.Change == ChangeReplace`"
		}
	}
	if n == 0 {
		return false, "the list of overwritten entities is never filled"
	}
	return true, ""
}

func calleeFullNameOfFunc(f *ssa.Function) string {
	if f.Pkg != nil && f.Signature.Recv() == nil {
		return f.Pkg.Pkg.Path() + "." + f.Name()
	}
	return f.String()
}

func lastInstr(b *ssa.BasicBlock) ssa.Instruction {
	if len(b.Instrs) == 0 {
		return nil
	}
	return b.Instrs[len(b.Instrs)-1]
}

type phiIn struct {
	val      ssa.Value
	from, to *ssa.BasicBlock
}

// flattenPhi expands nested phis into (value, edge) pairs.
func flattenPhi(p *ssa.Phi) []phiIn {
	var out []phiIn
	seen := map[*ssa.Phi]bool{}
	var walk func(p *ssa.Phi)
	walk = func(p *ssa.Phi) {
		if seen[p] {
			return
		}
		seen[p] = true
		for i, e := range p.Edges {
			if inner, ok := e.(*ssa.Phi); ok {
				walk(inner)
				continue
			}
			out = append(out, phiIn{e, p.Block().Preds[i], p.Block()})
		}
	}
	walk(p)
	return out
}

// edgeGuard: the condition known on the edge from -> to itself.
func edgeGuard(from, to *ssa.BasicBlock) []guard {
	if len(from.Instrs) == 0 {
		return nil
	}
	iff, ok := from.Instrs[len(from.Instrs)-1].(*ssa.If)
	if !ok || from.Succs[0] == from.Succs[1] {
		return nil
	}
	if from.Succs[0] == to {
		return []guard{{iff, iff.Cond, true}}
	}
	if from.Succs[1] == to {
		return []guard{{iff, iff.Cond, false}}
	}
	return nil
}

func ruleGuardOpen(c *Ctx, r *Rep) {
	entries, _ := c.entryPoints()
	open := entries["filesystem.FsDb.Open"]
	if open == nil {
		r.Undecided("anchor:Open", "", "not found")
		return
	}
	// the consistency function: func(Database) bool called by Open
	var cons *ssa.Function
	var consCall *ssa.Call
	for _, ci := range callsIn(open) {
		f := ci.Common().StaticCallee()
		if f == nil || !c.InModule(f) {
			continue
		}
		res := f.Signature.Results()
		if res.Len() == 1 {
			if b, ok := res.At(0).Type().Underlying().(*types.Basic); ok && b.Kind() == types.Bool {
				cons, consCall = f, ci.(*ssa.Call)
			}
		}
	}
	if cons == nil {
		r.Bad("open-checks-consistency", c.FnPos(open), "Open calls a consistency check", "none")
		return
	}
	for _, ret := range returnsOf(open) {
		if returnsNonNilError(ret) {
			continue
		}
		ok := false
		for _, g := range guardsOf(ret.Block()) {
			if g.Cond == ssa.Value(consCall) && g.Truth {
				ok = true
			}
		}
		r.Check(ok, "success-only-if-consistent|"+c.FuncKey(open), c.Pos(ret.Pos()), "return nil is dominated by the true edge of the consistency check", sprintf("%v", ok))
	}
	// the check: visited == NumEntities()
	pv := c.newProv()
	ck := c.FuncKey(cons)
	for _, ret := range returnsOf(cons) {
		bin, ok := retResults(ret)[0].(*ssa.BinOp)
		if !ok || bin.Op != token.EQL {
			r.Bad("consistency-result|"+ck, c.Pos(ret.Pos()), "visited == NumEntities()", retResults(ret)[0].String())
			continue
		}
		o := pv.Origins(bin.Y)
		okN := len(o) == 1 && strings.HasPrefix(o[0], "I:db.Database.NumEntities(")
		// the counter: a phi incremented by one per loop iteration
		okCnt := false
		if phi, isPhi := bin.X.(*ssa.Phi); isPhi {
			for _, e := range phi.Edges {
				if add, isAdd := e.(*ssa.BinOp); isAdd && add.Op == token.ADD && add.X == ssa.Value(phi) {
					if k, isK := add.Y.(*ssa.Const); isK && k.Int64() == 1 {
						okCnt = true
					}
				}
			}
		}
		// or the length of the work list once the loop over it has ended: the loop is left only when the index has
		// reached that length, so every entry was visited (WORKLIST decides start, step and condition of that loop)
		if !okCnt {
			if list, isLen := lenOperand(bin.X); isLen {
				if phi, isPhi := list.(*ssa.Phi); isPhi {
					if body, isHead := naturalLoops(cons)[phi.Block()]; isHead && !body[ret.Block()] {
						if iff, ok := lastInstr(phi.Block()).(*ssa.If); ok {
							if cmp, ok := iff.Cond.(*ssa.BinOp); ok && cmp.Op == token.LSS {
								if of, isLen2 := lenOperand(cmp.Y); isLen2 && of == ssa.Value(phi) {
									okCnt = true
								}
							}
						}
					}
				}
			}
		}
		r.Check(okN && okCnt, "consistency-result|"+ck, c.Pos(ret.Pos()), "number of work-list entries visited == NumEntities()", bin.X.String()+" == "+strings.Join(o, ","))
	}
	var feeds []string
	for _, ci := range callsIn(cons) {
		if bi, ok := ci.Common().Value.(*ssa.Builtin); ok && bi.Name() == "append" && isStringSlice(ci.Common().Args[0].Type()) {
			for _, x := range pv.Origins(ci.Common().Args[1]) {
				feeds = append(feeds, strings.TrimPrefix(x, "elem:"))
			}
		}
	}
	okFeeds := len(feeds) >= 2
	for _, f := range feeds {
		if !(strings.HasPrefix(f, "I:db.Database.RootEntities(") || strings.HasPrefix(f, "I:db.Database.GetSubscribers(")) {
			okFeeds = false
		}
	}
	r.Check(okFeeds, "consistency-worklist|"+ck, c.FnPos(cons), "the work list is fed by RootEntities() and GetSubscribers(entry) only", strings.Join(feeds, " , "))
}

func ruleOrder(c *Ctx, r *Rep) {
	// single schedule
	n := 0
	for _, fn := range c.Funcs {
		for _, b := range fn.Blocks {
			for _, ins := range b.Instrs {
				switch x := ins.(type) {
				case *ssa.Go:
					n++
					r.Bad("goroutine|"+c.FuncKey(fn), c.Pos(x.Pos()), "no goroutine: the rules assume one schedule", "go statement")
				case *ssa.Send, *ssa.Select:
					n++
					r.Bad("channel|"+c.FuncKey(fn), c.Pos(ins.Pos()), "no channel operation", "send/select")
				case *ssa.UnOp:
					if x.Op == token.ARROW {
						n++
						r.Bad("channel|"+c.FuncKey(fn), c.Pos(x.Pos()), "no channel operation", "receive")
					}
				}
			}
		}
	}
	if c.Mod != modPath {
		return
	}
	r.Check(n == 0, "single-schedule", "", "no go statement and no channel operation in module code", sprintf("%d", n))
	entries, _ := c.entryPoints()
	bulk := entries["db.BulkUpdate"]
	if bulk == nil {
		r.Undecided("anchor:BulkUpdate", "", "not found")
		return
	}
	pv := c.newProv()
	bk := c.FuncKey(bulk)
	// the three steps, directly in the loop or inside a module helper called from it
	type step struct {
		site  ssa.CallInstruction // the call in BulkUpdate (the step itself or the helper containing it)
		call  ssa.CallInstruction // the step
		owner *ssa.Function
	}
	find := func(match func(ci ssa.CallInstruction) bool) *step {
		for _, ci := range callsIn(bulk) {
			if match(ci) {
				return &step{ci, ci, bulk}
			}
		}
		for _, ci := range callsIn(bulk) {
			f := ci.Common().StaticCallee()
			if f == nil || !c.InModule(f) || f.Blocks == nil {
				continue
			}
			for _, ci2 := range callsIn(f) {
				if match(ci2) {
					return &step{ci, ci2, f}
				}
			}
		}
		return nil
	}
	put := find(func(ci ssa.CallInstruction) bool {
		return ci.Common().IsInvoke() && ci.Common().Method.Name() == "PutConfig"
	})
	putArt := find(func(ci ssa.CallInstruction) bool {
		return ci.Common().IsInvoke() && ci.Common().Method.Name() == "PutBuildArtifact"
	})
	genFn := c.Func("generator/db", "GenerateArtifacts")
	gen := find(func(ci ssa.CallInstruction) bool { return genFn != nil && ci.Common().StaticCallee() == genFn })
	if put == nil || gen == nil || putArt == nil {
		r.Undecided("shape:"+bk, c.FnPos(bulk), "PutConfig / GenerateArtifacts / PutBuildArtifact not all found in BulkUpdate or a helper it calls")
		return
	}
	before := func(a, b *step) bool {
		if a.site != b.site {
			return instrDominates(a.site, b.site)
		}
		return a.owner == b.owner && instrDominates(a.call, b.call)
	}
	r.Check(before(put, gen) && before(gen, putArt), "per-change-order|"+bk, c.Pos(gen.site.Pos()), "store configuration, then generate, then store the artifact", "dominance checked")
	// the plan is carried out in one pass: the planner lists an issuer before what it signs, so the list's order is
	// the order of generation. Two passes (or a pass per kind) generate a new subject before its replaced issuer.
	{
		depth := 0
		for _, body := range naturalLoops(bulk) {
			if body[gen.site.Block()] {
				depth++
			}
		}
		r.Check(depth == 1, "single-pass|"+bk, c.Pos(gen.site.Pos()), "the generation step sits in exactly one loop of BulkUpdate (one pass over the plan, in the plan's order)", sprintf("nested in %d loops", depth))
	}
	// the plan keeps the order in which the planner appended to it: nothing sorts, reverses or otherwise rearranges a
	// list of changes anywhere in the module (creations before replacements puts a new subject in front of its issuer)
	{
		isChangeList := func(t types.Type) bool {
			sl, ok := t.Underlying().(*types.Slice)
			return ok && strings.HasSuffix(typeShort(c, sl.Elem()), "db.Change")
		}
		var bad []string
		for _, f := range c.Funcs {
			for _, ci := range callsIn(f) {
				name := calleeFullName(ci)
				if !(strings.HasPrefix(name, "sort.") || strings.HasPrefix(name, "slices.Sort") || strings.HasPrefix(name, "slices.Reverse")) {
					continue
				}
				for _, a := range ci.Common().Args {
					if isChangeList(unwrapIface(a).Type()) {
						bad = append(bad, name+" at "+c.Pos(ci.Pos()))
					}
				}
			}
		}
		r.Check(len(bad) == 0, "plan-order-kept", c.FnPos(bulk), "no list of planned changes is sorted or rearranged", strings.Join(bad, "; "))
	}
	// all three for the same change of the list, in list order
	elem := "P(" + bk + "." + bulk.Params[1].Name() + ")[]"
	aliasOrigin := func(st *step, argIdx int) []string {
		if st.owner == bulk {
			return pv.Origins(st.call.Common().Args[argIdx])
		}
		// inside a helper: bind its parameters to the arguments at the call in BulkUpdate
		bind := map[*ssa.Parameter][]string{}
		for i, prm := range st.owner.Params {
			if i < len(st.site.Common().Args) {
				bind[prm] = pv.Origins(st.site.Common().Args[i])
			}
		}
		pv.binds = append(pv.binds, bind)
		defer func() { pv.binds = pv.binds[:len(pv.binds)-1] }()
		return uniq(pv.origins(st.call.Common().Args[argIdx], 0))
	}
	for name, sa := range map[string]struct {
		st  *step
		idx int
	}{"PutConfig": {put, 0}, "GenerateArtifacts": {gen, 1}, "PutBuildArtifact": {putArt, 0}} {
		expectSet(r, "same-change|"+name, c.Pos(sa.st.call.Pos()), aliasOrigin(sa.st, sa.idx), "for the alias of the change at hand", elem+".Alias")
	}
	expectSet(r, "effective-config-stored|"+bk, c.Pos(put.call.Pos()), aliasOrigin(put, 1), "the planned effective configuration is what gets stored (and hashed)", elem+".EffectiveConfig")
	// every planned change is generated: with the kind of the change at hand set to any kind the planner assigns,
	// each test on the way to the generation step comes out the way that leads there
	if ct := c.NamedType("generator/db", "ChangeType"); ct != nil {
		leavesFor := func(k int64) map[ssa.Value]int64 {
			l := map[ssa.Value]int64{}
			for _, b := range bulk.Blocks {
				for _, ins := range b.Instrs {
					v, ok := ins.(ssa.Value)
					if !ok || !types.Identical(v.Type(), ct) {
						continue
					}
					if o := pv.Origins(v); len(o) == 1 && o[0] == elem+".Change" {
						l[v] = k
					}
				}
			}
			return l
		}
		assigned := map[int64]bool{} // the kinds the planner gives to the entries it appends
		var kindsOf func(v ssa.Value, depth int)
		kindsOf = func(v ssa.Value, depth int) {
			if depth > 4 {
				return
			}
			switch x := v.(type) {
			case *ssa.Const:
				if x.Value != nil {
					assigned[x.Int64()] = true
				}
			case *ssa.Phi:
				for _, e := range x.Edges {
					kindsOf(e, depth+1)
				}
			case *ssa.Call:
				// the kind chosen by a helper: the constants it can answer
				if h := x.Call.StaticCallee(); h != nil && c.InModule(h) && h.Blocks != nil {
					for _, ret := range returnsOf(h) {
						for _, res := range retResults(ret) {
							if types.Identical(res.Type(), ct) {
								kindsOf(res, depth+1)
							}
						}
					}
				}
			case *ssa.Extract:
				if call, ok := x.Tuple.(*ssa.Call); ok {
					if h := call.Call.StaticCallee(); h != nil && c.InModule(h) && h.Blocks != nil {
						for _, ret := range returnsOf(h) {
							if rr := retResults(ret); x.Index < len(rr) {
								kindsOf(rr[x.Index], depth+1)
							}
						}
					}
				}
			}
		}
		for _, f := range c.Funcs {
			for _, fs := range storesIntoType(c, f, "db.Change") {
				if fs.field == "Change" {
					kindsOf(fs.val(), 0)
				}
			}
		}
		if len(assigned) == 0 {
			r.Undecided("shape:planned-kind-generated|"+bk, c.FnPos(bulk), "no constant kind found that the planner assigns to a change")
		}
		for _, kc := range constsOfType(c, ct) {
			if !assigned[kc.val] {
				continue
			}
			leaves := leavesFor(kc.val)
			bad := ""
			for _, g := range guardsOf(gen.site.Block()) {
				cond, truth := g.Cond, g.Truth
				if u, ok := cond.(*ssa.UnOp); ok && u.Op == token.NOT {
					cond, truth = u.X, !truth
				}
				bin, ok := cond.(*ssa.BinOp)
				if !ok {
					continue
				}
				a, ok1 := evalIntExpr(c, bin.X, leaves, nil, 0)
				b, ok2 := evalIntExpr(c, bin.Y, leaves, nil, 0)
				if !ok1 || !ok2 {
					continue // not a test of the kind
				}
				var res bool
				switch bin.Op {
				case token.EQL:
					res = a == b
				case token.NEQ:
					res = a != b
				case token.LSS:
					res = a < b
				case token.LEQ:
					res = a <= b
				case token.GTR:
					res = a > b
				case token.GEQ:
					res = a >= b
				default:
					continue
				}
				if res != truth {
					bad = "the test at " + c.Pos(g.If.Pos()) + " turns it away"
				}
			}
			r.Check(bad == "", "planned-kind-generated|"+kc.name, c.Pos(gen.site.Pos()), "a change of kind "+kc.name+" reaches the generation step", bad)
		}
	}
	// ascending iteration: the index phi is incremented by one
	asc := false
	for _, b := range bulk.Blocks {
		for _, ins := range b.Instrs {
			if phi, ok := ins.(*ssa.Phi); ok {
				for _, e := range phi.Edges {
					if add, ok := e.(*ssa.BinOp); ok && add.Op == token.ADD && add.X == ssa.Value(phi) {
						if k, ok := add.Y.(*ssa.Const); ok && k.Int64() == 1 {
							asc = true
						}
					}
				}
			}
		}
	}
	r.Check(asc, "list-order|"+bk, c.FnPos(bulk), "the change list is processed front to back (issuers were planned before their subjects)", sprintf("%v", asc))
	// artifact stored = artifact generated
	okA := false
	if u, ok := putArt.call.Common().Args[1].(*ssa.UnOp); ok && u.Op == token.MUL {
		if ex, ok := u.X.(*ssa.Extract); ok && ex.Index == 0 && ex.Tuple == ssa.Value(gen.call.(*ssa.Call)) {
			okA = true
		}
	}
	r.Check(okA, "stores-generated-artifact|"+bk, c.Pos(putArt.call.Pos()), "the artifact stored is the one just generated", putArt.call.Common().Args[1].String())
}

func ruleEffectDet(c *Ctx, r *Rep) {
	h := c.Method("generator/config", "CertificateContent", "HashSum")
	if h == nil {
		r.Undecided("anchor:HashSum", "", "not found")
		return
	}
	reach := c.Graph().Reach(h)
	var bad []string
	for f := range reach {
		if strings.HasSuffix(fnPkgPath(f), "/logging") {
			continue // log output does not feed the hash
		}
		for _, b := range f.Blocks {
			for _, ins := range b.Instrs {
				switch x := ins.(type) {
				case *ssa.Range:
					if _, isMap := x.X.Type().Underlying().(*types.Map); isMap {
						bad = append(bad, c.FuncKey(f)+" ranges over a map at "+c.Pos(x.Pos()))
					}
				case ssa.CallInstruction:
					name := calleeFullName(x)
					if name == "time.Now" || strings.HasPrefix(name, "math/rand.") || strings.HasPrefix(name, "crypto/rand.") || strings.HasPrefix(name, "(*math/rand.Rand).") {
						bad = append(bad, c.FuncKey(f)+" calls "+name)
					}
				case *ssa.Go:
					bad = append(bad, c.FuncKey(f)+" starts a goroutine")
				}
			}
		}
	}
	sort.Strings(bad)
	r.Check(len(bad) == 0, "hash-deterministic|"+c.FuncKey(h), c.FnPos(h), sprintf("no clock, randomness or map iteration among the %d functions the hash can reach", len(reach)), strings.Join(bad, "; "))
	// the hash is over the merged configuration stored for the alias: the export reads configs[alias]
	for fn, cis := range c.funcsCalling("(" + c.modPkg("generator/config") + ".CertificateContent).HashSum") {
		if !strings.Contains(fn.Pkg.Pkg.Path(), "filesystem") {
			continue
		}
		pv := c.newProv()
		for _, ci := range cis {
			o := pv.Origins(ci.Common().Args[0])
			// the configuration may arrive as a parameter of a rendering helper: what its callers hand in
			if len(o) == 1 {
				for i, prm := range fn.Params {
					if !strings.HasPrefix(o[0], "P("+c.FuncKey(fn)+"."+prm.Name()+")") {
						continue
					}
					rest := strings.TrimPrefix(o[0], "P("+c.FuncKey(fn)+"."+prm.Name()+")")
					var via []string
					for _, caller := range c.Funcs {
						for _, site := range callsIn(caller) {
							if site.Common().StaticCallee() == fn && i < len(site.Common().Args) {
								for _, ao := range pv.Origins(site.Common().Args[i]) {
									via = append(via, ao+rest)
								}
							}
						}
					}
					if len(via) > 0 {
						o = uniq(via)
					}
				}
			}
			ok := len(o) == 1 && strings.Contains(o[0], ".configs[]")
			r.Check(ok, "hash-of-stored-config|"+c.FuncKey(fn), c.Pos(ci.Pos()), "the hash written next to the certificate is that of the configuration stored for the alias (the merged one, after PutConfig)", strings.Join(o, ","))
		}
	}
}

// consentHelper: a boolean function that returns true only for the answer y read from os.Stdin without error.
func consentHelper(c *Ctx, pv *prov, f *ssa.Function, wantAnswer string) bool {
	sawYes := false
	for _, ret := range returnsOf(f) {
		for _, pe := range phiEdges(retResults(ret)[0], ret.Block()) {
			switch x := pe.Val.(type) {
			case *ssa.Const:
				if constBool(x) {
					return false // true without asking
				}
			case *ssa.BinOp:
				k, isK := x.Y.(*ssa.Const)
				if x.Op != token.EQL || !isK || k.Value == nil || k.Value.Kind() != constant.String || constant.StringVal(k.Value) != "y" {
					return false
				}
				o := uniq(pv.origins(x.X, 0))
				if len(o) != 1 || o[0] != wantAnswer {
					return false
				}
				// only after a successful read
				readOK := false
				for _, g := range guardsOf(pe.From) {
					bin, ok := g.Cond.(*ssa.BinOp)
					if !ok {
						continue
					}
					if kk, isKK := bin.Y.(*ssa.Const); isKK && kk.Value == nil {
						eo := uniq(pv.origins(bin.X, 0))
						if len(eo) == 1 && strings.HasSuffix(eo[0], "ReadString(bufio.NewReader(G(os.Stdin))|K(10))#1") && ((bin.Op == token.EQL && g.Truth) || (bin.Op == token.NEQ && !g.Truth)) {
							readOK = true
						}
					}
				}
				if !readOK {
					return false
				}
				sawYes = true
			default:
				return false
			}
		}
	}
	return sawYes
}

// overwriteFlagHelper: a boolean function over the planned list that returns a flag built from constants, set to true
// only under `change.Change == ChangeReplace` for an element of that list. is reports whether f has that general shape
// (returns a phi of constants); ok whether every true is under the condition.
func overwriteFlagHelper(c *Ctx, pv *prov, f *ssa.Function, listOrigin string) (ok bool, why string, is bool) {
	for _, ret := range returnsOf(f) {
		phi, isPhi := retResults(ret)[0].(*ssa.Phi)
		if !isPhi {
			if k, isK := retResults(ret)[0].(*ssa.Const); isK && !constBool(k) {
				continue
			}
			return false, "", false
		}
		is = true
		ok = true
		for i, e := range flattenPhi(phi) {
			k, isK := e.val.(*ssa.Const)
			if !isK {
				return false, "flag is not built from constants", true
			}
			if !constBool(k) {
				continue
			}
			under := false
			for _, g := range append(guardsOf(e.from), edgeGuard(e.from, e.to)...) {
				bin, isBin := g.Cond.(*ssa.BinOp)
				if !isBin {
					continue
				}
				kk, isKK := bin.Y.(*ssa.Const)
				if !isKK || !c.isModNamed("ChangeType")(kk.Type()) {
					continue
				}
				name := c.constName(kk.Type(), kk.Value)
				o := uniq(pv.origins(bin.X, 0))
				isReplace := (bin.Op == token.EQL && g.Truth) || (bin.Op == token.NEQ && !g.Truth)
				if isReplace && strings.HasSuffix(name, "ChangeReplace") && len(o) == 1 && strings.HasPrefix(o[0], listOrigin) && strings.HasSuffix(o[0], ".Change") {
					under = true
				}
			}
			if !under {
				ok, why = false, sprintf("flag set to true (edge %d) outside `change.Change == ChangeReplace` over the planned list", i)
			}
		}
	}
	return ok, why, is
}

// osConst: the value of an integer constant of package os on the analysed platform.
func osConst(c *Ctx, name string) int64 {
	for _, p := range c.Prog.AllPackages() {
		if p.Pkg.Path() != "os" {
			continue
		}
		if obj, ok := p.Pkg.Scope().Lookup(name).(*types.Const); ok {
			if v, exact := constant.Int64Val(obj.Val()); exact {
				return v
			}
		}
	}
	return 0
}

// writerRoots: the allowed writers fn writes on behalf of, and whether every static caller chain of fn ends in one.
func writerRoots(c *Ctx, fn *ssa.Function, allowed map[string]string, depth int) ([]*ssa.Function, bool) {
	if _, ok := allowed[c.FuncKey(fn)]; ok {
		return []*ssa.Function{fn}, true
	}
	if depth > 2 {
		return nil, false
	}
	var roots []*ssa.Function
	n := 0
	for _, caller := range c.Funcs {
		for _, ci := range callsIn(caller) {
			if ci.Common().StaticCallee() != fn {
				continue
			}
			n++
			rs, only := writerRoots(c, caller, allowed, depth+1)
			if !only {
				return nil, false
			}
			roots = append(roots, rs...)
		}
	}
	if n == 0 {
		return nil, false // not called statically: it may be reached in ways the rule does not see
	}
	return roots, true
}

func reachesStatically(c *Ctx, from, to *ssa.Function, depth int) bool {
	if from == nil || depth > 2 {
		return false
	}
	if from == to {
		return true
	}
	for _, ci := range callsIn(from) {
		if g := ci.Common().StaticCallee(); g != nil && c.InModule(g) && g.Blocks != nil && reachesStatically(c, g, to, depth+1) {
			return true
		}
	}
	return false
}

// cliStep: one of the three steps of the sign command as seen from the function that sequences them.
type cliStep struct {
	site  *ssa.Call     // the call in the sequencing function (the step itself, or the helper that contains it)
	call  *ssa.Call     // the step: Open / PlanBulkUpdate / BulkUpdate
	owner *ssa.Function // the function that contains call
}

// cliSteps finds the function that sequences open, plan and generate: the sign closure itself, or - when the closure only
// hands over to a run function - the deepest function from which the three steps are reached through different calls.
func (c *Ctx) cliSteps() (host *ssa.Function, open, plan, bulk *cliStep) {
	entries, _ := c.entryPoints()
	cli := entries["cli.sign"]
	if cli == nil {
		return nil, nil, nil, nil
	}
	match := func(ci ssa.CallInstruction) string {
		cc := ci.Common()
		switch {
		case cc.IsInvoke() && cc.Method.Name() == "Open":
			return "open"
		case cc.StaticCallee() != nil && cc.StaticCallee() == entries["db.PlanBulkUpdate"]:
			return "plan"
		case cc.StaticCallee() != nil && cc.StaticCallee() == entries["db.BulkUpdate"]:
			return "bulk"
		}
		return ""
	}
	// steps reachable from a call site (the site itself, or inside the module function it calls, three levels)
	var within func(f *ssa.Function, d int, out map[string]*cliStep)
	within = func(f *ssa.Function, d int, out map[string]*cliStep) {
		if f == nil || d > 3 || !c.InModule(f) || f.Blocks == nil {
			return
		}
		for _, ci := range callsIn(f) {
			call, ok := ci.(*ssa.Call)
			if !ok {
				continue
			}
			if k := match(ci); k != "" {
				if out[k] == nil {
					out[k] = &cliStep{nil, call, f}
				}
				continue
			}
			within(ci.Common().StaticCallee(), d+1, out)
		}
	}
	cur := cli
	for depth := 0; depth < 4; depth++ {
		found := map[string]*cliStep{}
		var single *ssa.Function // a callee through which all three are reached
		for _, ci := range callsIn(cur) {
			call, ok := ci.(*ssa.Call)
			if !ok {
				continue
			}
			if k := match(ci); k != "" {
				if found[k] == nil {
					found[k] = &cliStep{call, call, cur}
				}
				continue
			}
			sub := map[string]*cliStep{}
			within(ci.Common().StaticCallee(), 1, sub)
			if len(sub) == 3 {
				single = ci.Common().StaticCallee()
			}
			for k, st := range sub {
				if found[k] == nil {
					st.site = call
					found[k] = st
				}
			}
		}
		if single != nil && found["open"] != nil && found["open"].site == found["bulk"].site {
			cur = single
			continue
		}
		return cur, found["open"], found["plan"], found["bulk"]
	}
	return cur, nil, nil, nil
}

// cliPlanHost: the function that sequences planning and generation. It is the host of cliSteps unless that reaches
// both through one call (the command's Run function opens the database and hands the rest to a run function): then the
// callee, as long as both steps are still reached through one call of it.
func (c *Ctx) cliPlanHost() (host *ssa.Function, plan, bulk *cliStep) {
	host, _, plan, bulk = c.cliSteps()
	entries, _ := c.entryPoints()
	kind := func(ci ssa.CallInstruction) string {
		cc := ci.Common()
		switch {
		case cc.StaticCallee() != nil && cc.StaticCallee() == entries["db.PlanBulkUpdate"]:
			return "plan"
		case cc.StaticCallee() != nil && cc.StaticCallee() == entries["db.BulkUpdate"]:
			return "bulk"
		}
		return ""
	}
	var within func(f *ssa.Function, d int, out map[string]*cliStep)
	within = func(f *ssa.Function, d int, out map[string]*cliStep) {
		if f == nil || d > 3 || !c.InModule(f) || f.Blocks == nil {
			return
		}
		for _, ci := range callsIn(f) {
			call, ok := ci.(*ssa.Call)
			if !ok {
				continue
			}
			if k := kind(ci); k != "" {
				if out[k] == nil {
					out[k] = &cliStep{nil, call, f}
				}
				continue
			}
			within(ci.Common().StaticCallee(), d+1, out)
		}
	}
	for depth := 0; depth < 3; depth++ {
		if host == nil || plan == nil || bulk == nil || plan.site != bulk.site || plan.site == plan.call {
			return
		}
		cur := plan.site.Common().StaticCallee()
		if cur == nil || cur.Blocks == nil {
			return
		}
		found := map[string]*cliStep{}
		for _, ci := range callsIn(cur) {
			call, ok := ci.(*ssa.Call)
			if !ok {
				continue
			}
			if k := kind(ci); k != "" {
				if found[k] == nil {
					found[k] = &cliStep{call, call, cur}
				}
				continue
			}
			sub := map[string]*cliStep{}
			within(ci.Common().StaticCallee(), 1, sub)
			for k, st := range sub {
				if found[k] == nil {
					st.site = call
					found[k] = st
				}
			}
		}
		if found["plan"] == nil || found["bulk"] == nil {
			return
		}
		host, plan, bulk = cur, found["plan"], found["bulk"]
	}
	return
}

// inFrame evaluates f with the provenance bindings of st's owner as reached from host (identity when the step sits in host).
func (st *cliStep) originsIn(pv *prov, host *ssa.Function, v ssa.Value) []string {
	if st.owner == host {
		return pv.Origins(v)
	}
	var out []string
	pv.inFrames(host, 4, nil, func(fr frame) {
		if fr.fn == st.owner && out == nil {
			out = pv.here(v)
		}
	})
	return out
}
