package main

import (
	"go/token"
	"go/types"
	"sort"
	"strings"

	"golang.org/x/tools/go/ssa"
)

func init() {
	register(&Rule{Name: "ENC-LOOP", Floor: 3, Run: ruleEncLoop, Fixture: "fixture.encodeSome",
		Doc: "every loop of the certificate package that encodes the elements of a list (it calls asn1.Marshal*, a marshal method or the partial struct marshaller in its body) encodes on every iteration and is left early only by returning an error: no break or continue lets an element or a struct member go unencoded"})
}

// natural loops: header -> set of body blocks (header included)
func naturalLoops(fn *ssa.Function) map[*ssa.BasicBlock]map[*ssa.BasicBlock]bool {
	out := map[*ssa.BasicBlock]map[*ssa.BasicBlock]bool{}
	for _, b := range fn.Blocks {
		for _, h := range b.Succs {
			if !h.Dominates(b) {
				continue
			}
			body := out[h]
			if body == nil {
				body = map[*ssa.BasicBlock]bool{h: true}
				out[h] = body
			}
			stack := []*ssa.BasicBlock{b}
			for len(stack) > 0 {
				x := stack[len(stack)-1]
				stack = stack[:len(stack)-1]
				if body[x] {
					continue
				}
				body[x] = true
				stack = append(stack, x.Preds...)
			}
		}
	}
	return out
}

// isEncodeCall: a call that produces DER for a value.
func isEncodeCall(c *Ctx, ci ssa.CallInstruction) bool {
	cc := ci.Common()
	if cc.IsInvoke() {
		return cc.Method.Name() == "marshal"
	}
	name := calleeFullName(ci)
	if name == "encoding/asn1.Marshal" || name == "encoding/asn1.MarshalWithParams" {
		return true
	}
	if f := cc.StaticCallee(); f != nil && c.InModule(f) {
		n := strings.ToLower(f.Name())
		if strings.HasPrefix(n, "marshal") || strings.HasPrefix(n, "partialmarshal") {
			return true
		}
	}
	return false
}

func ruleEncLoop(c *Ctx, r *Rep) {
	var fns []*ssa.Function
	for _, fn := range c.Funcs {
		if fn.Blocks == nil || fn.Pkg == nil {
			continue
		}
		if c.Mod == modPath && !strings.HasSuffix(fn.Pkg.Pkg.Path(), "generator/cert") {
			continue
		}
		fns = append(fns, fn)
	}
	sort.Slice(fns, func(i, j int) bool { return c.FuncKey(fns[i]) < c.FuncKey(fns[j]) })
	for _, fn := range fns {
		fk := c.FuncKey(fn)
		loops := naturalLoops(fn)
		var heads []*ssa.BasicBlock
		for h := range loops {
			heads = append(heads, h)
		}
		sort.Slice(heads, func(i, j int) bool { return heads[i].Index < heads[j].Index })
		for li, h := range heads {
			body := loops[h]
			enc := map[*ssa.BasicBlock]bool{}
			for b := range body {
				for _, ins := range b.Instrs {
					if ci, ok := ins.(ssa.CallInstruction); ok && isEncodeCall(c, ci) {
						enc[b] = true
					}
				}
			}
			if len(enc) == 0 {
				continue
			}
			key := sprintf("%s|loop%d", fk, li)
			pos := c.FnPos(fn)
			if len(h.Instrs) > 0 {
				for _, ins := range h.Instrs {
					if ins.Pos().IsValid() {
						pos = c.Pos(ins.Pos())
						break
					}
				}
			}
			// (1) early exits: edges leaving the loop from a block other than the header must lead to an error return
			var bad []string
			for b := range body {
				if b == h {
					continue
				}
				for _, s := range b.Succs {
					if body[s] {
						continue
					}
					if !onlyErrorReturns(s, map[*ssa.BasicBlock]bool{}) {
						bad = append(bad, sprintf("block %d leaves the loop without an error (break)", b.Index))
					}
				}
				if len(b.Instrs) > 0 {
					if ret, ok := b.Instrs[len(b.Instrs)-1].(*ssa.Return); ok && !returnsNonNilError(ret) {
						bad = append(bad, sprintf("block %d returns from inside the loop without an error", b.Index))
					}
				}
			}
			// (2) every iteration encodes: from the header's in-loop successors the back edge cannot be reached around the encode calls
			seen := map[*ssa.BasicBlock]bool{}
			var stack []*ssa.BasicBlock
			for _, s := range h.Succs {
				if body[s] && s != h {
					stack = append(stack, s)
				}
			}
			skips := false
			for len(stack) > 0 {
				x := stack[len(stack)-1]
				stack = stack[:len(stack)-1]
				if seen[x] || enc[x] {
					continue
				}
				seen[x] = true
				for _, s := range x.Succs {
					if s == h {
						skips = true
					}
					if body[s] && s != h {
						stack = append(stack, s)
					}
				}
			}
			if skips {
				bad = append(bad, "an iteration can go back to the loop head without encoding (continue)")
			}
			sort.Strings(bad)
			r.Check(len(bad) == 0, "encodes-every-element|"+key, pos, "each iteration encodes its element; the loop is left early only with an error", strings.Join(uniq(bad), "; "))
		}
	}
}

// onlyErrorReturns: every path from b ends in a return of a non-nil error (or a panic).
func onlyErrorReturns(b *ssa.BasicBlock, seen map[*ssa.BasicBlock]bool) bool {
	if seen[b] {
		return true
	}
	seen[b] = true
	if len(b.Instrs) == 0 {
		return false
	}
	switch x := b.Instrs[len(b.Instrs)-1].(type) {
	case *ssa.Return:
		return returnsNonNilError(x)
	case *ssa.Panic:
		return true
	}
	if len(b.Succs) == 0 {
		return false
	}
	for _, s := range b.Succs {
		if !onlyErrorReturns(s, seen) {
			return false
		}
	}
	return true
}

func init() {
	register(&Rule{Name: "ENC-GATE", Floor: 4, Run: ruleEncGate, Fixture: "fixture.gatedField",
		Doc: "in the extension constructors and marshal methods of the certificate package, a value derived from one parameter (or one field of the receiver) is put into the encoded structure under conditions on that same parameter or field only: no other parameter or field decides whether it is encoded, unless the alternative is an error"})
}

// paramPaths extracts the access paths below parameters mentioned in an origin string: P(fn.p).A.B -> "p.A.B".
func paramPaths(fk, origin string) []string {
	var out []string
	pre := "P(" + fk + "."
	for i := 0; i < len(origin); {
		j := strings.Index(origin[i:], pre)
		if j < 0 {
			break
		}
		j += i + len(pre)
		k := j
		for k < len(origin) && origin[k] != ')' {
			k++
		}
		path := origin[j:k]
		k++
		// following .Field selectors (and [] element steps)
		for k < len(origin) {
			if origin[k] == '.' {
				m := k + 1
				for m < len(origin) && (origin[m] == '_' || origin[m] >= '0' && origin[m] <= '9' || origin[m] >= 'A' && origin[m] <= 'Z' || origin[m] >= 'a' && origin[m] <= 'z') {
					m++
				}
				if m == k+1 {
					break
				}
				path += origin[k:m]
				k = m
			} else if strings.HasPrefix(origin[k:], "[]") {
				k += 2
			} else if strings.HasPrefix(origin[k:], "[:]") {
				k += 3
			} else {
				break
			}
		}
		out = append(out, path)
		i = k
	}
	return out
}

func pathsRelated(a, b string) bool {
	return a == b || strings.HasPrefix(a, b+".") || strings.HasPrefix(b, a+".")
}

func ruleEncGate(c *Ctx, r *Rep) {
	pv := c.newProv()
	var fns []*ssa.Function
	for _, fn := range c.Funcs {
		if fn.Blocks == nil || fn.Pkg == nil || fn.Parent() != nil {
			continue
		}
		if c.Mod == modPath {
			if !strings.HasSuffix(fn.Pkg.Pkg.Path(), "generator/cert") {
				continue
			}
			isCtor := false
			res := fn.Signature.Results()
			for i := 0; i < res.Len(); i++ {
				if strings.HasSuffix(typeShort(c, res.At(i).Type()), "pkix.Extension") {
					isCtor = true
				}
			}
			if fn.Name() == "marshal" {
				isCtor = true
			}
			if !isCtor {
				continue
			}
		} else if fn.Name() != "gatedField" {
			continue
		}
		fns = append(fns, fn)
	}
	sort.Slice(fns, func(i, j int) bool { return c.FuncKey(fns[i]) < c.FuncKey(fns[j]) })
	var leaves func(v ssa.Value, d int) []string
	leaves = func(v ssa.Value, d int) []string {
		if d > 6 {
			return nil
		}
		switch x := v.(type) {
		case *ssa.BinOp:
			return append(leaves(x.X, d+1), leaves(x.Y, d+1)...)
		case *ssa.UnOp:
			if x.Op.String() == "!" {
				return leaves(x.X, d+1)
			}
		case *ssa.Phi:
			var out []string
			for _, e := range x.Edges {
				out = append(out, leaves(e, d+1)...)
			}
			return out
		}
		return pv.Origins(v)
	}
	for _, fn := range fns {
		fk := c.FuncKey(fn)
		var bad []string
		nStores := 0
		loops := naturalLoops(fn)
		for _, b := range fn.Blocks {
			gs := guardsOf(b)
			if len(gs) == 0 {
				continue
			}
			for _, ins := range b.Instrs {
				var val ssa.Value
				switch x := ins.(type) {
				case *ssa.Store:
					val = x.Val
				default:
					continue
				}
				var vpaths []string
				for _, o := range pv.Origins(val) {
					vpaths = append(vpaths, paramPaths(fk, o)...)
				}
				vpaths = uniq(vpaths)
				if len(vpaths) == 0 {
					continue
				}
				nStores++
				for _, g := range gs {
					if body := loops[g.If.Block()]; body != nil && !body[b] {
						continue // the exit condition of a loop that has run to its end
					}
					var gpaths []string
					for _, l := range leaves(g.Cond, 0) {
						gpaths = append(gpaths, paramPaths(fk, l)...)
					}
					gpaths = uniq(gpaths)
					if len(gpaths) == 0 {
						continue
					}
					related := false
					for _, gp := range gpaths {
						for _, vp := range vpaths {
							if pathsRelated(gp, vp) {
								related = true
							}
						}
					}
					if related {
						continue
					}
					// the other branch: an error is fine (the whole extension is refused)
					other := g.If.Block().Succs[1]
					if !g.Truth {
						other = g.If.Block().Succs[0]
					}
					if onlyErrorReturns(other, map[*ssa.BasicBlock]bool{}) {
						continue
					}
					bad = append(bad, sprintf("%s: %s is encoded only under a condition on %s", c.Pos(ins.Pos()), strings.Join(vpaths, ","), strings.Join(gpaths, ",")))
				}
			}
		}
		r.Check(len(bad) == 0, "own-condition-only|"+fk, c.FnPos(fn), "what is encoded of a parameter depends on that parameter only", strings.Join(head(uniq(bad), 3), "; "))
	}
}

func init() {
	register(&Rule{Name: "DER-RAW", Floor: 0, Run: ruleDerRaw, Fixture: "fixture.rawFromInput",
		Doc: "bytes that encoding/asn1 emits verbatim (RawValue.FullBytes, RawContent fields) are always the output of an encoder (asn1.Marshal / MarshalWithParams) or asn1.NullBytes, never bytes taken from input: everything else in a certificate is encoded from typed values, so the result is well-formed DER whatever the configuration says"})
}

func ruleDerRaw(c *Ctx, r *Rep) {
	pv := c.newProv()
	var fns []*ssa.Function
	fns = append(fns, c.Funcs...)
	sort.Slice(fns, func(i, j int) bool { return c.FuncKey(fns[i]) < c.FuncKey(fns[j]) })
	for _, fn := range fns {
		if fn.Blocks == nil {
			continue
		}
		n := 0
		for _, b := range fn.Blocks {
			for _, ins := range b.Instrs {
				st, ok := ins.(*ssa.Store)
				if !ok {
					continue
				}
				fa, ok := st.Addr.(*ssa.FieldAddr)
				if !ok {
					continue
				}
				f := fieldOfAddr(fa)
				verbatim := strings.HasSuffix(typeShort(c, f.Type()), "asn1.RawContent") ||
					(f.Name() == "FullBytes" && strings.HasSuffix(ownerName(c, fa.X.Type()), "asn1.RawValue"))
				if !verbatim {
					continue
				}
				o := pv.Origins(st.Val)
				okAll := len(o) > 0
				for _, x := range o {
					switch {
					case strings.HasPrefix(x, "encoding/asn1.Marshal(") && strings.HasSuffix(x, ")#0"),
						strings.HasPrefix(x, "encoding/asn1.MarshalWithParams(") && strings.HasSuffix(x, ")#0"),
						x == "G(encoding/asn1.NullBytes)", x == "K(nil)":
					default:
						okAll = false
					}
				}
				n++
				r.Check(okAll, sprintf("verbatim-bytes-encoded|%s|%s#%d", c.FuncKey(fn), f.Name(), n), c.Pos(st.Pos()), "asn1.Marshal output or asn1.NullBytes", strings.Join(o, " , "))
			}
		}
	}
	// the general-name kinds (string and array types with a marshal method): what marshal hands back is the encoder's
	// output, not a tag and a length byte written by hand (a length of 128 and more needs the long form)
	if gn := c.NamedType("generator/cert", "GeneralName"); gn != nil {
		if iface, ok := gn.Underlying().(*types.Interface); ok {
			for _, t := range c.implementations(iface) {
				nt, ok := t.(*types.Named)
				if !ok {
					continue
				}
				if _, isStruct := nt.Underlying().(*types.Struct); isStruct {
					continue
				}
				m := c.methodOf(nt, "marshal")
				if m == nil || m.Blocks == nil {
					continue
				}
				k := 0
				for _, ret := range returnsOf(m) {
					res := retResults(ret)
					if len(res) != 2 {
						continue
					}
					if kc, isK := res[0].(*ssa.Const); isK && kc.Value == nil {
						continue
					}
					k++
					o := pv.Origins(res[0])
					okAll := len(o) > 0
					for _, x := range o {
						if !(strings.HasPrefix(x, "encoding/asn1.Marshal(") || strings.HasPrefix(x, "encoding/asn1.MarshalWithParams(")) {
							okAll = false
						}
					}
					r.Check(okAll, sprintf("name-bytes-encoded|%s#%d", nt.Obj().Name(), k), c.Pos(ret.Pos()), "the bytes of a general name are the output of asn1.Marshal", strings.Join(head(o, 2), " , "))
				}
			}
		}
	}
}

func init() {
	register(&Rule{Name: "LINT-NILRESULT", Floor: 1, Run: ruleNilResult, Fixture: "fixture.useMaybeNil",
		Doc: "a module function that can answer (nil, nil) - no value and no error - has its value tested against nil before a method is called on it: directly at the call site, or, when the value is put into a struct field or a list that another module function receives, where that field or the list's elements are used"})
}

// maybeNilFuncs: module functions returning (interface-or-pointer, …, error) with a return whose first result and error are both nil.
func maybeNilFuncs(c *Ctx) map[*ssa.Function]bool {
	out := map[*ssa.Function]bool{}
	for _, f := range c.Funcs {
		res := f.Signature.Results()
		if res.Len() < 2 || !isErrorType(res.At(res.Len()-1).Type()) {
			continue
		}
		switch res.At(0).Type().Underlying().(type) {
		case *types.Interface, *types.Pointer:
		default:
			continue
		}
		for _, ret := range returnsOf(f) {
			rr := retResults(ret)
			for _, pe := range phiEdges(rr[0], ret.Block()) {
				k, ok := pe.Val.(*ssa.Const)
				if !ok || k.Value != nil {
					continue
				}
				// error nil on the same path
				for _, pe2 := range phiEdges(rr[len(rr)-1], ret.Block()) {
					if k2, ok := pe2.Val.(*ssa.Const); ok && k2.Value == nil && (pe2.From == pe.From || pe2.From == nil || pe.From == nil) {
						out[f] = true
					}
				}
			}
		}
	}
	return out
}

func ruleNilResult(c *Ctx, r *Rep) {
	srcs := maybeNilFuncs(c)
	nilTested := func(v ssa.Value) bool {
		if v.Referrers() == nil {
			return false
		}
		for _, u := range *v.Referrers() {
			if bin, ok := u.(*ssa.BinOp); ok && (bin.Op == token.EQL || bin.Op == token.NEQ) {
				if k, ok := bin.Y.(*ssa.Const); ok && k.Value == nil {
					return true
				}
			}
		}
		return false
	}
	// is the invoke/deref of x in block b behind a nil test of the same access path?
	guarded := func(x ssa.Value, b *ssa.BasicBlock) bool {
		key := accessKey(x)
		if ld, ok := x.(*ssa.UnOp); ok && ld.Op == token.MUL {
			key = "*" + accessKey(ld.X)
		}
		for _, g := range guardsOf(b) {
			// a module predicate `func(v) bool { return v != nil }` applied to the same value
			if pc, isCall := g.Cond.(*ssa.Call); isCall && g.Truth && len(pc.Call.Args) == 1 {
				if f := pc.Call.StaticCallee(); f != nil && c.InModule(f) && len(f.Blocks) == 1 && len(f.Params) == 1 {
					if rets := returnsOf(f); len(rets) == 1 {
						if hb, ok := retResults(rets[0])[0].(*ssa.BinOp); ok && hb.Op == token.NEQ && hb.X == ssa.Value(f.Params[0]) {
							if hk, ok := hb.Y.(*ssa.Const); ok && hk.Value == nil {
								a := pc.Call.Args[0]
								k2 := accessKey(a)
								if ld, ok := a.(*ssa.UnOp); ok && ld.Op == token.MUL {
									k2 = "*" + accessKey(ld.X)
								}
								if a == x || (key != "" && key != "*" && k2 == key) {
									return true
								}
							}
						}
					}
				}
			}
			tested, isNil, isTest := nilTestOf(g.Cond, g.Truth)
			if !isTest || isNil {
				continue
			}
			if tested == x {
				return true
			}
			k2 := accessKey(tested)
			if ld, ok := tested.(*ssa.UnOp); ok && ld.Op == token.MUL {
				k2 = "*" + accessKey(ld.X)
			}
			if key != "" && key != "*" && k2 == key {
				return true
			}
		}
		return false
	}
	// uses of a value as the receiver of a method call
	invokesOn := func(x ssa.Value) []ssa.CallInstruction {
		var out []ssa.CallInstruction
		if x.Referrers() == nil {
			return nil
		}
		for _, u := range *x.Referrers() {
			if ci, ok := u.(ssa.CallInstruction); ok && ci.Common().IsInvoke() && ci.Common().Value == x {
				out = append(out, ci)
			}
		}
		return out
	}
	// consumers of a struct field / of the elements of a parameter
	fieldUsesUnguarded := func(f *types.Var) []string {
		var bad []string
		for _, fn := range c.Funcs {
			for _, b := range fn.Blocks {
				for _, ins := range b.Instrs {
					fa, ok := ins.(*ssa.FieldAddr)
					if !ok || fieldOfAddr(fa) != f || fa.Referrers() == nil {
						continue
					}
					for _, u := range *fa.Referrers() {
						ld, ok := u.(*ssa.UnOp)
						if !ok || ld.Op != token.MUL {
							continue
						}
						for _, ci := range invokesOn(ld) {
							if !guarded(ld, ci.Block()) {
								bad = append(bad, c.FuncKey(fn)+" calls "+ci.Common().Method.Name()+" on ."+f.Name()+" at "+c.Pos(ci.Pos()))
							}
						}
					}
				}
			}
		}
		return bad
	}
	elemUsesUnguarded := func(g *ssa.Function, idx int) []string {
		var bad []string
		if idx >= len(g.Params) || g.Blocks == nil {
			return nil
		}
		p := g.Params[idx]
		for _, b := range g.Blocks {
			for _, ins := range b.Instrs {
				ia, ok := ins.(*ssa.IndexAddr)
				if !ok || ia.X != ssa.Value(p) || ia.Referrers() == nil {
					continue
				}
				for _, u := range *ia.Referrers() {
					ld, ok := u.(*ssa.UnOp)
					if !ok || ld.Op != token.MUL {
						continue
					}
					for _, ci := range invokesOn(ld) {
						if !guarded(ld, ci.Block()) {
							bad = append(bad, c.FuncKey(g)+" calls "+ci.Common().Method.Name()+" on an element of "+p.Name()+" at "+c.Pos(ci.Pos()))
						}
					}
				}
			}
		}
		return bad
	}
	var fns []*ssa.Function
	fns = append(fns, c.Funcs...)
	sort.Slice(fns, func(i, j int) bool { return c.FuncKey(fns[i]) < c.FuncKey(fns[j]) })
	for _, fn := range fns {
		n := 0
		for _, ci := range callsIn(fn) {
			f := ci.Common().StaticCallee()
			if f == nil || !srcs[f] {
				continue
			}
			call, ok := ci.(*ssa.Call)
			if !ok || call.Referrers() == nil {
				continue
			}
			var v ssa.Value
			for _, u := range *call.Referrers() {
				if ex, ok := u.(*ssa.Extract); ok && ex.Index == 0 {
					v = ex
				}
			}
			if v == nil || v.Referrers() == nil {
				continue
			}
			n++
			key := sprintf("nil-answer-handled|%s|%s#%d", c.FuncKey(fn), c.FuncKey(f), n)
			if nilTested(v) {
				r.Ok(key, c.Pos(ci.Pos()), "the value is compared with nil", "tested")
				continue
			}
			var bad []string
			for _, ic := range invokesOn(v) {
				bad = append(bad, "method "+ic.Common().Method.Name()+" called on it at "+c.Pos(ic.Pos()))
			}
			for _, u := range *v.Referrers() {
				st, ok := u.(*ssa.Store)
				if !ok || st.Val != v {
					continue
				}
				switch a := st.Addr.(type) {
				case *ssa.FieldAddr:
					bad = append(bad, fieldUsesUnguarded(fieldOfAddr(a))...)
				case *ssa.IndexAddr:
					// element of a local slice: where does the slice go?
					if a.X.Referrers() != nil {
						for _, su := range *a.X.Referrers() {
							if ci2, ok := su.(ssa.CallInstruction); ok {
								if g := ci2.Common().StaticCallee(); g != nil && c.InModule(g) {
									for i, arg := range ci2.Common().Args {
										if arg == a.X {
											bad = append(bad, elemUsesUnguarded(g, i)...)
										}
									}
								}
							}
						}
					}
					// captured by a closure that passes it on
					for _, b := range fn.Blocks {
						for _, ins := range b.Instrs {
							mc, ok := ins.(*ssa.MakeClosure)
							if !ok {
								continue
							}
							cl := mc.Fn.(*ssa.Function)
							for bi, bv := range mc.Bindings {
								if bv != a.X && !(isAllocHolding(bv, a.X)) {
									continue
								}
								fv := cl.FreeVars[bi]
								for _, ci2 := range callsIn(cl) {
									g := ci2.Common().StaticCallee()
									if g == nil || !c.InModule(g) {
										continue
									}
									for i, arg := range ci2.Common().Args {
										if derivesFromFreeVar(arg, fv) {
											bad = append(bad, elemUsesUnguarded(g, i)...)
										}
									}
								}
							}
						}
					}
				}
			}
			r.Check(len(bad) == 0, key, c.Pos(ci.Pos()), "an absent value (nil, nil) is not used as if it were there", strings.Join(head(uniq(bad), 3), "; "))
		}
	}
}

// isAllocHolding: bv is the address of a local variable into which v is stored.
func isAllocHolding(bv, v ssa.Value) bool {
	al, ok := bv.(*ssa.Alloc)
	if !ok || al.Referrers() == nil {
		return false
	}
	for _, u := range *al.Referrers() {
		if st, ok := u.(*ssa.Store); ok && st.Addr == ssa.Value(al) && st.Val == v {
			return true
		}
	}
	return false
}

// derivesFromFreeVar: arg is the free variable or a load of it.
func derivesFromFreeVar(arg ssa.Value, fv *ssa.FreeVar) bool {
	if arg == ssa.Value(fv) {
		return true
	}
	if ld, ok := arg.(*ssa.UnOp); ok && ld.Op == token.MUL && ld.X == ssa.Value(fv) {
		return true
	}
	return false
}

// ---------------------------------------------------------------------------

func init() {
	register(&Rule{Name: "ENC-PRESENCE", Floor: 4, Run: ruleEncPresence, Fixture: "fixture.presentButZero",
		Doc: "in the encoders of the certificate package an optional part kept as an interface value or a pointer is there exactly when it is not nil: a condition on the way to its encoding that looks at such a field is a comparison with nil (or a one-expression helper that is one), never a test of what the value holds (an address 0.0.0.0, an empty name, a zero number are values, not absence)"})
}

func ruleEncPresence(c *Ctx, r *Rep) {
	optional := func(t types.Type) bool {
		switch t.Underlying().(type) {
		case *types.Interface, *types.Pointer:
			return true
		}
		return false
	}
	// the field a value was read from (a load of a FieldAddr, or a Field of a struct value), looking through
	// conversions to an interface
	fieldRead := func(v ssa.Value) (*types.Var, bool) {
		for i := 0; i < 3; i++ {
			switch x := v.(type) {
			case *ssa.MakeInterface:
				v = x.X
				continue
			case *ssa.ChangeInterface:
				v = x.X
				continue
			}
			break
		}
		switch x := v.(type) {
		case *ssa.UnOp:
			if fa, ok := x.X.(*ssa.FieldAddr); ok && x.Op == token.MUL {
				return fieldOfAddr(fa), true
			}
		case *ssa.Field:
			if st, ok := x.X.Type().Underlying().(*types.Struct); ok {
				return st.Field(x.Field), true
			}
		}
		return nil, false
	}
	exactNilPredicate := func(f *ssa.Function) bool {
		if f == nil || len(f.Blocks) != 1 {
			return false
		}
		ret, ok := lastInstr(f.Blocks[0]).(*ssa.Return)
		if !ok || len(ret.Results) != 1 {
			return false
		}
		x, _, isTest := nilTestOf(ret.Results[0], true)
		_, isPrm := x.(*ssa.Parameter)
		_, isBin := ret.Results[0].(*ssa.BinOp)
		return isTest && isPrm && isBin
	}
	for _, fn := range c.Funcs {
		if fn.Blocks == nil || fn.Pkg == nil {
			continue
		}
		if c.Mod == modPath && !strings.HasSuffix(fn.Pkg.Pkg.Path(), "generator/cert") {
			continue
		}
		n := 0
		for _, b := range fn.Blocks {
			iff, ok := lastInstr(b).(*ssa.If)
			if !ok {
				continue
			}
			cond := iff.Cond
			for {
				u, isNot := cond.(*ssa.UnOp)
				if !isNot || u.Op != token.NOT {
					break
				}
				cond = u.X
			}
			switch x := cond.(type) {
			case *ssa.BinOp:
				tested, _, isTest := nilTestOf(x, true)
				if !isTest {
					continue
				}
				if f, isField := fieldRead(tested); isField && optional(f.Type()) && c.IsModObj(f) {
					n++
					r.Ok(sprintf("presence|%s#%d", c.FuncKey(fn), n), c.Pos(x.Pos()), "the presence of an optional part is its not being nil", "."+f.Name()+" compared with nil")
				}
			case *ssa.Call:
				for _, a := range x.Call.Args {
					f, isField := fieldRead(a)
					if !isField || !optional(f.Type()) || !c.IsModObj(f) {
						continue
					}
					if x.Call.IsInvoke() {
						continue
					}
					if !isBoolType(x.Type()) {
						continue
					}
					n++
					callee := x.Call.StaticCallee()
					ok := exactNilPredicate(callee)
					r.Check(ok, sprintf("presence|%s#%d", c.FuncKey(fn), n), c.Pos(x.Pos()), "the presence of an optional part is its not being nil", okOr(ok, "a helper that compares with nil", "."+f.Name()+" is handed to "+calleeFullName(x)+", which looks at more than its nil-ness: a value that is there can count as absent"))
				}
			}
		}
	}
}
