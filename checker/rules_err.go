package main

import (
	"go/constant"
	"go/token"
	"go/types"
	"sort"
	"strings"

	"golang.org/x/tools/go/ssa"
)

func init() {
	register(&Rule{Name: "ERR-DROP", Floor: 20, Run: ruleErrDrop, Fixture: "fixture.dropError",
		Doc: "no error result of any call in module code is discarded (unused, or blank-assigned while the value is used) unless the callee is in the table of never-failing library calls or the site is a named exception with a reason"})
}

// errResultIndex returns the index of the error result of a call's signature, or -1.
func errResultIndex(sig *types.Signature) int {
	res := sig.Results()
	for i := res.Len() - 1; i >= 0; i-- {
		if isErrorType(res.At(i).Type()) {
			return i
		}
	}
	return -1
}

// errValueOf returns the SSA value holding the error result of call ci (the call itself for a
// single result, the Extract for tuples), or nil when the result is never extracted.
func errValueOf(ci ssa.CallInstruction) (ssa.Value, bool) {
	call, ok := ci.(*ssa.Call)
	if !ok {
		return nil, false // defer / go: result cannot be observed
	}
	sig := ci.Common().Signature()
	idx := errResultIndex(sig)
	if idx < 0 {
		return nil, false
	}
	if sig.Results().Len() == 1 {
		return call, true
	}
	for _, ref := range *call.Referrers() {
		if ex, ok := ref.(*ssa.Extract); ok && ex.Index == idx {
			return ex, true
		}
	}
	return nil, true
}

func hasUses(v ssa.Value) bool {
	if v == nil || v.Referrers() == nil {
		return false
	}
	for _, ref := range *v.Referrers() {
		if _, dbg := ref.(*ssa.DebugRef); !dbg {
			return true
		}
	}
	return false
}

// neverFails: library calls whose error result is documented to be always nil, or whose
// failure cannot affect a certificate (terminal output of the CLI).
func neverFails(c *Ctx, fn *ssa.Function, name string) string {
	switch {
	case strings.HasPrefix(name, "(*bytes.Buffer).Write"):
		return "bytes.Buffer.Write*: err is always nil (documented)"
	case strings.HasPrefix(name, "(*strings.Builder).Write"):
		return "strings.Builder.Write*: always returns a nil error (documented)"
	case name == "(hash.Hash).Write":
		return "hash.Hash.Write never returns an error (documented)"
	case hasPrefixAny(name, "fmt.Print", "fmt.Fprint") && strings.HasSuffix(fn.Pkg.Pkg.Path(), "/cli"):
		return "terminal output of the CLI"
	case hasPrefixAny(name, "fmt.Fprint") && strings.HasSuffix(fn.Pkg.Pkg.Path(), "/logging"):
		return "log output"
	}
	return ""
}

// errDropExceptions: named sites, keyed function|callee|argument type, one reason each.
var errDropExceptions = map[string]string{
	"cert.CertificateContext.GeneratePrivateKey|(*cert.CertificateContext).SetPrivateKey|": "the key was generated a few lines above from the curves table / rsa.GenerateKey, so SetPrivateKey's only error paths (unknown curve, unknown key type) cannot be taken",
}

// benignDrop: discarded errors that cannot hide a failure, described by what is called (not by where).
func benignDrop(c *Ctx, fn *ssa.Function, ci ssa.CallInstruction, name string) string {
	inCli := strings.HasSuffix(fn.Pkg.Pkg.Path(), "/cli")
	switch {
	case name == "(io/fs.File).Close":
		return "closing a file opened through io/fs, a read-only interface: nothing can be lost"
	case inCli && strings.HasSuffix(name, "Database).Close"):
		return "closing the database at the end of a command: FsDb.Close has nothing to flush"
	case inCli && strings.HasSuffix(name, "cobra.Command).Help"):
		return "help text output"
	case name == "encoding/asn1.Marshal" || name == "encoding/asn1.MarshalWithParams":
		if len(ci.Common().Args) > 0 {
			if why := marshalCannotFail(c, unwrapIface(ci.Common().Args[0])); why != "" {
				return why
			}
		}
	}
	if f := ci.Common().StaticCallee(); f != nil && c.InModule(f) && f.Blocks != nil {
		if why := cannotFail(c, f, 0); why != "" {
			return why
		}
	}
	return ""
}

// marshalCannotFail: values whose DER encoding cannot fail: bit strings, raw wrappers, package-level constant OIDs,
// structs of booleans and integers.
func marshalCannotFail(c *Ctx, v ssa.Value) string {
	t := v.Type()
	switch typeShort(c, t) {
	case "encoding/asn1.BitString":
		return "marshalling a BIT STRING value cannot fail"
	case "encoding/asn1.RawValue":
		return "marshalling a RawValue wrapper cannot fail"
	case "encoding/asn1.ObjectIdentifier":
		if u, ok := v.(*ssa.UnOp); ok && u.Op == token.MUL {
			if _, isG := u.X.(*ssa.Global); isG {
				return "marshalling a package-level constant OID cannot fail"
			}
		}
		// the OID handed through a helper: every origin is a package-level value
		if o := c.newProv().Origins(v); len(o) > 0 {
			all := true
			for _, x := range o {
				if !strings.HasPrefix(x, "G(") {
					all = false
				}
			}
			if all {
				return "marshalling a package-level constant OID (chosen by a helper) cannot fail"
			}
		}
		return ""
	}
	if st, ok := t.Underlying().(*types.Struct); ok && st.NumFields() > 0 {
		for i := 0; i < st.NumFields(); i++ {
			b, ok := st.Field(i).Type().Underlying().(*types.Basic)
			if !ok || b.Info()&(types.IsBoolean|types.IsInteger) == 0 {
				return ""
			}
		}
		return "marshalling a struct of booleans and integers cannot fail"
	}
	return ""
}

// cannotFail: a module function all of whose error results are nil or come from calls that cannot fail.
func cannotFail(c *Ctx, f *ssa.Function, depth int) string {
	idx := errResultIndex(f.Signature)
	if idx < 0 || depth > 3 {
		return ""
	}
	for _, ret := range returnsOf(f) {
		rr := retResults(ret)
		if idx >= len(rr) {
			return ""
		}
		for _, pe := range phiEdges(rr[idx], ret.Block()) {
			switch x := pe.Val.(type) {
			case *ssa.Const:
				if x.Value != nil {
					return ""
				}
			case *ssa.Extract:
				call, ok := x.Tuple.(*ssa.Call)
				if !ok {
					return ""
				}
				name := calleeFullName(call)
				ok2 := false
				if (name == "encoding/asn1.Marshal" || name == "encoding/asn1.MarshalWithParams") && len(call.Call.Args) > 0 && marshalCannotFail(c, unwrapIface(call.Call.Args[0])) != "" {
					ok2 = true
				}
				if g := call.Call.StaticCallee(); !ok2 && g != nil && c.InModule(g) && g.Blocks != nil && g != f && cannotFail(c, g, depth+1) != "" {
					ok2 = true
				}
				if !ok2 {
					return ""
				}
			default:
				return ""
			}
		}
	}
	return "every error " + c.FuncKey(f) + " can return comes from an encoding that cannot fail"
}

func ruleErrDrop(c *Ctx, r *Rep) {
	type site struct {
		fn   *ssa.Function
		ci   ssa.CallInstruction
		kind string
	}
	var sites []site
	total := 0
	for _, fn := range c.Funcs {
		for _, ci := range callsIn(fn) {
			if _, builtin := ci.Common().Value.(*ssa.Builtin); builtin {
				continue
			}
			sig := ci.Common().Signature()
			if errResultIndex(sig) < 0 {
				continue
			}
			total++
			if _, isCall := ci.(*ssa.Call); !isCall {
				sites = append(sites, site{fn, ci, "deferred"})
				continue
			}
			ev, _ := errValueOf(ci)
			if ev == nil {
				// tuple never extracted for the error: are other results used?
				sites = append(sites, site{fn, ci, "unused"})
				continue
			}
			if !hasUses(ev) {
				sites = append(sites, site{fn, ci, "blank"})
			}
		}
	}
	for _, s := range sites {
		name := calleeFullName(s.ci)
		argT := ""
		if len(s.ci.Common().Args) > 0 && name == "encoding/asn1.Marshal" {
			argT = typeShort(c, unwrapIface(s.ci.Common().Args[0]).Type())
		}
		key := c.FuncKey(s.fn) + "|" + shortCallee(c, name) + "|" + argT
		pos := c.Pos(s.ci.Pos())
		if why := neverFails(c, s.fn, name); why != "" {
			r.Ok("never-fails|"+key, pos, "library fact", why)
			continue
		}
		if why, ok := errDropExceptions[key]; ok {
			r.Ok("exception|"+key, pos, "named exception", why)
			continue
		}
		if why := benignDrop(c, s.fn, s.ci, name); why != "" {
			r.Ok("benign|"+key, pos, "a failure that cannot happen or cannot matter", why)
			continue
		}
		r.Bad("dropped|"+key, pos, "the error is checked, returned or handled", "error result "+s.kind+": a failure here goes unnoticed")
	}
	r.Infof("%d calls returning an error in module code, %d with a discarded error result", total, len(sites))
}

func shortCallee(c *Ctx, name string) string {
	s := strings.ReplaceAll(name, c.Mod+"/generator/db/", "")
	s = strings.ReplaceAll(s, c.Mod+"/generator/config/", "")
	s = strings.ReplaceAll(s, c.Mod+"/generator/", "")
	return strings.ReplaceAll(s, c.Mod+"/", "")
}

// ---- helpers shared by the error-flow rules ----

// nilTestRegion finds, for error value e, the blocks executed only when e != nil:
// the region dominated by the true edge of `e != nil` (or the false edge of `e == nil`).
func nonNilRegion(e ssa.Value) (entry *ssa.BasicBlock, iff *ssa.If) {
	for _, ref := range *e.Referrers() {
		bin, ok := ref.(*ssa.BinOp)
		if !ok || (bin.Op != token.NEQ && bin.Op != token.EQL) {
			continue
		}
		var other ssa.Value = bin.Y
		if bin.Y == e {
			other = bin.X
		}
		if k, ok := other.(*ssa.Const); !ok || k.Value != nil {
			continue
		}
		for _, r2 := range *bin.Referrers() {
			if i, ok := r2.(*ssa.If); ok {
				if bin.Op == token.NEQ {
					return i.Block().Succs[0], i
				}
				return i.Block().Succs[1], i
			}
		}
	}
	return nil, nil
}

// regionBlocks: blocks dominated by entry (entry reached only through its If edge).
func regionBlocks(entry *ssa.BasicBlock) map[*ssa.BasicBlock]bool {
	out := map[*ssa.BasicBlock]bool{}
	for _, b := range entry.Parent().Blocks {
		if entry.Dominates(b) {
			out[b] = true
		}
	}
	return out
}

// returnsNonNilError: ret's error result is not the nil constant.
func returnsNonNilError(ret *ssa.Return) bool {
	sig := ret.Parent().Signature
	idx := errResultIndex(sig)
	if idx < 0 {
		return false
	}
	if k, ok := retResults(ret)[idx].(*ssa.Const); ok && k.Value == nil {
		return false
	}
	return true
}

// propagates decides whether a non-nil error e makes the enclosing function return a non-nil error
// (or, in a function without error result, terminate the process with a non-zero status).
// Forms accepted: (A) e is returned on every return reachable after its definition without a nil test;
// (B) the region executed only when e != nil cannot be left except by returning a non-nil error,
// exiting non-zero, or panicking.
func propagates(c *Ctx, e ssa.Value, def ssa.Instruction) (bool, string) {
	fn := def.Parent()
	entry, _ := nonNilRegion(e)
	// e may flow through a phi (err reassigned in branches) before being tested
	if entry == nil {
		for _, ref := range *e.Referrers() {
			if phi, ok := ref.(*ssa.Phi); ok {
				if en, _ := nonNilRegion(phi); en != nil {
					entry = en
					break
				}
			}
		}
	}
	if entry != nil {
		if len(entry.Preds) != 1 {
			return false, "the err != nil branch target is shared with other paths"
		}
		region := regionBlocks(entry)
		for b := range region {
			last := b.Instrs[len(b.Instrs)-1]
			exits := false
			for _, ins := range b.Instrs {
				if noReturnCall(ins) {
					// os.Exit(k), log.Fatal*, or a helper of the module that never comes back and ends with one status
					k, known := exitStatusOf(ins, 0)
					if known && k != 0 {
						exits = true
					}
					if !exits {
						if !known {
							return false, "the error branch ends the process with a status that is not one constant at " + c.Pos(ins.Pos())
						}
						return false, "the error branch exits with status 0 at " + c.Pos(ins.Pos())
					}
				}
				if _, isPanic := ins.(*ssa.Panic); isPanic {
					exits = true
				}
			}
			if exits {
				continue
			}
			switch x := last.(type) {
			case *ssa.Return:
				if errResultIndex(fn.Signature) < 0 {
					if res := fn.Signature.Results(); res.Len() == 1 {
						if b, ok := res.At(0).Type().Underlying().(*types.Basic); ok && b.Kind() == types.Bool {
							if k, ok := retResults(x)[0].(*ssa.Const); ok && !constBool(k) {
								continue // bool function reporting failure as false
							}
						}
					}
					if statusObjectExit(c, fn, x) {
						continue // hands back how the process has to end; every caller ends it that way
					}
					return false, "the error branch returns from a function without an error result at " + c.Pos(x.Pos())
				}
				if !returnsNonNilError(x) {
					return false, "the error branch returns a nil error at " + c.Pos(x.Pos())
				}
			default:
				for _, s := range b.Succs {
					if !region[s] {
						return false, "the error branch falls through to normal flow at " + c.Pos(last.Pos())
					}
				}
			}
		}
		return true, "err != nil branch returns a non-nil error"
	}
	// (A) returned directly
	idx := errResultIndex(fn.Signature)
	if idx < 0 {
		return false, "error is never tested and the function has no error result"
	}
	n, direct := 0, 0
	for _, ret := range returnsOf(fn) {
		if !canReachInstr(def, ret) {
			continue
		}
		n++
		for _, pe := range phiEdges(retResults(ret)[idx], ret.Block()) {
			if pe.Val == e {
				direct++
				break
			}
		}
	}
	if n > 0 && direct == n {
		return true, "returned unchanged on every path"
	}
	return false, sprintf("error is neither tested against nil nor returned on every path (%d of %d returns)", direct, n)
}

func constBool(k *ssa.Const) bool {
	return k.Value != nil && k.Value.String() == "true"
}

func sortedFuncs(c *Ctx, m map[*ssa.Function]bool) []*ssa.Function {
	var out []*ssa.Function
	for f := range m {
		out = append(out, f)
	}
	sort.Slice(out, func(i, j int) bool { return c.FuncKey(out[i]) < c.FuncKey(out[j]) })
	return out
}

// statusObjectExit: the function hands back a pointer to a struct of the module in which an int field holds a constant
// other than 0 (an exit status), and every caller, where the result is not nil, ends the process with that very field.
func statusObjectExit(c *Ctx, fn *ssa.Function, ret *ssa.Return) bool {
	res := retResults(ret)
	if len(res) != 1 {
		return false
	}
	al, ok := res[0].(*ssa.Alloc)
	if !ok {
		return false
	}
	field := -1
	for _, ref := range *al.Referrers() {
		fa, ok := ref.(*ssa.FieldAddr)
		if !ok {
			continue
		}
		for _, r2 := range *fa.Referrers() {
			if st, ok := r2.(*ssa.Store); ok && st.Addr == ssa.Value(fa) {
				if k, isK := st.Val.(*ssa.Const); isK && k.Value != nil && k.Value.Kind() == constant.Int && k.Int64() != 0 {
					field = fa.Field
				}
			}
		}
	}
	if field < 0 {
		return false
	}
	sites, good := 0, 0
	for _, caller := range c.Funcs {
		for _, ci := range callsIn(caller) {
			if ci.Common().StaticCallee() != fn {
				continue
			}
			sites++
			v := ci.Value()
			if v == nil {
				continue
			}
			for _, ci2 := range callsIn(caller) {
				call2, ok := ci2.(*ssa.Call)
				if !ok || !noReturnCall(call2) || len(call2.Call.Args) != 1 {
					continue
				}
				ld, ok := call2.Call.Args[0].(*ssa.UnOp)
				if !ok || ld.Op != token.MUL {
					continue
				}
				fa, ok := ld.X.(*ssa.FieldAddr)
				if !ok || fa.X != ssa.Value(v) || fa.Field != field {
					continue
				}
				for _, g := range guardsOf(call2.Block()) {
					if x, isNil, ok := nilTestOf(g.Cond, g.Truth); ok && x == ssa.Value(v) && !isNil {
						good++
					}
				}
			}
		}
	}
	return sites > 0 && good >= sites
}
