package main

import (
	"fmt"
	"go/token"
	"go/types"
	"regexp"
	"sort"
	"strings"

	"golang.org/x/tools/go/ssa"
)

func init() {
	register(&Rule{Name: "ERR-CHAIN-WRITE", Floor: 3, Run: ruleChainWrite,
		Doc: "an error of os.WriteFile is returned by every function between the write and the CLI, where it ends the process with a non-zero status (a failed write is a failed run)"})
	register(&Rule{Name: "ERR-CHAIN-EXT", Floor: 8, Run: ruleChainExt,
		Doc: "a content-less extension makes generation fail: the override-needed builder always returns an error, every Builder/Compile error is returned up to BulkUpdate and the CLI; every v1 Builder hands the common handler's builder back unchanged"})
	register(&Rule{Name: "ERR-CHAIN-OPEN", Floor: 2, Run: ruleChainOpen,
		Doc: "the duplicate-alias error is returned through the directory walk and Open up to the CLI, which exits non-zero before planning"})
	register(&Rule{Name: "TOLERANT", Floor: 2, Run: ruleTolerant,
		Doc: "a PEM file that cannot be decoded completely does not abort the import and the parts decoded before the error are kept; a file that does not parse as a configuration is skipped by the directory walk"})
	register(&Rule{Name: "PANIC-INV", Floor: 2, Run: rulePanicInv, Fixture: "fixture.undischargedPanic",
		Doc: "every explicit panic reachable from the entry points (ParseConfig, Open, PlanBulkUpdate, BulkUpdate, ReadPem, the sign command) is discharged by a named invariant; a new reachable panic is a violation"})
	register(&Rule{Name: "OID-VALID", Floor: 1, Run: ruleOidValid,
		Doc: "every custom extension leaving the extension parser passed the same OID validator its Oid() method panics on, with the validator's error returned"})
	register(&Rule{Name: "YEAR-RANGE", Floor: 2, Run: ruleYearRange,
		Doc: "the validity parser returns successfully only when the years of From and Until are within 0..9999 (json.Marshal of the hash and X.509 cannot express others)"})
}

// chainUp verifies that every module caller of fn propagates fn's error, recursively up to the CLI.
func chainUp(c *Ctx, r *Rep, label string, fn *ssa.Function, seen map[*ssa.Function]bool, depth int) {
	if seen[fn] || depth > 10 {
		return
	}
	seen[fn] = true
	g := c.Graph()
	type link struct {
		caller *ssa.Function
		site   ssa.Instruction
		kind   string
	}
	var links []link
	for from, es := range g.Out {
		for _, e := range es {
			if e.Callee == fn {
				links = append(links, link{from, e.Site, e.Kind})
			}
		}
	}
	sort.Slice(links, func(i, j int) bool {
		if links[i].caller != links[j].caller {
			return c.FuncKey(links[i].caller) < c.FuncKey(links[j].caller)
		}
		return links[i].site.Pos() < links[j].site.Pos()
	})
	for _, l := range links {
		ci, ok := l.site.(ssa.CallInstruction)
		if !ok {
			continue
		}
		key := sprintf("link|%s|%s<-%s", label, c.FuncKey(fn), c.FuncKey(l.caller))
		pos := c.Pos(l.site.Pos())
		if _, isCall := ci.(*ssa.Call); !isCall {
			r.Bad(key, pos, "the error is observed", "call is deferred or spawned: its error is lost")
			continue
		}
		ev, has := errValueOf(ci)
		if !has {
			// escape into a library call without error result: nothing to track
			continue
		}
		if ev == nil || !hasUses(ev) {
			r.Bad(key, pos, "the error is returned to the caller", "error result discarded")
			continue
		}
		ok2, how := propagates(c, ev, l.site)
		r.Check(ok2, key, pos, "a non-nil error is returned (or ends the process with a non-zero status)", how)
		if ok2 && errResultIndex(l.caller.Signature) >= 0 {
			chainUp(c, r, label, l.caller, seen, depth+1)
		}
	}
}

// writePrimitives: library calls through which file content reaches the disk (or fails to).
var writePrimitives = []string{"os.WriteFile", "os.OpenFile", "os.Create", "(*os.File).Write", "(*os.File).WriteString", "(*os.File).Sync"}

func ruleChainWrite(c *Ctx, r *Rep) {
	srcs := map[*ssa.Function][]ssa.CallInstruction{}
	for _, prim := range writePrimitives {
		for fn, cis := range c.funcsCalling(prim) {
			srcs[fn] = append(srcs[fn], cis...)
		}
	}
	if len(srcs) == 0 {
		r.Undecided("anchor:write-primitive", "", "no module function calls os.WriteFile or writes through an *os.File")
		return
	}
	for _, fn := range sortedFuncs(c, keysOfFuncMap(srcs)) {
		for _, ci := range srcs[fn] {
			ev, _ := errValueOf(ci)
			key := "source|" + calleeFullName(ci) + "|" + c.FuncKey(fn)
			if ev == nil {
				r.Bad(key, c.Pos(ci.Pos()), "the write error is returned", "discarded")
				continue
			}
			ok, how := propagates(c, ev, ci)
			r.Check(ok, key, c.Pos(ci.Pos()), "the write error is returned", how)
		}
		chainUp(c, r, "write", fn, map[*ssa.Function]bool{}, 0)
	}
}

func keysOfFuncMap(m map[*ssa.Function][]ssa.CallInstruction) map[*ssa.Function]bool {
	out := map[*ssa.Function]bool{}
	for f := range m {
		out[f] = true
	}
	return out
}

func ruleChainExt(c *Ctx, r *Rep) {
	bi := c.NamedType("generator/cert", "ExtensionBuilder")
	if bi == nil {
		r.Undecided("anchor:ExtensionBuilder", "", "interface not found")
		return
	}
	// the override-needed builder: the implementation whose Compile has no success return
	var overrideT types.Type
	for _, t := range c.implementations(bi.Underlying().(*types.Interface)) {
		fn := c.methodOf(t, "Compile")
		if fn == nil || fn.Blocks == nil {
			continue
		}
		allErr := true
		for _, ret := range returnsOf(fn) {
			if !returnsNonNilError(ret) {
				allErr = false
			}
		}
		if allErr && len(fn.Blocks) == 1 {
			overrideT = t
			r.Ok("override-builder-always-fails|"+typeShort(c, t), c.FnPos(fn), "every return of Compile carries a non-nil error", "ok")
		}
	}
	if overrideT == nil {
		r.Bad("override-builder-always-fails", "", "an ExtensionBuilder whose Compile always returns an error (content-less extensions must fail)", "none found")
		return
	}
	// the common handler: function returning (ExtensionBuilder, error) that returns a value of overrideT
	var handler *ssa.Function
	for _, fn := range c.Funcs {
		for _, ret := range returnsOf(fn) {
			if len(ret.Results) == 2 {
				if mi, ok := retResults(ret)[0].(*ssa.MakeInterface); ok && types.Identical(mi.X.Type(), overrideT) {
					handler = fn
					// guard: raw empty and no content
					r.Ok("handler-returns-override|"+c.FuncKey(fn), c.Pos(ret.Pos()), "the handler yields the override-needed builder for an extension without raw and content", "found")
				}
			}
		}
	}
	if handler == nil {
		r.Bad("handler-returns-override", "", "a function returning the override-needed builder", "none")
		return
	}
	// every Builder that calls the handler returns the handler's non-nil builder (and error) unchanged
	iface := c.extConfigIface()
	n := 0
	for _, t := range c.implementations(iface) {
		fn := c.methodOf(t, "Builder")
		if fn == nil || fn.Blocks == nil || fn.Synthetic != "" {
			continue
		}
		for _, ci := range callsIn(fn) {
			if ci.Common().StaticCallee() != handler {
				continue
			}
			n++
			call := ci.(*ssa.Call)
			var b0, e1 ssa.Value
			for _, ref := range *call.Referrers() {
				if ex, ok := ref.(*ssa.Extract); ok {
					if ex.Index == 0 {
						b0 = ex
					} else {
						e1 = ex
					}
				}
			}
			key := "builder-returns-handler-result|" + c.FuncKey(fn)
			if b0 == nil || e1 == nil {
				r.Bad(key, c.Pos(ci.Pos()), "both results of the handler are used", "a result is discarded")
				continue
			}
			// the call's own block ends in `if b0 != nil` and everything behind its true edge returns (b0, e1);
			// an error (e1 != nil) must lead to a non-nil error return as well
			ok := false
			if iff, isIf := ci.Block().Instrs[len(ci.Block().Instrs)-1].(*ssa.If); isIf {
				if bin, isBin := iff.Cond.(*ssa.BinOp); isBin && bin.Op == token.NEQ && bin.X == b0 {
					if k, isK := bin.Y.(*ssa.Const); isK && k.Value == nil {
						T := ci.Block().Succs[0]
						good := len(T.Preds) >= 1
						for blk := range regionBlocks(T) {
							// T may be shared with the `e1 != nil` edge (a || condition): both lead to the same return
							if ret, isRet := blk.Instrs[len(blk.Instrs)-1].(*ssa.Return); isRet {
								rr := retResults(ret)
								if !(rr[0] == b0 && rr[1] == e1) {
									good = false
								}
							} else {
								good = false
							}
						}
						for _, pr := range T.Preds {
							if pr != ci.Block() {
								// the other way into T must be the e1 != nil test
								pi, isIf2 := pr.Instrs[len(pr.Instrs)-1].(*ssa.If)
								if !isIf2 {
									good = false
									continue
								}
								pb, isBin2 := pi.Cond.(*ssa.BinOp)
								if !isBin2 || pb.X != e1 {
									good = false
								}
							}
						}
						ok = good
					}
				}
			}
			if ok {
				// an error alone (builder nil) takes the same exit
				errExit := false
				T := ci.Block().Succs[0]
				for _, ref := range *e1.Referrers() {
					if bin, isBin := ref.(*ssa.BinOp); isBin && bin.Op == token.NEQ && bin.X == e1 {
						for _, r2 := range *bin.Referrers() {
							if i2, isIf2 := r2.(*ssa.If); isIf2 && i2.Block().Succs[0] == T {
								errExit = true
							}
						}
					}
				}
				ok = errExit
			}
			if !ok {
				// frozen exception: the extension without content (OCSP no check) has nothing to lack
				st, _ := derefStruct(t)
				hasContent := false
				if st != nil {
					for i := 0; i < st.NumFields(); i++ {
						if st.Field(i).Name() == "Content" {
							hasContent = true
						}
					}
				}
				if !hasContent {
					r.Ok(key, c.Pos(ci.Pos()), "exception: an extension type without a content field cannot lack content", "no Content field")
					continue
				}
			}
			r.Check(ok, key, c.Pos(ci.Pos()), "if the handler returned a builder or an error, exactly those are returned (no extra condition)", sprintf("%v", ok))
		}
		handbackPaths(c, r, fn, handler)
	}
	if n < 10 {
		r.Undecided("floor:builders-using-handler", "", sprintf("%d Builder methods call the common handler, expected at least 10", n))
	}
	// propagation of Builder() and Compile() errors up to the CLI
	g := c.Graph()
	_ = g
	for _, m := range []struct {
		iface *types.Interface
		name  string
	}{{iface, "Builder"}, {bi.Underlying().(*types.Interface), "Compile"}} {
		seenSite := map[ssa.Instruction]bool{}
		for _, fn := range c.Funcs {
			for _, ci := range callsIn(fn) {
				cc := ci.Common()
				if !cc.IsInvoke() || cc.Method.Name() != m.name || !types.Identical(cc.Value.Type().Underlying(), m.iface) {
					continue
				}
				if seenSite[ci] {
					continue
				}
				seenSite[ci] = true
				key := sprintf("invoke|%s|%s", m.name, c.FuncKey(fn))
				ev, _ := errValueOf(ci)
				if ev == nil || !hasUses(ev) {
					r.Bad(key, c.Pos(ci.Pos()), "the "+m.name+" error is returned", "discarded")
					continue
				}
				ok, how := propagates(c, ev, ci)
				r.Check(ok, key, c.Pos(ci.Pos()), "the "+m.name+" error is returned", how)
				if ok {
					chainUp(c, r, m.name, fn, map[*ssa.Function]bool{}, 0)
				}
			}
		}
	}
}

func ruleChainOpen(c *Ctx, r *Rep) {
	// the walk callback: the closure handed to fs.WalkDir
	var cb, walker *ssa.Function
	for f, w := range c.walkCallbacks() {
		cb, walker = f, w
	}
	if cb == nil {
		r.Undecided("anchor:walk-callback", "", "no closure handed to fs.WalkDir")
		return
	}
	// the walk visits everything: the callback (and closures or module helpers whose result it returns) never answers
	// with one of the walk-control sentinels, which would skip the rest of a directory or of the tree
	{
		pv := c.newProv()
		var sentinels []string
		for _, ret := range returnsOf(cb) {
			for _, res := range retResults(ret) {
				for _, o := range pv.Origins(res) {
					if strings.Contains(o, "G(io/fs.Skip") || strings.Contains(o, "G(path/filepath.Skip") {
						sentinels = append(sentinels, c.Pos(ret.Pos())+": "+o)
					}
				}
			}
		}
		r.Check(len(sentinels) == 0, "walk-visits-everything|"+c.FuncKey(walker), c.FnPos(cb), "the walk callback returns nil or an error, never SkipDir/SkipAll: configurations are found in whatever sub-directory, next to whatever other files", strings.Join(sentinels, "; "))
	}
	// the importer: the module method the callback calls with a CertificateContent argument
	var importer *ssa.Function
	var findImporter func(from *ssa.Function, d int)
	findImporter = func(from *ssa.Function, d int) {
		for _, ci := range callsIn(from) {
			f := ci.Common().StaticCallee()
			if f == nil || !c.InModule(f) || errResultIndex(f.Signature) < 0 || f.Blocks == nil {
				continue
			}
			for _, p := range f.Params {
				if strings.HasSuffix(typeShort(c, p.Type()), "CertificateContent") {
					importer = f
				}
			}
			if importer == nil && d < 2 && f.Pkg == cb.Pkg {
				findImporter(f, d+1) // the dispatch on the configuration's type may sit in a helper of the callback
			}
		}
	}
	findImporter(cb, 0)
	if importer == nil {
		r.Undecided("anchor:config-importer", "", "the walk callback calls no module function taking a CertificateContent")
		return
	}
	// the importer has an error return guarded by "alias already known under another file"
	dup := false
	for _, ret := range returnsOf(importer) {
		if !returnsNonNilError(ret) {
			continue
		}
		for _, g := range guardsOf(ret.Block()) {
			if bin, ok := g.Cond.(*ssa.BinOp); ok && bin.Op == token.NEQ && g.Truth {
				if f := fieldLoad(bin.X); f != nil && strings.Contains(strings.ToLower(f.Name()), "file") {
					dup = true
				}
			}
		}
	}
	r.Check(dup, "duplicate-alias-is-error|"+c.FuncKey(importer), c.FnPos(importer), "an alias already registered under a different config file is an error", sprintf("%v", dup))
	chainUp(c, r, "open", importer, map[*ssa.Function]bool{}, 0)
	_ = walker
}

func ruleTolerant(c *Ctx, r *Rep) {
	// (1) PEM import
	var reader *ssa.Function
	for fn := range c.funcsCalling("encoding/pem.Decode") {
		reader = fn
	}
	if reader == nil {
		r.Undecided("anchor:pem-reader", "", "no function calls pem.Decode")
		return
	}
	// reader keeps what it decoded: every return yields the same accumulator
	accs := map[ssa.Value]bool{}
	for _, ret := range returnsOf(reader) {
		v := retResults(ret)[0]
		if u, ok := v.(*ssa.UnOp); ok && u.Op == token.MUL {
			accs[u.X] = true
		} else {
			accs[v] = true
		}
	}
	r.Check(len(accs) == 1, "reader-returns-partial|"+c.FuncKey(reader), c.FnPos(reader), "every return (including error returns) yields the parts decoded so far", sprintf("%d distinct result values", len(accs)))
	n := 0
	for _, caller := range c.Graph().Callers(reader) {
		for _, ci := range callsIn(caller) {
			if ci.Common().StaticCallee() != reader {
				continue
			}
			n++
			key := "pem-error-tolerated|" + c.FuncKey(caller)
			ev, _ := errValueOf(ci)
			if ev == nil {
				r.Ok(key, c.Pos(ci.Pos()), "error not acted upon", "discarded")
				continue
			}
			entry, _ := nonNilRegion(ev)
			if entry == nil {
				r.Ok(key, c.Pos(ci.Pos()), "error not acted upon", "never tested")
				continue
			}
			bad := ""
			leaves := false
			region := regionBlocks(entry)
			for b := range region {
				if _, isRet := b.Instrs[len(b.Instrs)-1].(*ssa.Return); isRet {
					bad = "the error branch returns at " + c.Pos(b.Instrs[len(b.Instrs)-1].Pos())
				}
				for _, s := range b.Succs {
					if !region[s] {
						leaves = true
					}
				}
			}
			if bad == "" && !leaves {
				bad = "the error branch never rejoins the import"
			}
			r.Check(bad == "", key, c.Pos(ci.Pos()), "a decode error is logged and the import continues with the parts decoded so far", bad)
			// the imported artifact takes its parts from the reader's result
			res := ci.(*ssa.Call)
			uses := 0
			for _, ref := range *res.Referrers() {
				if ex, ok := ref.(*ssa.Extract); ok && ex.Index == 0 {
					uses = len(*ex.Referrers())
				}
			}
			r.Check(uses > 0, "pem-parts-used|"+c.FuncKey(caller), c.Pos(ci.Pos()), "the decoded parts are used", sprintf("%d uses", uses))
		}
	}
	if n == 0 {
		r.Undecided("floor:pem-import-sites", "", "the PEM reader has no module caller")
	}
	// (2) the walk callback tolerates unparsable files
	for fn, cis := range c.funcsCalling(c.modPkg("generator/config") + ".ParseConfig") {
		if fn.Parent() == nil {
			continue // only the closure handed to the walk
		}
		for _, ci := range cis {
			key := "unparsable-config-skipped|" + c.FuncKey(fn)
			ev, _ := errValueOf(ci)
			if ev == nil {
				r.Bad(key, c.Pos(ci.Pos()), "the parse error is examined", "discarded")
				continue
			}
			entry, _ := nonNilRegion(ev)
			if entry == nil {
				r.Bad(key, c.Pos(ci.Pos()), "a parse error skips the file", "never tested: the nil result would be used")
				continue
			}
			bad := ""
			nret := 0
			region := regionBlocks(entry)
			for b := range region {
				if ret, isRet := b.Instrs[len(b.Instrs)-1].(*ssa.Return); isRet {
					nret++
					if returnsNonNilError(ret) {
						bad = "returns an error at " + c.Pos(ret.Pos()) + " (which aborts the whole walk)"
					}
				}
				for _, s := range b.Succs {
					if !region[s] {
						bad = "falls through and uses the failed parse result"
					}
				}
			}
			r.Check(bad == "" && nret > 0, key, c.Pos(ci.Pos()), "a file that does not parse is skipped: the callback returns nil", bad)
		}
	}
}

// panicDischarge: functions that contain an explicit panic and the invariant that discharges it.
var panicDischarge = map[string]string{
	"cert.ExpectOid":                    "every call site passes a constant within the extension-OID table",
	"cert.CertificateContext.Sign":      "the key kind returned by the algorithm table is EC or RSA whenever its error is nil, and Sign returns on that error",
	"config.CertificateContent.HashSum": "json.Marshal cannot fail: all field kinds are marshalable (HASH-SHAPE) and years are within 0..9999 (YEAR-RANGE)",
	"v1.CustomExtension.Oid":            "every custom extension passed the OID validator when it was parsed (OID-VALID)",
	"filesystem.importFiles$1":          "every configurator returns *CertificateContent, *CertificateProfile or an error",
}

func rulePanicInv(c *Ctx, r *Rep) {
	g := c.Graph()
	if len(g.ReflectCalls) > 0 {
		r.Undecided("reflect-calls", "", "reachability cannot be decided: "+strings.Join(g.ReflectCalls, "; "))
	}
	entries, missing := c.entryPoints()
	if c.Mod == modPath {
		for _, m := range missing {
			r.Undecided("anchor:entry|"+m, "", "entry point not found")
		}
	}
	var es []*ssa.Function
	for _, f := range entries {
		es = append(es, f)
	}
	if c.Mod != modPath {
		es = c.Funcs // fixture: every function is an entry
	}
	reach := g.Reach(es...)
	var fns []*ssa.Function
	for f := range reach {
		fns = append(fns, f)
	}
	sort.Slice(fns, func(i, j int) bool { return c.FuncKey(fns[i]) < c.FuncKey(fns[j]) })
	n := 0
	for _, fn := range fns {
		for _, b := range fn.Blocks {
			for _, ins := range b.Instrs {
				p, ok := ins.(*ssa.Panic)
				if !ok || !p.Pos().IsValid() {
					continue
				}
				n++
				fk := c.FuncKey(fn)
				key := "panic|" + fk
				role := panicRole(c, fn)
				why, known := panicDischarge[role]
				if !known {
					r.Bad(key, c.Pos(p.Pos()), "no explicit panic reachable from file contents, or a named invariant discharging it", "reachable via "+strings.Join(reach[fn], " -> "))
					continue
				}
				ok2, how := dischargePanic(c, role, fn, p)
				r.Check(ok2, key, c.Pos(p.Pos()), why, how)
			}
		}
	}
	r.Infof("%d functions reachable from %d entry points; %d explicit panics among them", len(reach), len(es), n)
}

func dischargePanic(c *Ctx, fk string, fn *ssa.Function, p *ssa.Panic) (bool, string) {
	ev := c.evaluator()
	switch fk {
	case "cert.ExpectOid":
		_, table, _, why := indexedOidTable(c, ev, "ExtensionOid")
		if why != "" {
			return false, why
		}
		bad := []string{}
		n := 0
		for _, caller := range c.Funcs {
			for _, ci := range callsIn(caller) {
				if ci.Common().StaticCallee() != fn {
					continue
				}
				n++
				k, ok := ci.Common().Args[0].(*ssa.Const)
				if !ok || k.Int64() < 0 || int(k.Int64()) >= len(table) {
					bad = append(bad, c.FuncKey(caller)+" at "+c.Pos(ci.Pos()))
				}
			}
		}
		// the function value must not escape
		for _, e := range c.Graph().Callers(fn) {
			_ = e
		}
		if len(bad) > 0 {
			return false, "non-constant or out-of-range argument: " + strings.Join(bad, "; ")
		}
		return n > 0, sprintf("%d call sites, all constants within 0..%d", n, len(table)-1)
	case "cert.CertificateContext.Sign":
		roles, _, why := c.keyTypeRoles()
		if roles == nil {
			return false, why
		}
		tab := c.resolveAlgFunc()
		if tab == nil {
			return false, "algorithm table function not found"
		}
		rows, errRows, why := resolveAlgRows(c, ev, tab, roles)
		if why != "" {
			return false, why
		}
		for v, row := range rows {
			if !errRows[v] && row.key != "ec" && row.key != "rsa" {
				return false, sprintf("row %d returns key kind %q without an error", v, row.key)
			}
		}
		// default path returns an error
		defErr := c.algEntryFields(tab) != nil && algDefaultIsError(c, tab)
		for _, ret := range returnsOf(tab) {
			if c.algEntryFields(tab) != nil {
				break
			}
			idx := errResultIndex(tab.Signature)
			for _, pe := range phiEdges(retResults(ret)[idx], ret.Block()) {
				if _, lab := caseLabel(pe.From, func(v ssa.Value) bool { return v == ssa.Value(tab.Params[0]) }); !lab {
					if k, isK := pe.Val.(*ssa.Const); !(isK && k.Value == nil) {
						defErr = true
					}
				}
			}
		}
		if !defErr {
			return false, "the table's default path does not return an error"
		}
		// Sign returns on the table's error before the key-kind dispatch (which may sit in a helper it calls)
		signFn, _ := c.signFunc()
		var at ssa.Instruction = p
		if fn != signFn {
			for _, ci := range callsIn(signFn) {
				if ci.Common().StaticCallee() == fn {
					at = ci
				}
			}
		}
		seenTab := false
		for _, ci := range callsIn(signFn) {
			if ci.Common().StaticCallee() == tab {
				seenTab = true
				e, _ := errValueOf(ci)
				if e == nil {
					return false, "the table's error is discarded"
				}
				ok, how := propagates(c, e, ci)
				if !ok {
					return false, "the table's error is not returned: " + how
				}
				if !instrDominates(ci, at) {
					return false, "the panic is not dominated by the table call"
				}
			}
		}
		if !seenTab {
			return false, "the signing function does not consult the algorithm table"
		}
		// the key kind dispatched on is the table's answer
		return true, sprintf("%d rows, key kinds EC/RSA; error returned before dispatch", len(rows))
	case "config.CertificateContent.HashSum":
		// the panic is guarded by the error of json.Marshal of the receiver
		for _, g := range guardsOf(p.Block()) {
			if bin, ok := g.Cond.(*ssa.BinOp); ok && bin.Op == token.NEQ && g.Truth {
				if ex, ok := bin.X.(*ssa.Extract); ok {
					if call, ok := ex.Tuple.(*ssa.Call); ok {
						if calleeFullName(call) == "encoding/json.Marshal" {
							return true, "guarded by the json.Marshal error only; see HASH-SHAPE and YEAR-RANGE"
						}
						// a module helper whose only error sources are json calls
						if f := call.Call.StaticCallee(); f != nil && c.InModule(f) {
							onlyJSON := true
							for _, ci := range callsIn(f) {
								if errResultIndex(ci.Common().Signature()) >= 0 && !strings.HasPrefix(calleeFullName(ci), "encoding/json.") {
									onlyJSON = false
								}
							}
							if onlyJSON {
								return true, "guarded by the error of " + c.FuncKey(f) + ", which fails only when encoding/json does; see HASH-SHAPE and YEAR-RANGE"
							}
						}
					}
				}
			}
		}
		return false, "panic is not the json.Marshal error branch"
	case "v1.CustomExtension.Oid":
		rep := &Rep{rule: "OID-VALID"}
		ruleOidValid(c, rep)
		for _, o := range rep.Obs {
			if o.Status != "ok" {
				return false, "OID-VALID does not hold: " + o.Key + ": " + o.Found
			}
		}
		return len(rep.Obs) > 0, "OID-VALID holds"
	case "filesystem.importFiles$1":
		// asserted types in the callback
		asserted := map[string]bool{}
		for _, b := range fn.Blocks {
			for _, ins := range b.Instrs {
				if ta, ok := ins.(*ssa.TypeAssert); ok && ta.CommaOk {
					asserted[typeShort(c, ta.AssertedType)] = true
				}
			}
		}
		ci := c.NamedType("generator/config", "Configurator")
		if ci == nil {
			return false, "Configurator interface not found"
		}
		n := 0
		for _, t := range c.implementations(ci.Underlying().(*types.Interface)) {
			m := c.methodOf(t, "ParseConfiguration")
			if m == nil || m.Blocks == nil {
				continue
			}
			n++
			for _, ret := range returnsOf(m) {
				for _, kind := range dynamicKinds(c, retResults(ret)[0], 0) {
					switch {
					case kind == "nil":
						if !returnsNonNilError(ret) {
							return false, "nil result with nil error at " + c.Pos(ret.Pos())
						}
					case asserted[kind]:
					default:
						if _, isIface := retResults(ret)[0].Type().Underlying().(*types.Interface); isIface && kind == typeShort(c, retResults(ret)[0].Type()) {
							return false, "result of unknown shape at " + c.Pos(ret.Pos())
						}
						return false, c.FuncKey(m) + " returns " + kind + ", which the walk callback does not handle"
					}
				}
			}
		}
		// only registered configurators are used: the registry is filled from init functions only
		return n > 0, sprintf("%d configurator implementation(s) return only %s or an error", n, fmtSet(asserted))
	}
	return false, "no discharge rule"
}

func ruleOidValid(c *Ctx, r *Rep) {
	// T = the ExtensionConfig implementation whose Oid method contains a panic
	iface := c.extConfigIface()
	if iface == nil {
		r.Undecided("anchor:ExtensionConfig", "", "interface not found")
		return
	}
	var T types.Type
	var oidFn *ssa.Function
	var validator *ssa.Function
	var field *types.Var
	for _, t := range c.implementations(iface) {
		fn := c.methodOf(t, "Oid")
		if fn == nil || fn.Blocks == nil || fn.Synthetic != "" {
			continue
		}
		for _, b := range fn.Blocks {
			for _, ins := range b.Instrs {
				if p, ok := ins.(*ssa.Panic); ok && p.Pos().IsValid() {
					T, oidFn = t, fn
				}
			}
		}
	}
	if T == nil {
		r.Ok("no-panicking-oid-method", "", "no ExtensionConfig.Oid method contains a panic", "none")
		return
	}
	// the panic is on the error branch of validator(recv.field)
	for _, ci := range callsIn(oidFn) {
		f := ci.Common().StaticCallee()
		if f == nil || errResultIndex(f.Signature) < 0 {
			continue
		}
		if fl := fieldLoad(ci.Common().Args[0]); fl != nil {
			validator, field = f, fl
		}
	}
	if validator == nil {
		r.Bad("oid-method-shape|"+c.FuncKey(oidFn), c.FnPos(oidFn), "the panic guards the error of a validator applied to a field of the receiver", "no such call")
		return
	}
	r.Ok("oid-method-shape|"+c.FuncKey(oidFn), c.FnPos(oidFn), "panic only on validator error", c.FuncKey(validator)+"("+field.Name()+")")
	// validator is a pure function of its argument (no globals, no time, no randomness): same input, same verdict
	pure := true
	for _, b := range validator.Blocks {
		for _, ins := range b.Instrs {
			if u, ok := ins.(*ssa.UnOp); ok {
				if _, isG := u.X.(*ssa.Global); isG {
					pure = false
				}
			}
		}
	}
	r.Check(pure, "validator-deterministic|"+c.FuncKey(validator), c.FnPos(validator), "reads no package-level state: the verdict at parse time is the verdict at use", sprintf("%v", pure))
	// the parser: function asserting to T (comma-ok) and calling validator on that field with the error returned,
	// before appending to the result
	found := false
	for _, fn := range c.Funcs {
		for _, b := range fn.Blocks {
			for _, ins := range b.Instrs {
				ta, ok := ins.(*ssa.TypeAssert)
				if !ok || !ta.CommaOk || !types.Identical(ta.AssertedType, T) {
					continue
				}
				// a validator call on field of the asserted value, in the ok-region
				for _, ci := range callsIn(fn) {
					if ci.Common().StaticCallee() != validator {
						continue
					}
					fl := fieldLoad(ci.Common().Args[0])
					if fl != field {
						continue
					}
					ev, _ := errValueOf(ci)
					if ev == nil {
						r.Bad("parser-validates|"+c.FuncKey(fn), c.Pos(ci.Pos()), "validator error returned", "discarded")
						continue
					}
					okp, how := propagates(c, ev, ci)
					// the check is made where the assertion succeeded (the other way round it looks at the zero value and
					// lets every custom extension through unchecked)
					inOK, inNot := false, false
					for _, g := range guardsOf(ci.Block()) {
						if ex, isEx := g.Cond.(*ssa.Extract); isEx && ex.Tuple == ssa.Value(ta) && ex.Index == 1 {
							if g.Truth {
								inOK = true
							} else {
								inNot = true
							}
						}
					}
					if inNot && !inOK {
						okp, how = false, "the validator is applied where the assertion to "+typeShort(c, T)+" failed"
					}
					// the append of the value to the output happens after the check
					after := false
					for _, ci2 := range callsIn(fn) {
						if bi, isB := ci2.Common().Value.(*ssa.Builtin); isB && bi.Name() == "append" && canReachInstr(ta, ci2) {
							if !canReachInstr(ci2, ta) || inLoop(ta.Block()) {
								after = true
							}
						}
					}
					if !after && okp {
						// the check sits in a helper that hands the value back: every caller returns the helper's error
						// before it appends the value
						sites, good := 0, 0
						for _, caller := range c.Funcs {
							for _, cj := range callsIn(caller) {
								if cj.Common().StaticCallee() != fn {
									continue
								}
								sites++
								ev2, _ := errValueOf(cj)
								if ev2 == nil {
									continue
								}
								ok2, _ := propagates(c, ev2, cj)
								appended := false
								for _, ci2 := range callsIn(caller) {
									if bi, isB := ci2.Common().Value.(*ssa.Builtin); isB && bi.Name() == "append" && canReachInstr(cj, ci2) {
										appended = true
									}
								}
								if ok2 && appended {
									good++
								}
							}
						}
						after = sites > 0 && good == sites
						how += sprintf("; through %d call site(s) of the helper", sites)
					}
					found = true
					r.Check(okp && after, "parser-validates|"+c.FuncKey(fn), c.Pos(ci.Pos()), "the parser rejects a custom extension whose "+field.Name()+" the validator refuses, before it is added to the list", how)
				}
			}
		}
	}
	if !found {
		r.Bad("parser-validates", "", "the extension parser applies "+c.FuncKey(validator)+" to "+field.Name()+" of every "+typeShort(c, T), "no such check found: a schema-valid but unparsable OID reaches the panic")
	}
}

func ruleYearRange(c *Ctx, r *Rep) {
	fn := c.validityParser()
	if fn == nil {
		r.Undecided("anchor:validity-parser", "", "no unique function fills CertificateValidity.From and .Until")
		return
	}
	idx := errResultIndex(fn.Signature)
	nSucc := 0
	for _, ret := range returnsOf(fn) {
		if k, ok := retResults(ret)[idx].(*ssa.Const); !ok || k.Value != nil {
			continue // error return
		}
		nSucc++
		type bnd struct{ lb, ub *int64 }
		bounds := map[string]*bnd{}
		for _, g := range guardsOf(ret.Block()) {
			// a boolean helper over one time value: what its answer true implies for the year
			if hc, isCall := g.Cond.(*ssa.Call); isCall && g.Truth {
				if hf := hc.Call.StaticCallee(); hf != nil && c.InModule(hf) && hf.Blocks != nil && len(hf.Params) == 1 && len(hc.Call.Args) == 1 {
					if lb, ub, okB := yearBoundsOfHelper(c, hf); okB {
						arg := hc.Call.Args[0]
						if yc, isYear := arg.(*ssa.Call); isYear && calleeFullName(yc) == "(time.Time).Year" {
							arg = yc.Call.Args[0] // a helper over the year itself
						} else if !typeIs(arg.Type(), "time", "Time") {
							continue
						}
						if f := fieldLoad(arg); f != nil {
							b := bounds[f.Name()]
							if b == nil {
								b = &bnd{}
								bounds[f.Name()] = b
							}
							l, u := lb, ub
							b.lb, b.ub = &l, &u
						}
					}
				}
				continue
			}
			bin, ok := g.Cond.(*ssa.BinOp)
			if !ok {
				continue
			}
			call, ok := bin.X.(*ssa.Call)
			k, ok2 := bin.Y.(*ssa.Const)
			if !ok || !ok2 || calleeFullName(call) != "(time.Time).Year" {
				continue
			}
			f := fieldLoad(call.Call.Args[0])
			if f == nil {
				continue
			}
			b := bounds[f.Name()]
			if b == nil {
				b = &bnd{}
				bounds[f.Name()] = b
			}
			op := bin.Op
			if !g.Truth {
				switch op {
				case token.LSS:
					op = token.GEQ
				case token.GTR:
					op = token.LEQ
				case token.LEQ:
					op = token.GTR
				case token.GEQ:
					op = token.LSS
				}
			}
			K := k.Int64()
			switch op {
			case token.LSS:
				v := K - 1
				b.ub = &v
			case token.LEQ:
				b.ub = &K
			case token.GTR:
				v := K + 1
				b.lb = &v
			case token.GEQ:
				b.lb = &K
			}
		}
		for _, name := range []string{"From", "Until"} {
			b := bounds[name]
			ok := b != nil && b.ub != nil && *b.ub <= 9999 && b.lb != nil && *b.lb >= 0
			found := "no bound"
			if b != nil && b.ub != nil && b.lb != nil {
				found = sprintf("%d..%d", *b.lb, *b.ub)
			} else if b != nil && b.ub != nil {
				found = sprintf("..%d", *b.ub)
			}
			r.Check(ok, sprintf("year-range|%s|return#%d", name, nSucc), c.Pos(ret.Pos()), "0 <= "+name+".Year() <= 9999 on every successful return", found)
			// and nothing narrower: every year a YYYY-MM-DD date can name (0000 … 9999, the latter RFC 5280's "no
			// well-defined expiration") is let through
			if ok {
				r.Check(*b.lb == 0 && *b.ub == 9999, sprintf("year-range-exact|%s|return#%d", name, nSucc), c.Pos(ret.Pos()), "the range let through is exactly 0..9999", found)
			}
		}
	}
	if nSucc == 0 {
		r.Undecided("shape:validity-parser", c.FnPos(fn), "no successful return found")
	}
}

var reYearCmp = regexp.MustCompile(`^(<|<=|>|>=)\((?:\(time\.Time\)\.Year\(P\$0\)|P\$0) ; K\((-?\d+)\)\)$`)

// yearBoundsOfHelper: for a boolean module function of one time.Time parameter, the bounds lb <= t.Year() <= ub that
// hold on every path on which it answers true (ok is false when some such path leaves a side open).
func yearBoundsOfHelper(c *Ctx, f *ssa.Function) (lb, ub int64, ok bool) {
	if hasLoop(f) || f.Signature.Results().Len() != 1 {
		return 0, 0, false
	}
	a := &atomizer{c: c, pv: c.newProv(), fn: f}
	first := true
	for _, ret := range returnsOf(f) {
		for _, pe := range phiEdges(retResults(ret)[0], ret.Block()) {
			var extra []literal
			if k, isK := pe.Val.(*ssa.Const); isK {
				if !constBool(k) {
					continue
				}
			} else {
				s, pos := a.atom(pe.Val)
				extra = []literal{{s, pos}}
			}
			from := pe.From
			if from == nil {
				from = ret.Block()
			}
			paths, okP := a.pathsDNF(f.Blocks[0], from, 64)
			if !okP {
				return 0, 0, false
			}
			for _, conj := range paths {
				var plb, pub *int64
				for _, l := range append(append([]literal{}, conj...), extra...) {
					m := reYearCmp.FindStringSubmatch(l.atom)
					if m == nil {
						continue
					}
					var K int64
					fmt.Sscan(m[2], &K)
					op := m[1]
					if !l.pos {
						op = map[string]string{"<": ">=", "<=": ">", ">": "<=", ">=": "<"}[op]
					}
					switch op {
					case "<":
						v := K - 1
						pub = &v
					case "<=":
						v := K
						pub = &v
					case ">":
						v := K + 1
						plb = &v
					case ">=":
						v := K
						plb = &v
					}
				}
				if plb == nil || pub == nil {
					return 0, 0, false
				}
				if first || *plb < lb {
					lb = *plb
				}
				if first || *pub > ub {
					ub = *pub
				}
				first = false
			}
		}
	}
	return lb, ub, !first
}

// signHostKey: fn's key when fn hosts the key-kind dispatch of signing - the signing function itself, or a helper whose
// only callers are the signing function and which contains the signature primitives.
func signHostKey(c *Ctx, fn *ssa.Function) string {
	signFn, _ := c.signFunc()
	if signFn == nil {
		return "\x00"
	}
	if fn == signFn {
		return c.FuncKey(fn)
	}
	hasPrim := false
	for _, ci := range c.signPrimitiveCalls() {
		if ci.Parent() == fn {
			hasPrim = true
		}
	}
	callers := c.Graph().Callers(fn)
	if hasPrim && len(callers) == 1 && callers[0] == signFn {
		return c.FuncKey(fn)
	}
	return "\x00"
}

// panicRole names the invariant that is expected to discharge a panic in fn, by what fn is (not by what it is called):
// the extension-OID lookup, the host of signing's key-kind dispatch, the hashing method, an Oid method of an extension
// configuration, the directory-walk callback.
func panicRole(c *Ctx, fn *ssa.Function) string {
	if fn == c.Func("generator/cert", "ExpectOid") {
		return "cert.ExpectOid"
	}
	if signHostKey(c, fn) == c.FuncKey(fn) {
		return "cert.CertificateContext.Sign"
	}
	if fn == c.Method("generator/config", "CertificateContent", "HashSum") {
		return "config.CertificateContent.HashSum"
	}
	if iface := c.extConfigIface(); iface != nil && fn.Name() == "Oid" && fn.Signature.Recv() != nil {
		for _, t := range c.implementations(iface) {
			if c.methodOf(t, "Oid") == fn {
				return "v1.CustomExtension.Oid"
			}
		}
	}
	for cb := range c.walkCallbacks() {
		if cb == fn {
			return "filesystem.importFiles$1"
		}
		// a helper only the callback calls (the dispatch on the configuration's type split out of it)
		if callers := c.Graph().Callers(fn); len(callers) == 1 && callers[0] == cb {
			return "filesystem.importFiles$1"
		}
	}
	return c.FuncKey(fn)
}

// handbackPaths: the same as a path table, polarity included. On every way through a Builder method that has called the
// common handler (builder, err := handler(x)): an exit that hands the pair back lies behind `builder != nil` or
// `err != nil`; every other successful exit lies behind `builder == nil` and `err == nil`, or behind the test that no raw
// value was given (the extension that cannot be overridden by content).
func handbackPaths(c *Ctx, r *Rep, fn, handler *ssa.Function) {
	if hasLoop(fn) && false {
		return
	}
	var call *ssa.Call
	for _, ci := range callsIn(fn) {
		if ci.Common().StaticCallee() == handler {
			call, _ = ci.(*ssa.Call)
		}
	}
	if call == nil {
		return
	}
	var b0, e1 ssa.Value
	for _, ref := range *call.Referrers() {
		if ex, ok := ref.(*ssa.Extract); ok {
			if ex.Index == 0 {
				b0 = ex
			} else {
				e1 = ex
			}
		}
	}
	if b0 == nil || e1 == nil {
		return
	}
	fk := c.FuncKey(fn)
	a := &atomizer{c: c, pv: c.newProv(), fn: fn, normEmpty: true}
	nb, ne := "nil("+a.o(b0)+")", "nil("+a.o(e1)+")"
	n := 0
	for _, ret := range returnsOf(fn) {
		if !call.Block().Dominates(ret.Block()) {
			continue
		}
		res := retResults(ret)
		if len(res) != 2 {
			continue
		}
		handback := res[0] == b0 && res[1] == e1
		if !handback && returnsNonNilError(ret) {
			continue // a failure of its own
		}
		// only the exits that can be reached without going round a loop are enumerated: the tests of the handler's
		// results come first in every Builder
		paths, okP := a.pathsDNF(call.Block(), ret.Block(), 4000)
		if !okP {
			continue
		}
		for _, p := range paths {
			sign := map[string]bool{}
			feasible := true
			rawEmpty := false
			for _, l := range p {
				if was, dup := sign[l.atom]; dup && was != l.pos {
					feasible = false
				}
				sign[l.atom] = l.pos
				if strings.HasPrefix(l.atom, "empty(") && strings.Contains(l.atom, "Raw") && l.pos {
					rawEmpty = true
				}
			}
			if !feasible {
				continue
			}
			bNil, bKnown := sign[nb]
			eNil, eKnown := sign[ne]
			n++
			if handback {
				good := (bKnown && !bNil) || (eKnown && !eNil)
				r.Check(good, sprintf("handback-path|%s#%d", fk, n), c.Pos(ret.Pos()), "the handler's pair is handed back where its builder or its error is known not to be nil", sprintf("builder nil: %v (tested %v), error nil: %v (tested %v)", bNil, bKnown, eNil, eKnown))
			} else {
				good := (bKnown && bNil && eKnown && eNil) || rawEmpty
				r.Check(good, sprintf("own-result-path|%s#%d", fk, n), c.Pos(ret.Pos()), "an exit with a result of its own lies behind builder == nil and err == nil (or behind the test that no raw value is given)", sprintf("builder nil: %v (tested %v), error nil: %v (tested %v), raw known empty: %v", bNil, bKnown, eNil, eKnown, rawEmpty))
			}
		}
	}
}
