package main

import (
	"go/token"
	"go/types"
	"strings"

	"golang.org/x/tools/go/ssa"
)

func init() {
	register(&Rule{Name: "ERR-POLARITY", Floor: 60, Run: ruleErrPolarity, Fixture: "fixture.invertedErrCheck",
		Doc: "every branch on `err == nil` / `err != nil` is the right way round, decided as a contradiction: where the error is known to be nil it is not returned, wrapped or logged as a failure, and where it is known to be non-nil the other results of the same call are not used (except to be logged)"})
}

// regionOf lists the blocks that can only be entered through edge idx of the branch ending b.
func regionOf(b *ssa.BasicBlock, idx int) []*ssa.BasicBlock {
	var out []*ssa.BasicBlock
	for _, x := range b.Parent().Blocks {
		if edgeDominates(b, idx, x) {
			out = append(out, x)
		}
	}
	return out
}

func ruleErrPolarity(c *Ctx, r *Rep) {
	isLog := func(ci ssa.CallInstruction) bool {
		f := ci.Common().StaticCallee()
		return f != nil && f.Pkg != nil && strings.HasSuffix(f.Pkg.Pkg.Path(), "/logging")
	}
	// the instruction that finally consumes v when v is boxed into an interface and packed into a variadic argument list
	var consumers func(v ssa.Value, seen map[ssa.Value]bool) []ssa.Instruction
	consumers = func(v ssa.Value, seen map[ssa.Value]bool) []ssa.Instruction {
		if seen[v] || v.Referrers() == nil {
			return nil
		}
		seen[v] = true
		var out []ssa.Instruction
		for _, ref := range *v.Referrers() {
			switch ref := ref.(type) {
			case *ssa.DebugRef:
			case *ssa.MakeInterface:
				out = append(out, consumers(ref, seen)...)
			case *ssa.ChangeInterface:
				out = append(out, consumers(ref, seen)...)
			case *ssa.Store:
				if ref.Val != v {
					continue
				}
				// element of a variadic argument array: follow the array to the slice and the call
				if ia, ok := ref.Addr.(*ssa.IndexAddr); ok {
					if al, ok := ia.X.(*ssa.Alloc); ok {
						for _, r2 := range *al.Referrers() {
							if sl, ok := r2.(*ssa.Slice); ok {
								out = append(out, consumers(sl, seen)...)
							}
						}
						continue
					}
				}
				out = append(out, ref)
			default:
				out = append(out, ref)
			}
		}
		return out
	}
	for _, fn := range c.Funcs {
		n := 0
		for _, b := range fn.Blocks {
			if len(b.Instrs) == 0 {
				continue
			}
			iff, ok := b.Instrs[len(b.Instrs)-1].(*ssa.If)
			if !ok {
				continue
			}
			x, nilOnTrue, ok := nilTestOf(iff.Cond, true)
			if !ok || !isErrorType(x.Type()) {
				continue
			}
			n++
			key := sprintf("%s#%d", c.FuncKey(fn), n)
			nilIdx, failIdx := 1, 0
			if nilOnTrue {
				nilIdx, failIdx = 0, 1
			}
			inNil := map[*ssa.BasicBlock]bool{}
			for _, rb := range regionOf(b, nilIdx) {
				inNil[rb] = true
			}
			inFail := map[*ssa.BasicBlock]bool{}
			for _, rb := range regionOf(b, failIdx) {
				inFail[rb] = true
			}
			bad := ""
			badPos := iff.Pos()
			// (a) the nil error is used as if it were one - and the non-nil one is not (a redundant second test, or a
			// closing `return err` after the failure was handled, uses the nil error too, but only besides the real handling)
			usedOnFailure := false
			for _, use := range consumers(x, map[ssa.Value]bool{}) {
				if _, isPhi := use.(*ssa.Phi); !isPhi && inFail[use.Block()] {
					usedOnFailure = true
				}
			}
			for _, use := range consumers(x, map[ssa.Value]bool{}) {
				if !inNil[use.Block()] || usedOnFailure {
					continue
				}
				switch u := use.(type) {
				case *ssa.Return:
					bad, badPos = "returned where it is known to be nil, and not used where it is known to be non-nil", u.Pos()
				case ssa.CallInstruction:
					bad, badPos = "passed to "+calleeFullName(u)+" where it is known to be nil, and not used where it is known to be non-nil", u.Pos()
				case *ssa.Store:
					bad, badPos = "stored where it is known to be nil, and not used where it is known to be non-nil", u.Pos()
				}
			}
			// (b) the other results of the failed call are used
			if ex, ok := x.(*ssa.Extract); ok && bad == "" {
				if call, ok := ex.Tuple.(*ssa.Call); ok {
					for _, ref := range *call.Referrers() {
						co, ok := ref.(*ssa.Extract)
						if !ok || co == ex || isErrorType(co.Type()) {
							continue
						}
						for _, use := range consumers(co, map[ssa.Value]bool{}) {
							if !inFail[use.Block()] {
								continue
							}
							if ci, ok := use.(ssa.CallInstruction); ok && (isLog(ci) || strings.HasPrefix(calleeFullName(ci), "fmt.")) {
								continue // reported, not used
							}
							if _, isPhi := use.(*ssa.Phi); isPhi {
								continue
							}
							if ret, isRet := use.(*ssa.Return); isRet && returnsNonNilError(ret) {
								continue // handed back beside the error: by convention not looked at
							}
							bad, badPos = sprintf("result %d of the failed call to %s is used where the error is known to be non-nil", co.Index, calleeFullName(call)), use.Pos()
						}
					}
				}
			}
			// (c) the failure branch is empty: the error is looked at and then ignored (the statement that returned it is gone)
			if bad == "" && b.Succs[0] == b.Succs[1] {
				bad, badPos = "both outcomes of the error test lead to the same place: the failure is tested and ignored", iff.Cond.Pos()
			}
			if bad == "" {
				fb := b.Succs[failIdx]
				if len(fb.Instrs) == 1 && len(fb.Preds) == 1 {
					if _, isJump := fb.Instrs[0].(*ssa.Jump); isJump && fb.Succs[0] == b.Succs[nilIdx] {
						// a branch that only assigns a variable shows as a join whose values differ by the way in
						join := fb.Succs[0]
						assigns := false
						iFail, iNil := -1, -1
						for i, p := range join.Preds {
							if p == fb {
								iFail = i
							}
							if p == b {
								iNil = i
							}
						}
						for _, ins := range join.Instrs {
							phi, ok := ins.(*ssa.Phi)
							if !ok {
								break
							}
							if iFail >= 0 && iNil >= 0 && phi.Edges[iFail] != phi.Edges[iNil] {
								assigns = true
							}
						}
						if !assigns {
							bad, badPos = "the branch taken for a non-nil error is empty: the failure is tested and ignored", iff.Cond.Pos()
						}
					}
				}
			}
			if !badPos.IsValid() {
				badPos = fn.Pos()
			}
			r.Check(bad == "", "test|"+key, c.Pos(badPos), "a nil error is not reported and the results of a failed call are not used", bad)
		}
	}
	okPolarity(c, r, consumers, isLog)
	forwardedPair(c, r)
	// an error compared with nil where nothing depends on the outcome (an `if err != nil { }` that lost its body
	// disappears from the flow graph altogether, only the comparison is left)
	for _, fn := range c.Funcs {
		n := 0
		for _, b := range fn.Blocks {
			for _, ins := range b.Instrs {
				// any comparison, negation or predicate call whose outcome nothing reads: the body of the `if` it belonged
				// to is gone (a rejection that lost its return)
				unused := func(v ssa.Value) bool {
					for _, ref := range *v.Referrers() {
						if _, isDbg := ref.(*ssa.DebugRef); !isDbg {
							return false
						}
					}
					return true
				}
				var val ssa.Value
				what := ""
				switch x := ins.(type) {
				case *ssa.BinOp:
					switch x.Op {
					case token.EQL, token.NEQ, token.LSS, token.LEQ, token.GTR, token.GEQ:
						val, what = x, "a comparison"
						if isErrorType(x.X.Type()) {
							what = "the error is compared with nil and"
						}
					}
				case *ssa.UnOp:
					if x.Op == token.NOT {
						val, what = x, "a negated condition"
					}
				case *ssa.Extract:
					// the ok of `v, ok := m[k]` / `v, ok := x.(T)` bound to a name and never looked at
					if x.Index == 1 {
						switch t := x.Tuple.(type) {
						case *ssa.Lookup:
							if t.CommaOk {
								val, what = x, "the ok of a map lookup"
							}
						case *ssa.TypeAssert:
							if t.CommaOk {
								val, what = x, "the ok of a type assertion"
							}
						}
					}
				case *ssa.Call:
					if res := x.Call.Signature().Results(); res.Len() == 1 {
						if bt, isB := res.At(0).Type().Underlying().(*types.Basic); isB && bt.Kind() == types.Bool {
							name := x.Call.Value.Name()
							if x.Call.IsInvoke() {
								name = x.Call.Method.Name()
							} else if f := x.Call.StaticCallee(); f != nil {
								name = f.Name()
							}
							for _, pre := range []string{"Is", "Has", "Equal", "Contains", "is", "has", "Before", "After"} {
								if strings.HasPrefix(name, pre) {
									val, what = x, "the answer of "+name
								}
							}
							// the predicates of the text and byte libraries have no effect but their answer
							if f := x.Call.StaticCallee(); f != nil {
								switch fnPkgPath(f) {
								case "strings", "bytes", "time", "unicode", "slices", "reflect":
									val, what = x, "the answer of "+f.Name()
								}
							}
						}
					}
				}
				if val == nil || !unused(val) {
					continue
				}
				// a negation is reported once, with what it negates
				if u, isNot := val.(*ssa.UnOp); isNot {
					_ = u
				} else {
					onlyNot := false
					_ = onlyNot
				}
				n++
				r.Check(false, sprintf("test-unused|%s#%d", c.FuncKey(fn), n), c.Pos(ins.Pos()), "the outcome of a test decides something", what+" is computed and nothing depends on it")
			}
		}
	}
}

// forwardedPair: a helper that is handed both results of a call, h(g()), with g answering (*T, error): inside h the
// pointer is dereferenced only where the error is known to be nil (or the pointer known not to be).
func forwardedPair(c *Ctx, r *Rep) {
	for _, h := range c.Funcs {
		var ep, pp *ssa.Parameter
		for _, prm := range h.Params {
			if isErrorType(prm.Type()) {
				ep = prm
			} else if _, isPtr := prm.Type().Underlying().(*types.Pointer); isPtr && pp == nil {
				pp = prm
			}
		}
		if ep == nil || pp == nil || h.Blocks == nil {
			continue
		}
		// is it called with the two results of one call?
		pair := false
		for _, caller := range c.Funcs {
			for _, site := range callsIn(caller) {
				if site.Common().StaticCallee() != h {
					continue
				}
				var tuples []ssa.Value
				for _, a := range site.Common().Args {
					if ex, ok := a.(*ssa.Extract); ok {
						tuples = append(tuples, ex.Tuple)
					}
				}
				for i := range tuples {
					for j := i + 1; j < len(tuples); j++ {
						if tuples[i] == tuples[j] {
							pair = true
						}
					}
				}
			}
		}
		if !pair {
			continue
		}
		n := 0
		for _, ref := range *pp.Referrers() {
			deref := false
			switch u := ref.(type) {
			case *ssa.FieldAddr:
				deref = u.X == ssa.Value(pp)
			case *ssa.UnOp:
				deref = u.Op == token.MUL && u.X == ssa.Value(pp)
			}
			if !deref {
				continue
			}
			n++
			safe := false
			for _, g := range guardsOf(ref.Block()) {
				if x, isNil, ok := nilTestOf(g.Cond, g.Truth); ok {
					if (x == ssa.Value(ep) && isNil) || (x == ssa.Value(pp) && !isNil) {
						safe = true
					}
				}
			}
			r.Check(safe, sprintf("forwarded-pair|%s#%d", c.FuncKey(h), n), c.Pos(ref.Pos()), "the value that came with an error is dereferenced only where the error is known to be nil", sprintf("%v", safe))
		}
	}
}

// okPolarity: the same for comma-ok forms (map lookups, type assertions): where ok is known to be false the value
// that came with it is not used.
func okPolarity(c *Ctx, r *Rep, consumers func(v ssa.Value, seen map[ssa.Value]bool) []ssa.Instruction, isLog func(ssa.CallInstruction) bool) {
	for _, fn := range c.Funcs {
		n := 0
		for _, b := range fn.Blocks {
			if len(b.Instrs) == 0 {
				continue
			}
			iff, ok := b.Instrs[len(b.Instrs)-1].(*ssa.If)
			if !ok {
				continue
			}
			cond, neg := iff.Cond, false
			if u, isNot := cond.(*ssa.UnOp); isNot && u.Op == token.NOT {
				cond, neg = u.X, true
			}
			ex, isEx := cond.(*ssa.Extract)
			if !isEx || ex.Index != 1 {
				continue
			}
			what := ""
			switch t := ex.Tuple.(type) {
			case *ssa.Lookup:
				if t.CommaOk {
					what = "map lookup"
				}
			case *ssa.TypeAssert:
				if t.CommaOk {
					what = "type assertion"
				}
			case *ssa.Call:
				// a module lookup function answering (value, found)
				if f := t.Call.StaticCallee(); f != nil && c.InModule(f) && f.Signature.Results().Len() == 2 {
					if bt, isB := f.Signature.Results().At(1).Type().Underlying().(*types.Basic); isB && bt.Kind() == types.Bool {
						what = "call of " + c.FuncKey(f)
					}
				}
			}
			if what == "" {
				continue
			}
			n++
			failIdx := 1 // ok false: the else edge
			if neg {
				failIdx = 0
			}
			inFail := map[*ssa.BasicBlock]bool{}
			for _, rb := range regionOf(b, failIdx) {
				inFail[rb] = true
			}
			bad, pos := "", ex.Pos()
			for _, ref := range *ex.Tuple.Referrers() {
				co, isCo := ref.(*ssa.Extract)
				if !isCo || co.Index != 0 {
					continue
				}
				for _, use := range consumers(co, map[ssa.Value]bool{}) {
					if !inFail[use.Block()] {
						continue
					}
					if ci, isCall := use.(ssa.CallInstruction); isCall && (isLog(ci) || strings.HasPrefix(calleeFullName(ci), "fmt.")) {
						continue
					}
					if _, isPhi := use.(*ssa.Phi); isPhi {
						continue
					}
					if ret, isRet := use.(*ssa.Return); isRet && returnsNonNilError(ret) {
						continue // handed back beside the error that reports the failure
					}
					bad, pos = "the value of a failed "+what+" is used where ok is known to be false", use.Pos()
				}
			}
			if !pos.IsValid() {
				pos = fn.Pos()
			}
			r.Check(bad == "", sprintf("ok-test|%s#%d", c.FuncKey(fn), n), c.Pos(pos), "the value of a failed lookup or assertion is not used", bad)
		}
	}
}

var _ = types.Typ
