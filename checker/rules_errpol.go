package main

import (
	"go/token"
	"go/types"
	"strings"

	"golang.org/x/tools/go/ssa"
)

func init() {
	register(&Rule{Name: "ERR-POLARITY", Floor: 60, Run: ruleErrPolarity, Fixture: "fixture.invertedErrCheck",
		Doc: "every branch on `err == nil` / `err != nil` is the right way round, decided as a contradiction: where the error is known to be nil it is not returned, wrapped or logged as a failure, and where it is known to be non-nil the other results of the same call are not used (except to be logged)"})
}

// regionOf lists the blocks that can only be entered through edge idx of the branch ending b.
func regionOf(b *ssa.BasicBlock, idx int) []*ssa.BasicBlock {
	var out []*ssa.BasicBlock
	for _, x := range b.Parent().Blocks {
		if edgeDominates(b, idx, x) {
			out = append(out, x)
		}
	}
	return out
}

func ruleErrPolarity(c *Ctx, r *Rep) {
	isLog := func(ci ssa.CallInstruction) bool {
		f := ci.Common().StaticCallee()
		return f != nil && f.Pkg != nil && strings.HasSuffix(f.Pkg.Pkg.Path(), "/logging")
	}
	// the instruction that finally consumes v when v is boxed into an interface and packed into a variadic argument list
	var consumers func(v ssa.Value, seen map[ssa.Value]bool) []ssa.Instruction
	consumers = func(v ssa.Value, seen map[ssa.Value]bool) []ssa.Instruction {
		if seen[v] || v.Referrers() == nil {
			return nil
		}
		seen[v] = true
		var out []ssa.Instruction
		for _, ref := range *v.Referrers() {
			switch ref := ref.(type) {
			case *ssa.DebugRef:
			case *ssa.MakeInterface:
				out = append(out, consumers(ref, seen)...)
			case *ssa.ChangeInterface:
				out = append(out, consumers(ref, seen)...)
			case *ssa.Store:
				if ref.Val != v {
					continue
				}
				// element of a variadic argument array: follow the array to the slice and the call
				if ia, ok := ref.Addr.(*ssa.IndexAddr); ok {
					if al, ok := ia.X.(*ssa.Alloc); ok {
						for _, r2 := range *al.Referrers() {
							if sl, ok := r2.(*ssa.Slice); ok {
								out = append(out, consumers(sl, seen)...)
							}
						}
						continue
					}
				}
				out = append(out, ref)
			default:
				out = append(out, ref)
			}
		}
		return out
	}
	for _, fn := range c.Funcs {
		n := 0
		for _, b := range fn.Blocks {
			if len(b.Instrs) == 0 {
				continue
			}
			iff, ok := b.Instrs[len(b.Instrs)-1].(*ssa.If)
			if !ok {
				continue
			}
			x, nilOnTrue, ok := nilTestOf(iff.Cond, true)
			if !ok || !isErrorType(x.Type()) {
				continue
			}
			n++
			key := sprintf("%s#%d", c.FuncKey(fn), n)
			nilIdx, failIdx := 1, 0
			if nilOnTrue {
				nilIdx, failIdx = 0, 1
			}
			inNil := map[*ssa.BasicBlock]bool{}
			for _, rb := range regionOf(b, nilIdx) {
				inNil[rb] = true
			}
			inFail := map[*ssa.BasicBlock]bool{}
			for _, rb := range regionOf(b, failIdx) {
				inFail[rb] = true
			}
			bad := ""
			badPos := iff.Pos()
			// (a) the nil error is used as if it were one - and the non-nil one is not (a redundant second test, or a
			// closing `return err` after the failure was handled, uses the nil error too, but only besides the real handling)
			usedOnFailure := false
			for _, use := range consumers(x, map[ssa.Value]bool{}) {
				if _, isPhi := use.(*ssa.Phi); !isPhi && inFail[use.Block()] {
					usedOnFailure = true
				}
			}
			for _, use := range consumers(x, map[ssa.Value]bool{}) {
				if !inNil[use.Block()] || usedOnFailure {
					continue
				}
				switch u := use.(type) {
				case *ssa.Return:
					bad, badPos = "returned where it is known to be nil, and not used where it is known to be non-nil", u.Pos()
				case ssa.CallInstruction:
					bad, badPos = "passed to "+calleeFullName(u)+" where it is known to be nil, and not used where it is known to be non-nil", u.Pos()
				case *ssa.Store:
					bad, badPos = "stored where it is known to be nil, and not used where it is known to be non-nil", u.Pos()
				}
			}
			// (b) the other results of the failed call are used
			if ex, ok := x.(*ssa.Extract); ok && bad == "" {
				if call, ok := ex.Tuple.(*ssa.Call); ok {
					for _, ref := range *call.Referrers() {
						co, ok := ref.(*ssa.Extract)
						if !ok || co == ex || isErrorType(co.Type()) {
							continue
						}
						for _, use := range consumers(co, map[ssa.Value]bool{}) {
							if !inFail[use.Block()] {
								continue
							}
							if ci, ok := use.(ssa.CallInstruction); ok && (isLog(ci) || strings.HasPrefix(calleeFullName(ci), "fmt.")) {
								continue // reported, not used
							}
							if _, isPhi := use.(*ssa.Phi); isPhi {
								continue
							}
							bad, badPos = sprintf("result %d of the failed call to %s is used where the error is known to be non-nil", co.Index, calleeFullName(call)), use.Pos()
						}
					}
				}
			}
			if !badPos.IsValid() {
				badPos = fn.Pos()
			}
			r.Check(bad == "", "test|"+key, c.Pos(badPos), "a nil error is not reported and the results of a failed call are not used", bad)
		}
	}
	okPolarity(c, r, consumers, isLog)
	forwardedPair(c, r)
}

// forwardedPair: a helper that is handed both results of a call, h(g()), with g answering (*T, error): inside h the
// pointer is dereferenced only where the error is known to be nil (or the pointer known not to be).
func forwardedPair(c *Ctx, r *Rep) {
	for _, h := range c.Funcs {
		var ep, pp *ssa.Parameter
		for _, prm := range h.Params {
			if isErrorType(prm.Type()) {
				ep = prm
			} else if _, isPtr := prm.Type().Underlying().(*types.Pointer); isPtr && pp == nil {
				pp = prm
			}
		}
		if ep == nil || pp == nil || h.Blocks == nil {
			continue
		}
		// is it called with the two results of one call?
		pair := false
		for _, caller := range c.Funcs {
			for _, site := range callsIn(caller) {
				if site.Common().StaticCallee() != h {
					continue
				}
				var tuples []ssa.Value
				for _, a := range site.Common().Args {
					if ex, ok := a.(*ssa.Extract); ok {
						tuples = append(tuples, ex.Tuple)
					}
				}
				for i := range tuples {
					for j := i + 1; j < len(tuples); j++ {
						if tuples[i] == tuples[j] {
							pair = true
						}
					}
				}
			}
		}
		if !pair {
			continue
		}
		n := 0
		for _, ref := range *pp.Referrers() {
			deref := false
			switch u := ref.(type) {
			case *ssa.FieldAddr:
				deref = u.X == ssa.Value(pp)
			case *ssa.UnOp:
				deref = u.Op == token.MUL && u.X == ssa.Value(pp)
			}
			if !deref {
				continue
			}
			n++
			safe := false
			for _, g := range guardsOf(ref.Block()) {
				if x, isNil, ok := nilTestOf(g.Cond, g.Truth); ok {
					if (x == ssa.Value(ep) && isNil) || (x == ssa.Value(pp) && !isNil) {
						safe = true
					}
				}
			}
			r.Check(safe, sprintf("forwarded-pair|%s#%d", c.FuncKey(h), n), c.Pos(ref.Pos()), "the value that came with an error is dereferenced only where the error is known to be nil", sprintf("%v", safe))
		}
	}
}

// okPolarity: the same for comma-ok forms (map lookups, type assertions): where ok is known to be false the value
// that came with it is not used.
func okPolarity(c *Ctx, r *Rep, consumers func(v ssa.Value, seen map[ssa.Value]bool) []ssa.Instruction, isLog func(ssa.CallInstruction) bool) {
	for _, fn := range c.Funcs {
		n := 0
		for _, b := range fn.Blocks {
			if len(b.Instrs) == 0 {
				continue
			}
			iff, ok := b.Instrs[len(b.Instrs)-1].(*ssa.If)
			if !ok {
				continue
			}
			cond, neg := iff.Cond, false
			if u, isNot := cond.(*ssa.UnOp); isNot && u.Op == token.NOT {
				cond, neg = u.X, true
			}
			ex, isEx := cond.(*ssa.Extract)
			if !isEx || ex.Index != 1 {
				continue
			}
			what := ""
			switch t := ex.Tuple.(type) {
			case *ssa.Lookup:
				if t.CommaOk {
					what = "map lookup"
				}
			case *ssa.TypeAssert:
				if t.CommaOk {
					what = "type assertion"
				}
			case *ssa.Call:
				// a module lookup function answering (value, found)
				if f := t.Call.StaticCallee(); f != nil && c.InModule(f) && f.Signature.Results().Len() == 2 {
					if bt, isB := f.Signature.Results().At(1).Type().Underlying().(*types.Basic); isB && bt.Kind() == types.Bool {
						what = "call of " + c.FuncKey(f)
					}
				}
			}
			if what == "" {
				continue
			}
			n++
			failIdx := 1 // ok false: the else edge
			if neg {
				failIdx = 0
			}
			inFail := map[*ssa.BasicBlock]bool{}
			for _, rb := range regionOf(b, failIdx) {
				inFail[rb] = true
			}
			bad, pos := "", ex.Pos()
			for _, ref := range *ex.Tuple.Referrers() {
				co, isCo := ref.(*ssa.Extract)
				if !isCo || co.Index != 0 {
					continue
				}
				for _, use := range consumers(co, map[ssa.Value]bool{}) {
					if !inFail[use.Block()] {
						continue
					}
					if ci, isCall := use.(ssa.CallInstruction); isCall && (isLog(ci) || strings.HasPrefix(calleeFullName(ci), "fmt.")) {
						continue
					}
					if _, isPhi := use.(*ssa.Phi); isPhi {
						continue
					}
					if ret, isRet := use.(*ssa.Return); isRet && returnsNonNilError(ret) {
						continue // handed back beside the error that reports the failure
					}
					bad, pos = "the value of a failed "+what+" is used where ok is known to be false", use.Pos()
				}
			}
			if !pos.IsValid() {
				pos = fn.Pos()
			}
			r.Check(bad == "", sprintf("ok-test|%s#%d", c.FuncKey(fn), n), c.Pos(pos), "the value of a failed lookup or assertion is not used", bad)
		}
	}
}

var _ = types.Typ
