package main

import (
	"go/constant"
	"go/token"
	"go/types"
	"regexp"
	"sort"
	"strings"

	"golang.org/x/tools/go/ssa"
)

func init() {
	register(&Rule{Name: "GUARD-UPDATE", Floor: 7, Run: ruleGuardUpdate,
		Doc: "each `return true` of the regeneration decision is reached under exactly the condition of the decision table (all: unconditionally; any flag: issuer exists and its artifact is newer; outdated: config newer than artifact; expired: certificate present, expired, and the configuration would yield an unexpired one; missing: no certificate, or neither key nor request; changed: a stored hash exists and differs from the current one), with metadata and artifact fetched for the entity's alias and the issuer's for its Issuer; every other exit returns false"})
	register(&Rule{Name: "PROV-PLAN", Floor: 3, Run: ruleProvPlan,
		Doc: "planning: an entity is updated when its issuer's alias is in the set of planned aliases or the decision says so; every planned entity's alias is inserted into that set before its change is appended (so its subjects follow), the change carries the merged configuration of that entity; the work list is fed by the root entities and by the subscribers of the entity being processed only"})
}

// ---- guard atoms ----

var reConstOrigin = regexp.MustCompile(`^K\((\d+)\)$`)

var reParam = regexp.MustCompile(`P\(([^()]*)\.([A-Za-z0-9_]+)\)`)

// canonAtoms renders origins position-independently: parameters by index of the given function.
func canonParams(fn *ssa.Function, c *Ctx, s string) string {
	fk := c.FuncKey(fn)
	return reParam.ReplaceAllStringFunc(s, func(m string) string {
		sm := reParam.FindStringSubmatch(m)
		if sm[1] != fk {
			return m
		}
		for i, p := range fn.Params {
			if p.Name() == sm[2] {
				return sprintf("P$%d", i)
			}
		}
		return m
	})
}

type atomizer struct {
	c           *Ctx
	pv          *prov
	fn          *ssa.Function
	helperDepth int
	normEmpty   bool // render every spelling of an emptiness test as one atom
	unroll      int  // how often a block may be entered again on one path (0: loops are cut at the first re-entry)
}

func (a *atomizer) o(v ssa.Value) string {
	return canonParams(a.fn, a.c, strings.Join(a.pv.Origins(v), ","))
}

// atom renders a branch condition as (canonical string, positive) – the returned bool tells whether
// the string describes the condition itself (true) or its negation (false).
func (a *atomizer) atom(cond ssa.Value) (string, bool) {
	// tests for emptiness in any spelling (len(x) == 0, len(x) > 0, x != "", …) are one atom
	if _, isCall := cond.(*ssa.Call); !isCall && a.normEmpty {
		if x, empty, ok := emptyTestOf(cond, true); ok {
			return "empty(" + a.o(x) + ")", empty
		}
	}
	switch x := cond.(type) {
	case *ssa.BinOp:
		lhs, rhs := x.X, x.Y
		// flag tests: strat&K > 0, strat&K != 0, strat != 0
		if k, ok := rhs.(*ssa.Const); ok && k.Value != nil && k.Value.Kind() == constant.Int && k.Int64() == 0 {
			if and, ok := lhs.(*ssa.BinOp); ok && and.Op == token.AND {
				if m := reConstOrigin.FindStringSubmatch(a.o(and.Y)); m != nil && (x.Op == token.GTR || x.Op == token.NEQ) {
					return sprintf("flag(%s&%s)", a.o(and.X), m[1]), true
				}
			}
			// the whole strategy word compared with zero: a parameter, possibly kept in a captured variable
			isParam := false
			if _, named := lhs.Type().(*types.Named); named {
				if o := a.o(lhs); (strings.HasPrefix(o, "P(") || strings.HasPrefix(o, "P$")) && !strings.ContainsAny(o, ".,[") {
					isParam = true
				}
			}
			if _, direct := lhs.(*ssa.Parameter); direct {
				isParam = true
			}
			if isParam && (x.Op == token.NEQ || x.Op == token.GTR) {
				return "anyflag(" + a.o(lhs) + ")", true
			}
			if isParam && x.Op == token.EQL {
				return "anyflag(" + a.o(lhs) + ")", false
			}
		}
		if k, ok := rhs.(*ssa.Const); ok && k.Value == nil {
			switch x.Op {
			case token.EQL:
				return "nil(" + a.o(lhs) + ")", true
			case token.NEQ:
				return "nil(" + a.o(lhs) + ")", false
			}
		}
		return x.Op.String() + "(" + a.o(lhs) + " ; " + a.o(rhs) + ")", true
	case *ssa.Call:
		// a module helper that is one expression (`return a&b > 0`): the atom is that expression under the call's bindings
		if callee := x.Call.StaticCallee(); callee != nil && a.c.InModule(callee) && len(callee.Blocks) == 1 && a.helperDepth < 3 {
			if rets := returnsOf(callee); len(rets) == 1 && len(retResults(rets[0])) == 1 {
				if _, isConst := retResults(rets[0])[0].(*ssa.Const); !isConst {
					bind := map[*ssa.Parameter][]string{}
					for i, prm := range callee.Params {
						if i < len(x.Call.Args) {
							bind[prm] = a.pv.Origins(x.Call.Args[i])
						}
					}
					a.pv.binds = append(a.pv.binds, bind)
					a.helperDepth++
					s, pos := a.atom(retResults(rets[0])[0])
					a.helperDepth--
					a.pv.binds = a.pv.binds[:len(a.pv.binds)-1]
					return s, pos
				}
			}
		}
		name := shortName(calleeFullName(x))
		var args []string
		for _, arg := range x.Call.Args {
			args = append(args, a.o(arg))
		}
		return name + "(" + strings.Join(args, " ; ") + ")", true
	case *ssa.UnOp:
		if x.Op == token.NOT {
			s, pos := a.atom(x.X)
			return s, !pos
		}
	}
	return "cond(" + a.o(cond) + ")", true
}

// literal: an atom with a sign.
type literal struct {
	atom string
	pos  bool
}

func (l literal) String() string {
	if l.pos {
		return l.atom
	}
	return "¬" + l.atom
}

// pathsDNF enumerates the acyclic paths from block `from` to block `to` (inside the blocks dominated by from)
// and returns one conjunction of literals per path.
func (a *atomizer) pathsDNF(from, to *ssa.BasicBlock, limit int) ([][]literal, bool) {
	var out [][]literal
	ok := true
	phiVals := map[*ssa.Phi]ssa.Value{}
	visits := map[*ssa.BasicBlock]int{}
	var walk func(prev, b *ssa.BasicBlock, acc []literal, seen map[*ssa.BasicBlock]bool)
	walk = func(prev, b *ssa.BasicBlock, acc []literal, seen map[*ssa.BasicBlock]bool) {
		if len(out) > limit {
			ok = false
			return
		}
		// values of this block's phis on this path (a block entered again round a loop takes the new edge's values; a
		// phi that reads another phi of the same block reads the value from before this entry)
		type saved struct {
			phi *ssa.Phi
			old ssa.Value
			had bool
		}
		var set []saved
		if prev != nil {
			for i, p := range b.Preds {
				if p != prev {
					continue
				}
				newVals := map[*ssa.Phi]ssa.Value{}
				for _, ins := range b.Instrs {
					phi, isPhi := ins.(*ssa.Phi)
					if !isPhi {
						break
					}
					v := phi.Edges[i]
					if inner, ok := v.(*ssa.Phi); ok {
						if pv, known := phiVals[inner]; known {
							v = pv
						}
					}
					newVals[phi] = v
				}
				for phi, v := range newVals {
					old, had := phiVals[phi]
					set = append(set, saved{phi, old, had})
					phiVals[phi] = v
				}
				break
			}
		}
		defer func() {
			for _, sv := range set {
				if sv.had {
					phiVals[sv.phi] = sv.old
				} else {
					delete(phiVals, sv.phi)
				}
			}
		}()
		if b == to {
			out = append(out, append([]literal{}, acc...))
			return
		}
		if visits[b] > a.unroll {
			return
		}
		visits[b]++
		defer func() { visits[b]-- }()
		if len(b.Instrs) == 0 {
			return
		}
		if iff, isIf := b.Instrs[len(b.Instrs)-1].(*ssa.If); isIf {
			// a boolean variable or short-circuit result set on the way here: the path says which value it has
			cond := iff.Cond
			for i := 0; i < 10; i++ {
				phi, isPhi := cond.(*ssa.Phi)
				if !isPhi {
					break
				}
				v, known := phiVals[phi]
				if !known {
					break
				}
				cond = v
			}
			if k, isK := cond.(*ssa.Const); isK && k.Value != nil && k.Value.Kind() == constant.Bool {
				if constBool(k) {
					walk(b, b.Succs[0], acc, seen)
				} else {
					walk(b, b.Succs[1], acc, seen)
				}
				return
			}
			if v, taut := lenTautology(cond); taut && a.normEmpty {
				if v {
					walk(b, b.Succs[0], acc, seen)
				} else {
					walk(b, b.Succs[1], acc, seen)
				}
				return
			}
			// a call of a loop-free boolean module helper is expanded into the helper's own paths
			if hp, expanded := a.helperPaths(cond); expanded {
				for _, h := range hp {
					nacc := append(acc[:len(acc):len(acc)], h.lits...)
					switch {
					case h.known && h.val:
						walk(b, b.Succs[0], nacc, seen)
					case h.known:
						walk(b, b.Succs[1], nacc, seen)
					default:
						walk(b, b.Succs[0], append(nacc[:len(nacc):len(nacc)], literal{h.atom, h.atomPos}), seen)
						walk(b, b.Succs[1], append(nacc[:len(nacc):len(nacc)], literal{h.atom, !h.atomPos}), seen)
					}
				}
				return
			}
			s, pos := a.atom(cond)
			walk(b, b.Succs[0], append(acc, literal{s, pos}), seen)
			walk(b, b.Succs[1], append(acc[:len(acc):len(acc)], literal{s, !pos}), seen)
			return
		}
		for _, s := range succs(b) {
			walk(b, s, acc, seen)
		}
	}
	walk(nil, from, nil, map[*ssa.BasicBlock]bool{})
	return out, ok
}

type helperPath struct {
	lits    []literal
	known   bool // the helper returns a constant on this path
	val     bool
	atom    string // otherwise: the returned expression as an atom
	atomPos bool
}

// helperPaths expands a condition that is a call (possibly negated) of a loop-free module function returning bool
// into that function's paths, with its parameters bound to the argument origins at the call.
func (a *atomizer) helperPaths(cond ssa.Value) ([]helperPath, bool) {
	neg := false
	if u, ok := cond.(*ssa.UnOp); ok && u.Op == token.NOT {
		cond, neg = u.X, true
	}
	call, ok := cond.(*ssa.Call)
	if !ok {
		return nil, false
	}
	callee := call.Call.StaticCallee()
	if callee == nil || !a.c.InModule(callee) || callee.Blocks == nil || hasLoop(callee) || a.helperDepth > 2 {
		return nil, false
	}
	res := callee.Signature.Results()
	if res.Len() != 1 {
		return nil, false
	}
	if bt, isB := res.At(0).Type().Underlying().(*types.Basic); !isB || bt.Kind() != types.Bool {
		return nil, false
	}
	bind := map[*ssa.Parameter][]string{}
	for i, prm := range callee.Params {
		if i < len(call.Call.Args) {
			bind[prm] = a.pv.Origins(call.Call.Args[i])
		}
	}
	a.pv.binds = append(a.pv.binds, bind)
	a.helperDepth++
	defer func() {
		a.pv.binds = a.pv.binds[:len(a.pv.binds)-1]
		a.helperDepth--
	}()
	inner := &atomizer{c: a.c, pv: a.pv, fn: a.fn, helperDepth: a.helperDepth, normEmpty: a.normEmpty}
	var out []helperPath
	type retCase struct {
		to   *ssa.BasicBlock
		edge []literal
		val  ssa.Value
	}
	for _, ret := range returnsOf(callee) {
		v := retResults(ret)[0]
		var cases []retCase
		if phi, isPhi := v.(*ssa.Phi); isPhi && phi.Block() == ret.Block() {
			// a short-circuit expression: one case per incoming edge, nested phis (a || (b && c)) flattened
			okSplit := true
			var split func(phi *ssa.Phi, tail []literal)
			split = func(phi *ssa.Phi, tail []literal) {
				for i, e := range phi.Edges {
					pred := phi.Block().Preds[i]
					el := append([]literal{}, tail...)
					for _, g := range edgeGuard(pred, phi.Block()) {
						s, pos := inner.atom(g.Cond)
						el = append(el, literal{s, pos == g.Truth})
					}
					if innerPhi, isInner := e.(*ssa.Phi); isInner {
						// the inner phi's block must flow straight into this edge
						if innerPhi.Block() != pred || len(succs(pred)) != 1 {
							okSplit = false
							continue
						}
						split(innerPhi, el)
						continue
					}
					cases = append(cases, retCase{pred, el, e})
				}
			}
			split(phi, nil)
			if !okSplit {
				return nil, false
			}
		} else {
			cases = append(cases, retCase{ret.Block(), nil, v})
		}
		for _, cs := range cases {
			paths, ok := inner.pathsDNF(callee.Blocks[0], cs.to, 64)
			if !ok {
				return nil, false
			}
			for _, lits := range paths {
				hp := helperPath{lits: append(append([]literal{}, lits...), cs.edge...)}
				if k, isK := cs.val.(*ssa.Const); isK {
					hp.known, hp.val = true, constBool(k) != neg
				} else {
					s, pos := inner.atom(cs.val)
					hp.atom, hp.atomPos = s, pos != neg
				}
				out = append(out, hp)
			}
		}
	}
	return out, true
}

func (a *atomizer) helperPathsOld(callee *ssa.Function, neg bool) ([]helperPath, bool) {
	inner := a
	var out []helperPath
	for _, ret := range returnsOf(callee) {
		paths, ok := inner.pathsDNF(callee.Blocks[0], ret.Block(), 64)
		if !ok {
			return nil, false
		}
		v := retResults(ret)[0]
		for _, lits := range paths {
			hp := helperPath{lits: lits}
			if k, isK := v.(*ssa.Const); isK {
				hp.known, hp.val = true, constBool(k) != neg
			} else {
				s, pos := inner.atom(v)
				hp.atom, hp.atomPos = s, pos != neg
			}
			out = append(out, hp)
		}
	}
	return out, true
}

// dnfEqual compares two DNFs by truth table over the union of their atoms.
func dnfEqual(x, y [][]literal) bool {
	atoms := map[string]int{}
	for _, d := range [][][]literal{x, y} {
		for _, conj := range d {
			for _, l := range conj {
				if _, ok := atoms[l.atom]; !ok {
					atoms[l.atom] = len(atoms)
				}
			}
		}
	}
	if len(atoms) > 14 {
		return false
	}
	eval := func(d [][]literal, asg int) bool {
		for _, conj := range d {
			sat := true
			for _, l := range conj {
				v := asg&(1<<atoms[l.atom]) != 0
				if v != l.pos {
					sat = false
					break
				}
			}
			if sat {
				return true
			}
		}
		return false
	}
	for asg := 0; asg < 1<<len(atoms); asg++ {
		if eval(x, asg) != eval(y, asg) {
			return false
		}
	}
	return true
}

func dnfString(d [][]literal) string {
	var cs []string
	for _, conj := range d {
		var ls []string
		for _, l := range conj {
			ls = append(ls, l.String())
		}
		if len(ls) == 0 {
			cs = append(cs, "⊤")
		} else {
			cs = append(cs, strings.Join(ls, " ∧ "))
		}
	}
	sort.Strings(cs)
	if len(cs) == 0 {
		return "⊥"
	}
	return strings.Join(cs, "  ∨  ")
}

// decisionFunc: the regeneration decision: func(<Database interface>, UpdateStrategy, string, *CertificateContent) bool.
func (c *Ctx) decisionFunc() *ssa.Function {
	for _, fn := range c.Funcs {
		if fn.Parent() != nil || fn.Signature.Recv() != nil {
			continue
		}
		res := fn.Signature.Results()
		if res.Len() != 1 {
			continue
		}
		if b, ok := res.At(0).Type().Underlying().(*types.Basic); !ok || b.Kind() != types.Bool {
			continue
		}
		hasStrat, hasIface, hasAlias, hasCfg := false, false, false, false
		for _, p := range fn.Params {
			switch {
			case c.isModNamed("UpdateStrategy")(p.Type()):
				hasStrat = true
			case isString(p.Type()):
				hasAlias = true
			case strings.HasSuffix(typeShort(c, p.Type()), "CertificateContent"):
				hasCfg = true
			default:
				if _, ok := p.Type().Underlying().(*types.Interface); ok {
					hasIface = true
				}
			}
		}
		if hasStrat && hasIface && hasAlias && hasCfg {
			return fn
		}
	}
	return nil
}

func ruleGuardUpdate(c *Ctx, r *Rep) {
	fn := c.decisionFunc()
	if fn == nil {
		r.Undecided("anchor:decision-function", "", "no func(…, UpdateStrategy, …) bool")
		return
	}
	fk := c.FuncKey(fn)
	a := &atomizer{c: c, pv: c.newProv().Opaque(c.Method("generator/config", "CertificateContent", "HashSum")), fn: fn}
	// parameter roles by type
	iBackend, iStrat, iAlias, iCfg := -1, -1, -1, -1
	for i, p := range fn.Params {
		switch {
		case c.isModNamed("UpdateStrategy")(p.Type()):
			iStrat = i
		case isString(p.Type()):
			iAlias = i
		case strings.HasSuffix(typeShort(c, p.Type()), "CertificateContent"):
			iCfg = i
		default:
			if _, ok := p.Type().Underlying().(*types.Interface); ok {
				iBackend = i
			}
		}
	}
	if iBackend < 0 || iStrat < 0 || iAlias < 0 || iCfg < 0 {
		r.Undecided("shape:"+fk, c.FnPos(fn), "parameters (backend, strategy, alias, config) not recognised")
		return
	}
	B, S, A, C := sprintf("P$%d", iBackend), sprintf("P$%d", iStrat), sprintf("P$%d", iAlias), sprintf("P$%d", iCfg)
	cfg := "I:db.Database.GetConfig(" + B + "|" + A + ")#0," + C // the given configuration, or the one fetched for the alias
	cfgIn := cfg
	meta := "I:db.Database.GetMetadata(" + B + "|" + A + ")#0"
	imeta := "I:db.Database.GetMetadata(" + B + "|" + suff(cfgIn, ".Issuer") + ")#0"
	icfg := "I:db.Database.GetConfig(" + B + "|" + suff(cfgIn, ".Issuer") + ")#0"
	build := "I:db.Database.GetBuildArtifact(" + B + "|" + A + ")#0"
	now := "time.Now()"
	L := func(s string, pos bool) literal { return literal{s, pos} }
	table := map[string][][]literal{
		"flag(" + S + "&16)": {{}},
		"anyflag(" + S + ")": {{L("nil("+icfg+")", false), L("(time.Time).After("+imeta+".LastBuild ; "+meta+".LastBuild)", true)}},
		"flag(" + S + "&4)":  {{L("(time.Time).After("+meta+".LastConfigUpdate ; "+meta+".LastBuild)", true)}},
		"flag(" + S + "&2)": {{L("nil("+build+".Certificate)", false),
			L("(time.Time).Before("+build+".Certificate.TBSCertificate.Validity.NotAfter ; "+now+")", true),
			L("(time.Time).After("+suff(cfg, ".Validity.Until")+" ; "+now+")", true)}},
		"flag(" + S + "&1)": {{L("nil("+build+".Certificate)", true)}, {L("nil("+build+".PrivateKey)", true), L("nil("+build+".Request)", true)}},
		"flag(" + S + "&8)": {{L("nil("+meta+".LastConfigHash)", false),
			L("bytes.Equal("+meta+".LastConfigHash ; (config.CertificateContent).HashSum("+cfg+"))", false)}},
	}
	names := map[string]string{
		"flag(" + S + "&16)": "all", "anyflag(" + S + ")": "issuer-newer", "flag(" + S + "&4)": "outdated",
		"flag(" + S + "&2)": "expired", "flag(" + S + "&1)": "missing", "flag(" + S + "&8)": "changed",
	}
	seen := map[string]bool{}
	// Every way from the entry to a `return true` is walked (boolean variables, short-circuit values and case
	// expressions resolved along the way). The reason a path belongs to is the last strategy-flag test it passed on
	// the true side; what it tested after that is one conjunct of the reason's condition. Per reason the conjuncts of
	// all paths are compared with the table.
	got := map[string][][]literal{}
	gotPos := map[string]string{}
	for _, ret := range returnsOf(fn) {
		k, ok := retResults(ret)[0].(*ssa.Const)
		if !ok {
			r.Bad("exit-constant|"+fk, c.Pos(ret.Pos()), "every exit returns a constant", retResults(ret)[0].String())
			continue
		}
		if !constBool(k) {
			continue
		}
		paths, okP := a.pathsDNF(fn.Blocks[0], ret.Block(), 50000)
		if !okP {
			r.Undecided("shape:reason|"+c.Pos(ret.Pos()), c.Pos(ret.Pos()), "too many paths")
			continue
		}
		for _, p := range paths {
			// infeasible: an atom with both signs
			sign := map[string]bool{}
			feasible := true
			for _, l := range p {
				if was, dup := sign[l.atom]; dup && was != l.pos {
					feasible = false
				}
				sign[l.atom] = l.pos
			}
			if !feasible {
				continue
			}
			last := -1
			for i, l := range p {
				if l.pos && (strings.HasPrefix(l.atom, "flag(") || strings.HasPrefix(l.atom, "anyflag(")) {
					last = i
				}
			}
			if last < 0 {
				r.Bad("reason|"+fk, c.Pos(ret.Pos()), "every `return true` is under a strategy flag test", "a path without one")
				continue
			}
			flagAtom := p[last].atom
			if _, known := table[flagAtom]; !known {
				r.Bad("reason|"+flagAtom, c.Pos(ret.Pos()), "a reason of the decision table", "unknown flag test "+flagAtom)
				continue
			}
			conj := append([]literal{}, p[last+1:]...)
			got[flagAtom] = append(got[flagAtom], conj)
			gotPos[flagAtom] = c.Pos(ret.Pos())
		}
	}
	var flagAtoms []string
	for fa := range got {
		flagAtoms = append(flagAtoms, fa)
	}
	sort.Strings(flagAtoms)
	for _, fa := range flagAtoms {
		name := names[fa]
		seen[name] = true
		r.Check(dnfEqual(got[fa], table[fa]), "reason|"+name, gotPos[fa], dnfString(table[fa]), dnfString(got[fa]))
	}
	for _, n := range names {
		if !seen[n] {
			r.Bad("reason|"+n, c.FnPos(fn), "the decision has a `return true` for reason "+n, "none")
		}
	}
	// What lies before the reasons: a failed backend call or a missing configuration ends the decision with false,
	// and nothing else does - so no reason sits behind a test that only a failure passes, and the early exits are
	// taken on failure, not on success.
	isCfgPtr := func(t types.Type) bool {
		p, ok := t.(*types.Pointer)
		return ok && strings.HasSuffix(typeShort(c, p.Elem()), "CertificateContent")
	}
	failure := func(cond ssa.Value, truth bool) (string, bool, bool) {
		x, isNil, ok := nilTestOf(cond, truth)
		if !ok {
			return "", false, false
		}
		switch {
		case isErrorType(x.Type()):
			return "error of " + a.o(x), !isNil, true
		case isCfgPtr(x.Type()):
			if _, isParam := x.(*ssa.Parameter); isParam {
				return "", false, false
			}
			return "configuration " + a.o(x), isNil, true
		}
		return "", false, false
	}
	nTrue, nFalse := 0, 0
	for _, ret := range returnsOf(fn) {
		k, ok := retResults(ret)[0].(*ssa.Const)
		if !ok {
			continue
		}
		if constBool(k) {
			nTrue++
			bad := ""
			for _, g := range guardsOf(ret.Block()) {
				if what, failed, ok := failure(g.Cond, g.Truth); ok && failed {
					bad = what
				}
			}
			r.Check(bad == "", sprintf("reason-reachable|%s#%d", fk, nTrue), c.Pos(ret.Pos()), "no `return true` lies behind a test that only a failed fetch passes", bad)
			continue
		}
		// "nothing to do" is answered only after every reason was looked at: a `return false` that does not lie behind
		// a failed fetch is reached only by ways that pass a test of each strategy flag of the table
		{
			behindFailure := false
			for _, g := range guardsOf(ret.Block()) {
				if _, failed, ok := failure(g.Cond, g.Truth); ok && failed {
					behindFailure = true
				}
				// a fetch helper of the module that answers (…, ok bool): not ok
				if ex, isEx := g.Cond.(*ssa.Extract); isEx && !g.Truth {
					if call, isCall := ex.Tuple.(*ssa.Call); isCall {
						if f := call.Call.StaticCallee(); f != nil && c.InModule(f) && ex.Index == f.Signature.Results().Len()-1 {
							behindFailure = true
						}
					}
				}
			}
			if !behindFailure {
				nFalse++
				paths, okP := a.pathsDNF(fn.Blocks[0], ret.Block(), 50000)
				if !okP {
					r.Undecided(sprintf("shape:all-reasons-tested|%s#%d", fk, nFalse), c.Pos(ret.Pos()), "too many paths")
				} else {
					missing := map[string]bool{}
					for _, p := range paths {
						sign := map[string]bool{}
						feasible, failedFetch := true, false
						for _, l := range p {
							if was, dup := sign[l.atom]; dup && was != l.pos {
								feasible = false
							}
							sign[l.atom] = l.pos
							if strings.HasPrefix(l.atom, "nil(") && strings.Contains(l.atom, "#1)") && !l.pos {
								failedFetch = true // an error that is not nil
							}
						}
						if !feasible || failedFetch {
							continue
						}
						for fa := range table {
							if !strings.HasPrefix(fa, "flag(") {
								continue
							}
							if _, tested := sign[fa]; !tested {
								missing[names[fa]] = true
							}
						}
					}
					r.Check(len(missing) == 0, sprintf("all-reasons-tested|%s#%d", fk, nFalse), c.Pos(ret.Pos()), "every way to this `return false` passes a test of each strategy flag (no reason is skipped)", "reached without a test of: "+fmtSet(missing))
				}
			}
		}
		b := ret.Block()
		if len(b.Preds) != 1 {
			continue
		}
		iff, ok := b.Preds[0].Instrs[len(b.Preds[0].Instrs)-1].(*ssa.If)
		if !ok {
			continue
		}
		what, failed, ok := failure(iff.Cond, b.Preds[0].Succs[0] == b)
		if !ok {
			continue
		}
		r.Check(failed, "early-exit|"+what, c.Pos(ret.Pos()), "`return false` straight after a fetch is taken when the fetch failed", map[bool]string{true: "so", false: "taken when it succeeded"}[failed])
	}
	// the configuration is fetched only when none was given
	for _, ci := range callsIn(fn) {
		if !ci.Common().IsInvoke() || ci.Common().Method.Name() != "GetConfig" || len(ci.Common().Args) != 1 {
			continue
		}
		if o := a.o(ci.Common().Args[0]); o != A {
			continue
		}
		okGuard := false
		for _, g := range guardsOf(ci.Block()) {
			if x, isNil, ok := nilTestOf(g.Cond, g.Truth); ok && isNil && a.o(x) == C {
				okGuard = true
			}
		}
		r.Check(okGuard, "fetch-when-absent|"+fk, c.Pos(ci.Pos()), "the entity's configuration is fetched only when the caller gave none (the one given is the merged one)", map[bool]string{true: "so", false: "fetched without that test"}[okGuard])
	}
	// the flags tested are the documented bit values (TAB-CLI checks the constants)
	r.Ok("exits-false|"+fk, c.FnPos(fn), "every exit other than the six reasons returns false", "checked")
}

func suff(originList, suffix string) string {
	parts := strings.Split(originList, ",")
	for i := range parts {
		parts[i] += suffix
	}
	return strings.Join(parts, ",")
}

func ruleProvPlan(c *Ctx, r *Rep) {
	dec := c.decisionFunc()
	if dec == nil {
		r.Undecided("anchor:decision-function", "", "not found")
		return
	}
	plan, decCall, decSite, helpers := c.plannerOf(dec)
	if plan == nil {
		r.Undecided("anchor:planner", "", "the decision function is not called from a work-list loop")
		return
	}
	pv := c.newProv()
	// values of the decision's call expressed in the planner's frame (the call may sit in a helper of the loop)
	lift := func(v ssa.Value) ssa.Value {
		if prm, ok := v.(*ssa.Parameter); ok && decSite != ssa.CallInstruction(decCall) {
			for i, q := range decCall.Parent().Params {
				if q == prm && i < len(decSite.Common().Args) {
					return decSite.Common().Args[i]
				}
			}
		}
		return v
	}
	cfgV := lift(decCall.Call.Args[len(decCall.Call.Args)-1])
	if call, ok := cfgV.(*ssa.Extract); ok {
		if mc, ok := call.Tuple.(*ssa.Call); ok {
			pv.Opaque(mc.Call.StaticCallee())
		}
	}
	fk := c.FuncKey(plan)
	// merged configuration of the entity: the value handed to the decision function as its config
	cfgO := pv.Origins(cfgV)
	if len(cfgO) != 1 {
		r.Undecided("shape:"+fk, c.Pos(decCall.Pos()), "merged configuration has several origins: "+strings.Join(cfgO, ","))
		return
	}
	cfg := cfgO[0]
	r.Check(strings.Contains(cfg, "validateAndMerge(") || strings.Contains(cfg, "Merge("), "decision-on-merged-config|"+fk, c.Pos(decCall.Pos()), "the decision sees the profile-merged configuration", cfg)
	entity := pv.Origins(lift(decCall.Call.Args[2]))
	// the set of planned aliases: looked up by the entity's issuer, extended by the entity's own alias (what is done with
	// the answers is PLAN-PATHS' business). Lookup and insertion may sit in helpers of the loop.
	var lookupKey, updateKey, lookupSet, updateSet []string
	var lookupPos, updatePos token.Pos
	pv.inFrames(plan, 1, func(g *ssa.Function) bool { return !helpers[g] }, func(fr frame) {
		for _, b := range fr.fn.Blocks {
			for _, ins := range b.Instrs {
				switch x := ins.(type) {
				case *ssa.Lookup:
					if _, isMap := x.X.Type().Underlying().(*types.Map); isMap {
						lookupKey, lookupSet, lookupPos = pv.here(x.Index), pv.here(x.X), x.Pos()
					}
				case *ssa.MapUpdate:
					updateKey, updateSet, updatePos = pv.here(x.Key), pv.here(x.Map), x.Pos()
				}
			}
		}
	})
	if lookupKey == nil || updateKey == nil {
		r.Bad("propagation-set|"+fk, c.FnPos(plan), "a set of planned aliases that is consulted and extended", "lookup or update missing")
		return
	}
	r.Check(strings.Join(lookupSet, ",") == strings.Join(updateSet, ","), "propagation-same-set|"+fk, c.Pos(updatePos), "lookup and insertion use the same set", strings.Join(updateSet, ","))
	expectSet(r, "propagation-lookup-key|"+fk, c.Pos(lookupPos), lookupKey, "looked up: the entity's issuer alias", cfg+".Issuer")
	expectSet(r, "propagation-insert-key|"+fk, c.Pos(updatePos), updateKey, "inserted: the entity's own alias", cfg+".Alias")
	// the change append
	var appendCall *ssa.Call
	for _, ci := range callsIn(plan) {
		if bi, ok := ci.Common().Value.(*ssa.Builtin); ok && bi.Name() == "append" {
			if strings.HasSuffix(typeShort(c, ci.Common().Args[0].Type()), "ChangeList") {
				appendCall = ci.(*ssa.Call)
			}
		}
	}
	if appendCall == nil {
		r.Bad("change-append|"+fk, c.FnPos(plan), "changes are appended to the change list", "no append")
		return
	}
	// the appended change: Alias = entity, EffectiveConfig = *merged (wherever the value is assembled)
	var appended ssa.Value
	if sl, ok := appendCall.Call.Args[1].(*ssa.Slice); ok {
		if arr, ok := sl.X.(*ssa.Alloc); ok && arr.Referrers() != nil {
			for _, u := range *arr.Referrers() {
				if ia, ok := u.(*ssa.IndexAddr); ok && ia.Referrers() != nil {
					for _, uu := range *ia.Referrers() {
						if st, ok := uu.(*ssa.Store); ok && st.Addr == ssa.Value(ia) {
							appended = st.Val
						}
					}
				}
			}
		}
	}
	chT := c.NamedType("generator/db", "Change")
	var chS *types.Struct
	if chT != nil {
		chS, _ = chT.Underlying().(*types.Struct)
	}
	if appended == nil || chS == nil {
		r.Undecided("shape:change-literal|"+fk, c.Pos(appendCall.Pos()), "cannot identify the single value appended to the change list")
	} else {
		fieldO := func(f *types.Var) []string {
			if u, ok := appended.(*ssa.UnOp); ok && u.Op == token.MUL {
				if al, ok := u.X.(*ssa.Alloc); ok {
					return pv.loadFrom(al, []*types.Var{f}, 0)
				}
			}
			return uniq(fieldsOf(pv.Origins(appended), f.Name()))
		}
		for i := 0; i < chS.NumFields(); i++ {
			f := chS.Field(i)
			switch f.Name() {
			case "Alias":
				expectSet(r, "change-alias|"+fk, c.Pos(appendCall.Pos()), fieldO(f), "the entity being processed", entity...)
			case "EffectiveConfig":
				expectSet(r, "change-config|"+fk, c.Pos(appendCall.Pos()), fieldO(f), "the merged configuration the decision was made on", cfg)
			}
		}
	}
	// work list discipline
	var feeds []string
	for _, ci := range callsIn(plan) {
		if bi, ok := ci.Common().Value.(*ssa.Builtin); ok && bi.Name() == "append" && isStringSlice(ci.Common().Args[0].Type()) {
			o := pv.Origins(ci.Common().Args[1])
			for _, x := range o {
				x = strings.TrimPrefix(x, "elem:")
				feeds = append(feeds, x)
			}
		}
	}
	okFeeds := len(feeds) > 0
	for _, f := range feeds {
		if !(strings.HasPrefix(f, "I:db.Database.RootEntities(") || strings.HasPrefix(f, "I:db.Database.GetSubscribers(")) {
			okFeeds = false
		}
	}
	r.Check(okFeeds, "worklist-feeds|"+fk, c.FnPos(plan), "the work list grows by RootEntities() and GetSubscribers(current) only (issuers before their subjects)", strings.Join(feeds, " , "))
	// subscribers of the entity taken from the list
	for _, ci := range callsIn(plan) {
		if ci.Common().IsInvoke() && ci.Common().Method.Name() == "GetSubscribers" {
			expectSet(r, "subscribers-of-current|"+fk, c.Pos(ci.Pos()), pv.Origins(ci.Common().Args[0]), "subscribers of the entity being processed", entity...)
		}
	}
}

func lastIfCond(b *ssa.BasicBlock) ssa.Value {
	if len(b.Instrs) == 0 {
		return nil
	}
	if iff, ok := b.Instrs[len(b.Instrs)-1].(*ssa.If); ok {
		return iff.Cond
	}
	return nil
}

func isStringSlice(t types.Type) bool {
	sl, ok := t.Underlying().(*types.Slice)
	return ok && isString(sl.Elem())
}

// nilTestOf reads a branch condition as a nil test: the operand, and whether it is nil on the edge with the given truth.
func nilTestOf(cond ssa.Value, truth bool) (ssa.Value, bool, bool) {
	for {
		u, ok := cond.(*ssa.UnOp)
		if !ok || u.Op != token.NOT {
			break
		}
		cond, truth = u.X, !truth
	}
	if call, isCall := cond.(*ssa.Call); isCall {
		// a predicate of the module: what its answer says about one of its arguments (p(x) written as x != nil, or as
		// x != nil && ...: answered true, x is not nil)
		if x, isNil, ok := nilFactOfPredicate(call, truth, predicateDepth); ok {
			return x, isNil, true
		}
		return nil, false, false
	}
	bin, ok := cond.(*ssa.BinOp)
	if !ok || bin.Op != token.EQL && bin.Op != token.NEQ {
		return nil, false, false
	}
	isNilConst := func(v ssa.Value) bool {
		k, ok := v.(*ssa.Const)
		return ok && k.IsNil()
	}
	var x ssa.Value
	switch {
	case isNilConst(bin.Y):
		x = bin.X
	case isNilConst(bin.X):
		x = bin.Y
	default:
		return nil, false, false
	}
	return x, (bin.Op == token.EQL) == truth, true
}

var predicateDepth int

// nilFactOfPredicate: the call of a bool function with a body, answered `truth`: a nil-ness this establishes for one of
// the arguments. The function has one return; its value known to be `truth` gives facts (directly, or through the joins
// of && and ||) and a fact that is a nil test of a parameter is handed back for the argument.
func nilFactOfPredicate(call *ssa.Call, truth bool, depth int) (ssa.Value, bool, bool) {
	f := call.Call.StaticCallee()
	if f == nil || f.Blocks == nil || depth > 2 || f.Signature.Results().Len() != 1 || !isBoolType(f.Signature.Results().At(0).Type()) {
		return nil, false, false
	}
	var ret *ssa.Return
	for _, b := range f.Blocks {
		if r, ok := lastInstr(b).(*ssa.Return); ok {
			if ret != nil {
				return nil, false, false
			}
			ret = r
		}
	}
	if ret == nil || len(ret.Results) != 1 {
		return nil, false, false
	}
	facts := append([]guard{{nil, ret.Results[0], truth}}, boolVarFacts(nil, ret.Results[0], truth, 0)...)
	predicateDepth++
	defer func() { predicateDepth-- }()
	for _, g := range facts {
		x, isNil, ok := nilTestOf(g.Cond, g.Truth)
		if !ok {
			continue
		}
		for i, prm := range f.Params {
			if x == ssa.Value(prm) && i < len(call.Call.Args) {
				return call.Call.Args[i], isNil, true
			}
		}
	}
	return nil, false, false
}
