package main

import (
	"go/constant"
	"go/token"
	"go/types"
	"strings"

	"golang.org/x/tools/go/ssa"
)

func init() {
	register(&Rule{Name: "LINT-READ", Floor: 0, Run: ruleLintRead, Fixture: "fixture.singleRead,fixture.readsOnlyTheStart,fixture.scansWithoutAskingForTheError",
		Doc: "no single Read call on an io.Reader outside a loop whose byte count slices the buffer that is then used as the complete data (a Read may return fewer bytes than available); what io.Copy and io.ReadAll consume is the stream itself, not a wrapper that stops early (io.LimitReader, a SectionReader, a sized bufio.Reader), and nothing is copied with io.CopyN: a longer document is never cut off without a word"})
	register(&Rule{Name: "LINT-RELIDX", Floor: 0, Run: ruleLintRelIdx, Fixture: "fixture.relativeIndex",
		Doc: "an index obtained from Index*(s[lo:], …) is relative to lo; it must not be used to slice or index s itself without adding lo"})
	register(&Rule{Name: "LINT-NARROW", Floor: 0, Run: ruleLintNarrow, Fixture: "fixture.narrow",
		Doc: "every int -> byte/uint8 conversion of a value parsed by strconv.Atoi is dominated by a range test 0..255 of that value"})
	register(&Rule{Name: "LINT-NILPART", Floor: 0, Run: ruleLintNilPart, Fixture: "fixture.nilPart",
		Doc: "a dereference through a pointer loaded from a part of an artifact (BuildArtifact.Certificate/.Request, PemFileContent.*) is dominated by a nil test of the same access path: any part may be absent from a PEM file"})
	register(&Rule{Name: "LINT-TYPEASSERT", Floor: 0, Run: ruleLintTypeAssert, Fixture: "fixture.assertNoOk",
		Doc: "no single-result type assertion in module code (it panics on a mismatch)"})
	register(&Rule{Name: "LINT-IDXNEG", Floor: 0, Run: ruleLintIdxNeg, Fixture: "fixture.indexNoTest",
		Doc: "the result of Index/LastIndex is not used as a slice bound without a test against -1 (result+1 as a low bound is fine); two named exceptions"})
}

func inLoop(b *ssa.BasicBlock) bool {
	seen := map[*ssa.BasicBlock]bool{}
	var walk func(x *ssa.BasicBlock) bool
	walk = func(x *ssa.BasicBlock) bool {
		for _, s := range succs(x) {
			if s == b {
				return true
			}
			if !seen[s] {
				seen[s] = true
				if walk(s) {
					return true
				}
			}
		}
		return false
	}
	return walk(b)
}

func ruleLintRead(c *Ctx, r *Rep) {
	n := 0
	for _, fn := range c.Funcs {
		for _, ci := range callsIn(fn) {
			cc := ci.Common()
			isRead := false
			if cc.IsInvoke() && cc.Method.Name() == "Read" {
				isRead = true
			} else if f := cc.StaticCallee(); f != nil && f.Name() == "Read" && f.Signature.Recv() != nil && !c.InModule(f) {
				isRead = true
			}
			if !isRead || cc.Signature().Results().Len() != 2 {
				continue
			}
			n++
			call, ok := ci.(*ssa.Call)
			if !ok {
				continue
			}
			key := c.FuncKey(fn) + "|" + calleeFullName(ci)
			if inLoop(ci.Block()) {
				r.Ok("read-in-loop|"+key, c.Pos(ci.Pos()), "Read is repeated until EOF", "inside a loop")
				continue
			}
			// is the count used as a slice bound?
			usedAsBound := false
			for _, ref := range *call.Referrers() {
				if ex, ok := ref.(*ssa.Extract); ok && ex.Index == 0 {
					for _, rr := range *ex.Referrers() {
						if sl, ok := rr.(*ssa.Slice); ok && (sl.High == ssa.Value(ex) || sl.Low == ssa.Value(ex)) {
							usedAsBound = true
						}
					}
				}
			}
			if usedAsBound {
				r.Bad("single-read|"+key, c.Pos(ci.Pos()), "io.ReadAll / ReadFull / a loop: one Read need not return all data", "one Read call, its count slices the buffer")
			} else {
				r.Ok("single-read|"+key, c.Pos(ci.Pos()), "count not used as the data length", "ok")
			}
		}
	}
	r.Infof("%d direct Read calls in module code", n)
	// a stream is read to its end: what io.Copy / io.ReadAll consume is the stream itself, not a wrapper that stops early,
	// and nothing in the module copies a fixed count out of a stream
	limited := func(v ssa.Value) string {
		for i := 0; i < 4; i++ {
			switch x := v.(type) {
			case *ssa.MakeInterface:
				v = x.X
				continue
			case *ssa.ChangeInterface:
				v = x.X
				continue
			case *ssa.Call:
				switch name := calleeFullName(x); name {
				case "io.LimitReader", "io.NewSectionReader", "bufio.NewReaderSize":
					return name
				}
			case *ssa.Alloc:
				if n, ok := x.Type().Underlying().(*types.Pointer).Elem().(*types.Named); ok && n.Obj().Pkg() != nil && n.Obj().Pkg().Path() == "io" && (n.Obj().Name() == "LimitedReader" || n.Obj().Name() == "SectionReader") {
					return "io." + n.Obj().Name()
				}
			}
			break
		}
		return ""
	}
	// a bufio.Scanner gives up at the first line longer than its buffer (64 KiB unless told otherwise) and says so only
	// through Err(): where a text is read line by line, the scanner's error is asked for and looked at
	for _, fn := range c.Funcs {
		k := 0
		for _, ci := range callsIn(fn) {
			if calleeFullName(ci) != "bufio.NewScanner" || ci.Value() == nil {
				continue
			}
			k++
			asked := false
			for _, c2 := range callsIn(fn) {
				if calleeFullName(c2) == "(*bufio.Scanner).Err" && len(c2.Common().Args) == 1 && c2.Common().Args[0] == ssa.Value(ci.Value()) && c2.Value() != nil && c2.Value().Referrers() != nil && len(*c2.Value().Referrers()) > 0 {
					asked = true
				}
			}
			r.Check(asked, sprintf("scanner-error-looked-at|%s#%d", c.FuncKey(fn), k), c.Pos(ci.Pos()), "the error of a line scanner is asked for and used (a line longer than its buffer ends the scan without a word)", okOr(asked, "Err() is used", "Err() is never looked at: everything from the first over-long line on is dropped without a word"))
		}
	}
	for _, fn := range c.Funcs {
		k := 0
		for _, ci := range callsIn(fn) {
			name := calleeFullName(ci)
			args := ci.Common().Args
			var src ssa.Value
			switch name {
			case "io.Copy", "io.CopyBuffer":
				if len(args) >= 2 {
					src = args[1]
				}
			case "io.ReadAll", "io/ioutil.ReadAll":
				if len(args) >= 1 {
					src = args[0]
				}
			case "io.CopyN":
				k++
				r.Bad(sprintf("whole-stream|%s#%d", c.FuncKey(fn), k), c.Pos(ci.Pos()), "a stream is read to its end", "io.CopyN stops after a fixed count; what lies behind is dropped without a word")
				continue
			}
			if src == nil {
				continue
			}
			k++
			w := limited(src)
			r.Check(w == "", sprintf("whole-stream|%s#%d", c.FuncKey(fn), k), c.Pos(ci.Pos()), "what "+name+" consumes is the stream itself (read to its end), not a wrapper that stops early", okOr(w == "", "the stream itself", "wrapped by "+w+": a longer input is cut off without a word"))
		}
	}
}

func isIndexFunc(name string) bool {
	switch name {
	case "bytes.Index", "bytes.IndexByte", "bytes.IndexRune", "bytes.IndexAny", "bytes.LastIndex", "bytes.LastIndexByte",
		"strings.Index", "strings.IndexByte", "strings.IndexRune", "strings.IndexAny", "strings.LastIndex", "strings.LastIndexByte":
		return true
	}
	return false
}

func ruleLintRelIdx(c *Ctx, r *Rep) {
	n := 0
	for _, fn := range c.Funcs {
		for _, ci := range callsIn(fn) {
			if !isIndexFunc(calleeFullName(ci)) {
				continue
			}
			call, ok := ci.(*ssa.Call)
			if !ok {
				continue
			}
			sl, ok := ci.Common().Args[0].(*ssa.Slice)
			if !ok || sl.Low == nil {
				continue
			}
			if k, isK := sl.Low.(*ssa.Const); isK && k.Int64() == 0 {
				continue
			}
			n++
			base := sl.X
			key := c.FuncKey(fn) + "|" + calleeFullName(ci)
			bad := ""
			for _, ref := range *call.Referrers() {
				switch x := ref.(type) {
				case *ssa.Slice:
					if sameSliceBase(x.X, base) && (x.Low == ssa.Value(call) || x.High == ssa.Value(call)) {
						bad = "used as a bound of the whole slice at " + c.Pos(x.Pos())
					}
				case *ssa.IndexAddr:
					if sameSliceBase(x.X, base) && x.Index == ssa.Value(call) {
						bad = "used as an index of the whole slice at " + c.Pos(x.Pos())
					}
				}
			}
			if bad != "" {
				r.Bad("relative-index|"+key, c.Pos(ci.Pos()), "lo + index (the search started at lo)", bad)
			} else {
				r.Ok("relative-index|"+key, c.Pos(ci.Pos()), "index of a sub-slice is rebased before use", "ok")
			}
		}
	}
	r.Infof("%d Index calls on sub-slices", n)
}

func sameSliceBase(a, b ssa.Value) bool {
	if a == b {
		return true
	}
	// two loads of the same local/parameter
	ua, ok1 := a.(*ssa.UnOp)
	ub, ok2 := b.(*ssa.UnOp)
	return ok1 && ok2 && ua.X == ub.X
}

// bounds derives lower/upper bounds of v from the guards of block b.
func boundsFromGuards(b *ssa.BasicBlock, v ssa.Value) (lb, ub *int64) {
	set := func(p **int64, val int64, tighterIsLarger bool) {
		if *p == nil || (tighterIsLarger && val > **p) || (!tighterIsLarger && val < **p) {
			x := val
			*p = &x
		}
	}
	for _, g := range guardsOf(b) {
		bin, ok := g.Cond.(*ssa.BinOp)
		if !ok {
			continue
		}
		op := bin.Op
		var k *ssa.Const
		if bin.X == v {
			k, _ = bin.Y.(*ssa.Const)
		} else if bin.Y == v {
			k, _ = bin.X.(*ssa.Const)
			// flip
			switch op {
			case token.LSS:
				op = token.GTR
			case token.GTR:
				op = token.LSS
			case token.LEQ:
				op = token.GEQ
			case token.GEQ:
				op = token.LEQ
			}
		}
		if k == nil {
			continue
		}
		K := k.Int64()
		if !g.Truth { // negate
			switch op {
			case token.LSS:
				op = token.GEQ
			case token.GTR:
				op = token.LEQ
			case token.LEQ:
				op = token.GTR
			case token.GEQ:
				op = token.LSS
			default:
				continue
			}
		}
		switch op {
		case token.LSS:
			set(&ub, K-1, false)
		case token.LEQ:
			set(&ub, K, false)
		case token.GTR:
			set(&lb, K+1, true)
		case token.GEQ:
			set(&lb, K, true)
		}
	}
	return
}

func ruleLintNarrow(c *Ctx, r *Rep) {
	// numbers in configurations are decimal: strconv.ParseInt / ParseUint with base 0 would read 010 as eight
	for _, fn := range c.Funcs {
		for _, ci := range callsIn(fn) {
			name := calleeFullName(ci)
			if name != "strconv.ParseInt" && name != "strconv.ParseUint" {
				continue
			}
			k, ok := ci.Common().Args[1].(*ssa.Const)
			base := int64(-1)
			if ok && k.Value != nil {
				base = k.Int64()
			}
			r.Check(base == 10, "decimal-parse|"+c.FuncKey(fn), c.Pos(ci.Pos()), "base 10 (a count or octet written with leading zeros is still decimal)", sprintf("base %d", base))
		}
	}
	// a byte taken out of a string and converted to a string is read as a code point: every byte of a multi-byte
	// character becomes a character of its own (text rebuilt byte by byte comes out as Latin-1 mojibake)
	for _, fn := range c.Funcs {
		n := 0
		for _, b := range fn.Blocks {
			for _, ins := range b.Instrs {
				cv, ok := ins.(*ssa.Convert)
				if !ok || !isStringish(cv.Type()) {
					continue
				}
				from, ok := cv.X.Type().Underlying().(*types.Basic)
				if !ok || from.Kind() != types.Uint8 {
					continue
				}
				idx, ok := cv.X.(*ssa.Index)
				if !ok || !isStringish(idx.X.Type()) {
					continue
				}
				n++
				r.Check(false, sprintf("byte-as-rune|%s#%d", c.FuncKey(fn), n), c.Pos(cv.Pos()), "text is copied as text (a slice of the string), not byte by byte through string(s[i])", "string(s[i]) of a string's byte")
			}
		}
	}
	// a 64-bit number changes its sign when converted between signed and unsigned: a configured value of 2^63 and above
	// would become negative (a negative serial number, a negative count)
	for _, fn := range c.Funcs {
		if fn.Pkg == nil {
			continue
		}
		// configured numbers enter through the configuration packages; elsewhere only numbers parsed from text are at
		// stake (an OID arc), internal counts are not
		inConfig := strings.Contains(fn.Pkg.Pkg.Path(), "/config")
		parsed := func(v ssa.Value) bool {
			ex, ok := v.(*ssa.Extract)
			if !ok {
				return false
			}
			call, ok := ex.Tuple.(*ssa.Call)
			return ok && strings.HasPrefix(calleeFullName(call), "strconv.ParseUint")
		}
		n := 0
		for _, b := range fn.Blocks {
			for _, ins := range b.Instrs {
				cv, ok := ins.(*ssa.Convert)
				if !ok {
					continue
				}
				to, ok1 := cv.Type().Underlying().(*types.Basic)
				from, ok2 := cv.X.Type().Underlying().(*types.Basic)
				if !ok1 || !ok2 {
					continue
				}
				if _, isConst := cv.X.(*ssa.Const); isConst {
					continue
				}
				wide := func(k types.BasicKind) bool {
					return k == types.Uint64 || k == types.Int64 || k == types.Uint || k == types.Int || k == types.Uintptr
				}
				unsigned := func(b *types.Basic) bool { return b.Info()&types.IsUnsigned != 0 }
				if !wide(to.Kind()) || !wide(from.Kind()) || unsigned(to) == unsigned(from) || !unsigned(from) {
					continue // only unsigned -> signed of full width loses the top half
				}
				if !inConfig && !parsed(cv.X) {
					continue
				}
				n++
				_, ub := boundsFromGuards(b, cv.X)
				r.Check(ub != nil, sprintf("sign-change|%s#%d", c.FuncKey(fn), n), c.Pos(cv.Pos()), "an unsigned 64-bit value is range-tested before it becomes a signed one", "converted unchecked")
			}
		}
	}
	for _, fn := range c.Funcs {
		for _, b := range fn.Blocks {
			for _, ins := range b.Instrs {
				cv, ok := ins.(*ssa.Convert)
				if !ok {
					continue
				}
				to, ok := cv.Type().Underlying().(*types.Basic)
				if !ok || (to.Kind() != types.Uint8 && to.Kind() != types.Int8) {
					continue
				}
				from, ok := cv.X.Type().Underlying().(*types.Basic)
				if !ok || from.Info()&types.IsInteger == 0 || from.Kind() == types.Uint8 {
					continue
				}
				// origin: strconv.Atoi / ParseInt
				ex, ok := cv.X.(*ssa.Extract)
				if !ok {
					continue
				}
				call, ok := ex.Tuple.(*ssa.Call)
				if !ok || !hasPrefixAny(calleeFullName(call), "strconv.Atoi", "strconv.ParseInt", "strconv.ParseUint") {
					continue
				}
				lb, ub := boundsFromGuards(b, cv.X)
				key := "narrow|" + c.FuncKey(fn)
				if lb != nil && ub != nil && *lb >= 0 && *ub <= 255 {
					r.Ok(key, c.Pos(cv.Pos()), "0 <= v <= 255 established before the conversion", sprintf("%d..%d", *lb, *ub))
					if to.Kind() == types.Uint8 {
						r.Check(*lb == 0 && *ub == 255, "octet-range|"+c.FuncKey(fn), c.Pos(cv.Pos()), "every value a byte can hold is accepted: 0..255", sprintf("%d..%d", *lb, *ub))
					}
				} else {
					r.Bad(key, c.Pos(cv.Pos()), "a dominating range test 0..255 of the parsed value", "conversion to "+to.Name()+" of an unchecked strconv result silently truncates")
				}
			}
		}
	}
}

// artifactPartField: pointer-typed fields of the artifact/part structs.
func artifactPartField(f *types.Var, owner types.Type) bool {
	if _, ok := f.Type().Underlying().(*types.Pointer); !ok {
		return false
	}
	if p, ok := owner.Underlying().(*types.Pointer); ok {
		owner = p.Elem()
	}
	n, ok := owner.(*types.Named)
	return ok && (n.Obj().Name() == "BuildArtifact" || n.Obj().Name() == "PemFileContent")
}

type partLoad struct {
	base  ssa.Value
	field *types.Var
}

func partLoadOf(v ssa.Value) (partLoad, bool) {
	switch x := v.(type) {
	case *ssa.UnOp:
		if x.Op == token.MUL {
			if fa, ok := x.X.(*ssa.FieldAddr); ok {
				f := fieldOfAddr(fa)
				if artifactPartField(f, fa.X.Type().Underlying().(*types.Pointer).Elem()) {
					return partLoad{rootOf(fa.X), f}, true
				}
			}
		}
	case *ssa.Field:
		f := fieldOfVal(x)
		if artifactPartField(f, x.X.Type()) {
			return partLoad{rootOf(x.X), f}, true
		}
	}
	return partLoad{}, false
}

// rootOf looks through loads of the same local so that two reads of `x.F` share a base.
func rootOf(v ssa.Value) ssa.Value {
	if u, ok := v.(*ssa.UnOp); ok && u.Op == token.MUL {
		if al, ok := u.X.(*ssa.Alloc); ok {
			return al
		}
	}
	return v
}

func ruleLintNilPart(c *Ctx, r *Rep) {
	for _, fn := range c.Funcs {
		for _, b := range fn.Blocks {
			for _, ins := range b.Instrs {
				// dereference sites: FieldAddr on, or load through, a part pointer
				var ptr ssa.Value
				switch x := ins.(type) {
				case *ssa.FieldAddr:
					ptr = x.X
				case *ssa.UnOp:
					if x.Op == token.MUL {
						ptr = x.X
					}
				}
				if ptr == nil {
					continue
				}
				pl, ok := partLoadOf(ptr)
				if !ok {
					continue
				}
				key := "deref|" + c.FuncKey(fn) + "|" + pl.field.Name()
				guarded := false
				for _, g := range guardsOf(b) {
					bin, ok := g.Cond.(*ssa.BinOp)
					if !ok {
						continue
					}
					var other ssa.Value
					if k, isK := bin.Y.(*ssa.Const); isK && k.Value == nil {
						other = bin.X
					} else if k, isK := bin.X.(*ssa.Const); isK && k.Value == nil {
						other = bin.Y
					}
					if other == nil {
						continue
					}
					gl, ok := partLoadOf(other)
					if !ok || gl.field != pl.field || gl.base != pl.base {
						continue
					}
					if (bin.Op == token.NEQ && g.Truth) || (bin.Op == token.EQL && !g.Truth) {
						guarded = true
					}
				}
				if !guarded {
					// a helper that receives the artifact: every call site must be behind the nil test of that part
					if prm, isParam := pl.base.(*ssa.Parameter); isParam {
						idx := -1
						for i, p := range fn.Params {
							if p == prm {
								idx = i
							}
						}
						sites, all := 0, true
						for _, caller := range c.Funcs {
							for _, ci := range callsIn(caller) {
								if ci.Common().StaticCallee() != fn || idx < 0 || idx >= len(ci.Common().Args) {
									continue
								}
								sites++
								arg := rootOf(ci.Common().Args[idx])
								ok := false
								for _, g := range guardsOf(ci.Block()) {
									bin, isBin := g.Cond.(*ssa.BinOp)
									if !isBin {
										continue
									}
									var other ssa.Value
									if k, isK := bin.Y.(*ssa.Const); isK && k.Value == nil {
										other = bin.X
									}
									if other == nil {
										continue
									}
									gl, isPart := partLoadOf(other)
									if isPart && gl.field == pl.field && gl.base == arg && ((bin.Op == token.NEQ && g.Truth) || (bin.Op == token.EQL && !g.Truth)) {
										ok = true
									}
								}
								if !ok {
									all = false
								}
							}
						}
						if sites > 0 && all {
							guarded = true
						}
					}
				}
				if guarded {
					r.Ok(key, c.Pos(ins.Pos()), "dominated by a nil test of the same part", "guarded")
				} else {
					r.Bad(key, c.Pos(ins.Pos()), "a dominating nil test of "+pl.field.Name()+" (the PEM may lack that part)", "dereferenced unconditionally")
				}
			}
		}
	}
}

func ruleLintTypeAssert(c *Ctx, r *Rep) {
	n := 0
	for _, fn := range c.Funcs {
		for _, b := range fn.Blocks {
			for _, ins := range b.Instrs {
				ta, ok := ins.(*ssa.TypeAssert)
				if !ok {
					continue
				}
				n++
				if !ta.CommaOk {
					r.Bad("assert-no-ok|"+c.FuncKey(fn)+"|"+typeShort(c, ta.AssertedType), c.Pos(ta.Pos()), "comma-ok form (or a type switch)", "single-result assertion panics on mismatch")
				}
			}
		}
	}
	r.Infof("%d type assertions in module code, all comma-ok unless reported", n)
}

// idxNegExceptions: Index results used as a bound without a -1 test that are safe for a stated reason.
// dottedPathIndex: strings.LastIndex(s, ".") where s is the configuration path the importer was given by the directory
// walk, or the configFileName kept in the metadata - directly or through the parameter of a helper (lifted to its callers).
func dottedPathIndex(c *Ctx, call *ssa.Call) bool {
	if calleeFullName(call) != "strings.LastIndex" || len(call.Call.Args) != 2 {
		return false
	}
	k, ok := call.Call.Args[1].(*ssa.Const)
	if !ok || k.Value == nil || k.Value.Kind() != constant.String || constant.StringVal(k.Value) != "." {
		return false
	}
	pathParam := ""
	if imp := c.configImporter(); imp != nil {
		for _, p := range imp.Params {
			if isString(p.Type()) {
				pathParam = "P(" + c.FuncKey(imp) + "." + p.Name() + ")"
			}
		}
	}
	pv := c.provFor("idxneg")
	var okOrigin func(o string, fn *ssa.Function, depth int) bool
	okOrigin = func(o string, fn *ssa.Function, depth int) bool {
		if o == pathParam && pathParam != "" {
			return true
		}
		if strings.HasSuffix(o, ".configFileName") || strings.HasSuffix(o, ".configFileName[:]") {
			return true
		}
		// a parameter of a helper: every caller hands it such a string
		if depth < 2 && strings.HasPrefix(o, "P("+c.FuncKey(fn)+".") && strings.HasSuffix(o, ")") {
			name := strings.TrimSuffix(strings.TrimPrefix(o, "P("+c.FuncKey(fn)+"."), ")")
			idx := -1
			for i, p := range fn.Params {
				if p.Name() == name {
					idx = i
				}
			}
			n := 0
			for _, caller := range c.Funcs {
				for _, ci := range callsIn(caller) {
					if ci.Common().StaticCallee() != fn || idx < 0 || idx >= len(ci.Common().Args) {
						continue
					}
					n++
					for _, o2 := range pv.Origins(ci.Common().Args[idx]) {
						if !okOrigin(o2, caller, depth+1) {
							return false
						}
					}
				}
			}
			return n > 0
		}
		return false
	}
	os := pv.Origins(call.Call.Args[0])
	if len(os) == 0 {
		return false
	}
	for _, o := range os {
		if !okOrigin(o, call.Parent(), 0) {
			return false
		}
	}
	return true
}

func ruleLintIdxNeg(c *Ctx, r *Rep) {
	for _, fn := range c.Funcs {
		for _, ci := range callsIn(fn) {
			name := calleeFullName(ci)
			if !isIndexFunc(name) {
				continue
			}
			call, ok := ci.(*ssa.Call)
			if !ok {
				continue
			}
			type use struct {
				pos  token.Pos
				role string
				blk  *ssa.BasicBlock
			}
			var uses []use
			var collect func(v ssa.Value, plus bool)
			collect = func(v ssa.Value, plus bool) {
				for _, ref := range *v.Referrers() {
					switch x := ref.(type) {
					case *ssa.Slice:
						if x.Low == v {
							if !plus {
								uses = append(uses, use{x.Pos(), "low", x.Block()})
							}
						}
						if x.High == v {
							uses = append(uses, use{x.Pos(), "high", x.Block()})
						}
					case *ssa.IndexAddr:
						if x.Index == v {
							uses = append(uses, use{x.Pos(), "index", x.Block()})
						}
					case *ssa.BinOp:
						if x.Op == token.ADD {
							if k, ok := x.Y.(*ssa.Const); ok && k.Int64() >= 1 {
								collect(x, true) // result+1.. as a low bound cannot be negative
							} else {
								collect(x, plus)
							}
						}
					}
				}
			}
			collect(call, false)
			for _, u := range uses {
				// tested against -1 / 0 on every path to the use?
				lb, _ := boundsFromGuards(u.blk, call)
				tested := lb != nil && *lb >= 0
				for _, g := range guardsOf(u.blk) {
					if bin, ok := g.Cond.(*ssa.BinOp); ok && (bin.X == ssa.Value(call) || bin.Y == ssa.Value(call)) {
						k, _ := bin.Y.(*ssa.Const)
						if k == nil {
							k, _ = bin.X.(*ssa.Const)
						}
						if k != nil && k.Int64() == -1 && ((bin.Op == token.NEQ && g.Truth) || (bin.Op == token.EQL && !g.Truth)) {
							tested = true
						}
					}
				}
				key := c.FuncKey(fn) + "|" + name + "|" + u.role
				switch {
				case tested:
					r.Ok("index-tested|"+key, c.Pos(u.pos), "-1 excluded before use as a bound", "tested")
				case dottedPathIndex(c, call):
					r.Ok("index-exception|"+key, c.Pos(u.pos), "the searched string always contains the dot", "it is the path of a walked configuration file (it passed the .yaml/.yml/.json suffix filter) or a stored configuration file name (walked, or built as alias + \".yaml\"); a missing slash gives -1+1 = 0")
				default:
					r.Bad("index-untested|"+key, c.Pos(u.pos), "a test against -1 before the result is used as a "+u.role+" bound", "Index result used directly")
				}
			}
		}
	}
}

var _ = strings.HasPrefix
