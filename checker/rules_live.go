package main

import (
	"go/constant"
	"go/token"
	"go/types"
	"sort"
	"strings"

	"golang.org/x/tools/go/ssa"
)

func init() {
	register(&Rule{Name: "LIVE-FIELD", Floor: 30, Run: ruleLiveField,
		Doc: "every field of every struct a configuration document is decoded into is consumed somewhere (read in SSA, read through FieldByName with a constant name, or covered by the reflect-all loop of the extension parser); the optional flag of a profile subject attribute is used as a branch condition of the subject validator"})
	register(&Rule{Name: "PROV-CRIT", Floor: 11, Run: ruleProvCrit,
		Doc: "in every constructor func(critical bool, …) returning a pkix.Extension the Critical field of every returned value comes from that parameter, and every v1 Builder passes its own Critical field"})
	register(&Rule{Name: "LIVE-DEP", Floor: 1, Run: ruleLiveDep,
		Doc: "the BitLength of the keyUsage BIT STRING depends on the flags (a constant length cannot be a minimal named bit list)"})
}

// yamlStructs: the struct types documents are decoded into, with everything reachable from them.
func yamlStructs(c *Ctx) ([]*types.Named, string) {
	roots, why := schemaRoots(c)
	if why != "" {
		return nil, why
	}
	seen := map[*types.Named]bool{}
	var out []*types.Named
	var walk func(t types.Type)
	walk = func(t types.Type) {
		switch u := t.(type) {
		case *types.Pointer:
			walk(u.Elem())
		case *types.Slice:
			walk(u.Elem())
		case *types.Named:
			if !c.IsModObj(u.Obj()) || seen[u] {
				return
			}
			st, ok := u.Underlying().(*types.Struct)
			if !ok {
				return
			}
			seen[u] = true
			out = append(out, u)
			for i := 0; i < st.NumFields(); i++ {
				walk(st.Field(i).Type())
			}
		}
	}
	var files []string
	for f := range roots {
		files = append(files, f)
	}
	sort.Strings(files)
	for _, f := range files {
		walk(roots[f])
	}
	return out, ""
}

func ruleLiveField(c *Ctx, r *Rep) {
	structs, why := yamlStructs(c)
	if why != "" {
		r.Undecided("anchor:yaml-structs", "", why)
		return
	}
	// reads of fields in SSA: a FieldAddr whose address is loaded (or passed on), or a Field extract
	read := map[*types.Var][]string{}
	condUse := map[*types.Var][]*ssa.Function{} // used as a branch condition
	aliasRead := map[*types.Var][]*types.Var{}  // field of a struct type -> same-position fields of types it is converted to
	for _, fn := range c.Funcs {
		for _, b := range fn.Blocks {
			for _, ins := range b.Instrs {
				switch x := ins.(type) {
				case *ssa.FieldAddr:
					f := fieldOfAddr(x)
					for _, ref := range *x.Referrers() {
						switch u := ref.(type) {
						case *ssa.UnOp:
							if u.Op == token.MUL {
								read[f] = append(read[f], c.FuncKey(fn))
								for _, r2 := range *u.Referrers() {
									if _, isIf := r2.(*ssa.If); isIf {
										condUse[f] = append(condUse[f], fn)
									}
								}
							}
						case *ssa.Store:
							if u.Val == ssa.Value(x) {
								read[f] = append(read[f], c.FuncKey(fn))
							}
						case *ssa.FieldAddr, *ssa.IndexAddr, ssa.CallInstruction, *ssa.MakeInterface:
							read[f] = append(read[f], c.FuncKey(fn))
						}
					}
				case *ssa.Field:
					f := fieldOfVal(x)
					if len(*x.Referrers()) > 0 {
						read[f] = append(read[f], c.FuncKey(fn))
						for _, r2 := range *x.Referrers() {
							if _, isIf := r2.(*ssa.If); isIf {
								condUse[f] = append(condUse[f], fn)
							}
						}
					}
				}
			}
		}
	}
	// a value converted to another struct type with the same fields is read through that type's fields
	for _, fn := range c.Funcs {
		for _, b := range fn.Blocks {
			for _, ins := range b.Instrs {
				var from, to types.Type
				switch x := ins.(type) {
				case *ssa.ChangeType:
					from, to = x.X.Type(), x.Type()
				case *ssa.Convert:
					from, to = x.X.Type(), x.Type()
				default:
					continue
				}
				for i := 0; i < 2; i++ {
					if p, ok := from.Underlying().(*types.Pointer); ok {
						from = p.Elem()
					}
					if p, ok := to.Underlying().(*types.Pointer); ok {
						to = p.Elem()
					}
				}
				sa, okA := from.Underlying().(*types.Struct)
				sb, okB := to.Underlying().(*types.Struct)
				if !okA || !okB || sa.NumFields() != sb.NumFields() || types.Identical(from, to) {
					continue
				}
				for i := 0; i < sa.NumFields(); i++ {
					fa, fb := sa.Field(i), sb.Field(i)
					aliasRead[fa] = append(aliasRead[fa], fb)
				}
			}
		}
	}
	for fa, fbs := range aliasRead {
		for _, fb := range fbs {
			read[fa] = append(read[fa], read[fb]...)
			condUse[fa] = append(condUse[fa], condUse[fb]...)
		}
	}
	// reflection: FieldByName("X") with constant names, per function; and functions iterating all fields
	byName := map[string][]*ssa.Function{}
	var reflectAll []*ssa.Function
	for _, fn := range c.Funcs {
		for _, ci := range callsIn(fn) {
			switch calleeFullName(ci) {
			case "(reflect.Value).FieldByName":
				if len(ci.Common().Args) < 2 {
					continue // a method value: the name is not at hand here
				}
				if k, ok := ci.Common().Args[1].(*ssa.Const); ok && k.Value != nil {
					byName[constant.StringVal(k.Value)] = append(byName[constant.StringVal(k.Value)], fn)
				}
			case "(reflect.Value).Field":
				if len(ci.Common().Args) < 2 {
					reflectAll = append(reflectAll, fn)
					continue
				}
				if _, isConst := ci.Common().Args[1].(*ssa.Const); !isConst {
					reflectAll = append(reflectAll, fn)
				}
			}
		}
	}
	// which struct types are handed (boxed) to which function
	boxedTo := func(t types.Type, fn *ssa.Function) bool {
		for _, caller := range c.Funcs {
			for _, ci := range callsIn(caller) {
				if ci.Common().StaticCallee() != fn {
					continue
				}
				for _, a := range ci.Common().Args {
					if mi, ok := a.(*ssa.MakeInterface); ok && types.Identical(mi.X.Type(), t) {
						return true
					}
				}
			}
		}
		return false
	}
	reflectAllOn := func(t types.Type) bool {
		for _, fn := range reflectAll {
			for _, ci := range callsIn(fn) {
				if calleeFullName(ci) == "reflect.ValueOf" {
					if mi, ok := ci.Common().Args[0].(*ssa.MakeInterface); ok && types.Identical(mi.X.Type(), t) {
						return true
					}
				}
			}
		}
		return false
	}
	exceptions := map[string]string{
		"CertConfig.Version": "consumed by the version dispatch and the schema (enum [1]) before decoding",
		"Profile.Version":    "consumed by the version dispatch and the schema (enum [1]) before decoding",
	}
	for _, n := range structs {
		st := n.Underlying().(*types.Struct)
		for i := 0; i < st.NumFields(); i++ {
			f := st.Field(i)
			key := "consumed|" + n.Obj().Name() + "." + f.Name()
			pos := c.Pos(f.Pos())
			switch {
			case len(read[f]) > 0:
				r.Ok(key, pos, "read by module code", "read in "+read[f][0])
			case exceptions[n.Obj().Name()+"."+f.Name()] != "":
				r.Ok(key, pos, "named exception", exceptions[n.Obj().Name()+"."+f.Name()])
			default:
				viaName := false
				for _, fn := range byName[f.Name()] {
					if boxedTo(n, fn) {
						viaName = true
					}
				}
				if viaName {
					r.Ok(key, pos, "read through FieldByName(\""+f.Name()+"\") in a function this struct is handed to", "reflection, constant name")
				} else if reflectAllOn(n) {
					r.Ok(key, pos, "covered by a loop over all fields of this struct (reflection)", "reflect-all loop")
				} else {
					r.Bad(key, pos, "the configured value is used somewhere", "never read: whatever the document says here has no effect")
				}
			}
		}
	}
	// the optional flag of subject attributes steers the subject validator
	psa := c.NamedType("generator/config", "ProfileSubjectAttribute")
	validate := c.Func("generator/config", "Validate")
	if psa == nil || validate == nil {
		r.Undecided("anchor:subject-validator", "", "ProfileSubjectAttribute / Validate not found")
		return
	}
	closure := map[*ssa.Function]bool{}
	staticCalleesDeep(c, validate, 3, closure)
	st := psa.Underlying().(*types.Struct)
	for i := 0; i < st.NumFields(); i++ {
		f := st.Field(i)
		if b, ok := f.Type().Underlying().(*types.Basic); !ok || b.Kind() != types.Bool {
			continue
		}
		used := false
		for _, fn := range condUse[f] {
			if closure[fn] {
				used = true
			}
		}
		r.Check(used, "steers-validation|ProfileSubjectAttribute."+f.Name(), c.Pos(f.Pos()), "used as a branch condition inside the subject validator", sprintf("%v", used))
	}
}

// critConstructors: module functions with a bool parameter that return pkix.Extension or *pkix.Extension.
func critConstructors(c *Ctx) map[*ssa.Function]int {
	out := map[*ssa.Function]int{}
	for _, fn := range c.Funcs {
		if fn.Parent() != nil || fn.Signature.Recv() != nil {
			continue
		}
		res := fn.Signature.Results()
		if res.Len() == 0 || !typeIs(res.At(0).Type(), "crypto/x509/pkix", "Extension") {
			continue
		}
		for i, p := range fn.Params {
			if b, ok := p.Type().Underlying().(*types.Basic); ok && b.Kind() == types.Bool {
				out[fn] = i
				break
			}
		}
	}
	return out
}

func ruleProvCrit(c *Ctx, r *Rep) {
	ev := c.evaluator()
	ctors := critConstructors(c)
	var fns []*ssa.Function
	for f := range ctors {
		fns = append(fns, f)
	}
	sort.Slice(fns, func(i, j int) bool { return c.FuncKey(fns[i]) < c.FuncKey(fns[j]) })
	pvc := c.newProv()
	for _, fn := range fns {
		prm := fn.Params[ctors[fn]]
		key := "critical-from-parameter|" + c.FuncKey(fn)
		ok, how := true, ""
		n := 0
		// the extension value is built elsewhere (a helper): read Critical off the provenance of what is returned
		byProv := func(v ssa.Value) (bool, string) {
			want := "P(" + c.FuncKey(fn) + "." + prm.Name() + ")"
			seen := 0
			for _, o := range pvc.Origins(v) {
				if o == "K(nil)" {
					continue
				}
				seen++
				cr := fieldsOf([]string{o}, "Critical")
				if len(cr) != 1 || cr[0] != want {
					return false, "Critical is " + strings.Join(cr, ",")
				}
			}
			if seen == 0 {
				return false, "returned value of unknown shape"
			}
			return true, ""
		}
		for _, ret := range returnsOf(fn) {
			for _, pe := range phiEdges(retResults(ret)[0], ret.Block()) {
				v := pe.Val
				if k, isK := v.(*ssa.Const); isK && k.Value == nil {
					continue // nil with an error
				}
				n++
				switch x := v.(type) {
				case *ssa.Alloc: // &pkix.Extension{…}
					if src := storedTo(x, "Critical"); src != ssa.Value(prm) {
						ok, how = false, "Critical is "+descVal(src)
					}
				case *ssa.UnOp:
					if al, isAl := x.X.(*ssa.Alloc); isAl {
						if src := storedTo(al, "Critical"); src != ssa.Value(prm) {
							ok, how = false, "Critical is "+descVal(src)
						}
					} else if g, isG := x.X.(*ssa.Global); isG {
						// branch on the parameter selecting package-level literals of matching polarity
						d := ev.GlobalVal(g.Object())
						want, known := polarityAt(pe.From, ret.Block(), prm)
						got, isB := false, false
						if d.Kind == "struct" && d.Fields["Critical"] != nil {
							got, isB = d.Fields["Critical"].Bool()
						}
						if !known || !isB || got != want {
							ok, how = false, sprintf("returns %s (Critical=%v) on the branch where the parameter is %v (known=%v)", g.Name(), got, want, known)
						}
					} else if okP, howP := byProv(v); !okP {
						ok, how = false, howP
					}
				case *ssa.Call:
					callee := x.Call.StaticCallee()
					if i, isCtor := ctors[callee]; isCtor && x.Call.Args[i] == ssa.Value(prm) {
						// delegates with the same flag
					} else {
						ok, how = false, "delegates to "+x.Call.String()+" without passing the flag"
					}
				case *ssa.Extract:
					if call, isCall := x.Tuple.(*ssa.Call); isCall {
						callee := call.Call.StaticCallee()
						if i, isCtor := ctors[callee]; isCtor && call.Call.Args[i] == ssa.Value(prm) {
							break
						}
					}
					if okP, howP := byProv(v); !okP {
						ok, how = false, howP
					}
				default:
					ok, how = false, sprintf("returned value of unknown shape %T", v)
				}
			}
		}
		if n == 0 {
			ok, how = false, "no extension value returned"
		}
		r.Check(ok, key, c.FnPos(fn), "Critical of every returned extension is the critical parameter", how)
	}
	if len(fns) < 12 && c.Mod == modPath {
		r.Undecided("floor:constructors", "", sprintf("%d constructors func(bool, …) pkix.Extension found, expected 12", len(fns)))
	}
	// callers outside the cert package pass their own Critical field
	for _, fn := range c.Funcs {
		if strings.HasSuffix(fn.Pkg.Pkg.Path(), "generator/cert") {
			continue
		}
		for _, ci := range callsIn(fn) {
			callee := ci.Common().StaticCallee()
			i, isCtor := ctors[callee]
			if !isCtor {
				continue
			}
			f := fieldLoad(ci.Common().Args[i])
			ok := f != nil && f.Name() == "Critical"
			owner := ""
			if ok {
				owner = ownerOfFieldLoad(c, ci.Common().Args[i])
			}
			// the field must belong to the method's own receiver type
			recv := fn
			for recv.Parent() != nil {
				recv = recv.Parent()
			}
			want := ""
			if rv := recv.Signature.Recv(); rv != nil {
				want = ownerName(c, rv.Type())
			}
			r.Check(ok && owner == want, "builder-passes-own-flag|"+c.FuncKey(fn)+"|"+callee.Name(), c.Pos(ci.Pos()), "the critical argument is the Critical field of the extension config being built ("+want+")", sprintf("field %v of %s", f, owner))
		}
	}
	// raw extensions: whatever builder the handler returns carries the reflected field named Critical
	pv := c.newProv()
	for _, fn := range c.Funcs {
		isHandler := false
		for _, ci := range callsIn(fn) {
			if calleeFullName(ci) == "(reflect.Value).Bool" {
				isHandler = true
			}
		}
		if !isHandler || fn.Signature.Results().Len() == 0 {
			continue
		}
		fk := c.FuncKey(fn)
		n, good := 0, 0
		found := ""
		for _, ret := range returnsOf(fn) {
			for _, o := range pv.Origins(retResults(ret)[0]) {
				if o == "K(nil)" {
					continue
				}
				n++
				crit := fieldsOf([]string{o}, "Extension.Critical")
				if len(crit) == 1 && strings.HasPrefix(crit[0], "zero.") {
					crit = fieldsOf(fieldsOf([]string{o}, "Extension"), "Critical") // nested literal form
				}
				okOne := len(crit) == 1 && strings.HasPrefix(crit[0], "(reflect.Value).Bool((reflect.Value).FieldByName(reflect.ValueOf(P("+fk+".") && strings.HasSuffix(crit[0], "|K(\"Critical\")))")
				if okOne {
					good++
				} else {
					found = strings.Join(crit, " , ")
				}
			}
		}
		r.Check(n > 0 && n == good, "raw-extension-critical|"+fk, c.FnPos(fn), "raw extensions take Critical from the reflected field named Critical", sprintf("%d of %d returned builders; %s", good, n, found))
	}
}

// storedTo: the value stored into field name of the struct behind alloc (last store wins is not needed: one store expected).
func storedTo(al *ssa.Alloc, name string) ssa.Value {
	var out ssa.Value
	for _, ref := range *al.Referrers() {
		fa, ok := ref.(*ssa.FieldAddr)
		if !ok || fieldOfAddr(fa).Name() != name {
			continue
		}
		for _, rr := range *fa.Referrers() {
			if st, ok := rr.(*ssa.Store); ok && st.Addr == ssa.Value(fa) {
				out = st.Val
			}
		}
	}
	return out
}

func descVal(v ssa.Value) string {
	if v == nil {
		return "never stored (zero value)"
	}
	return v.String()
}

// polarityAt: the truth value of `prm` known on the edge from -> to (the returned value's incoming edge).
func polarityAt(from, to *ssa.BasicBlock, prm ssa.Value) (bool, bool) {
	check := func(b *ssa.BasicBlock) (bool, bool) {
		for _, g := range guardsOf(b) {
			if g.Cond == prm {
				return g.Truth, true
			}
		}
		return false, false
	}
	if from != nil {
		if v, ok := check(from); ok {
			return v, true
		}
		// the edge itself may be the branch
		if len(from.Instrs) > 0 {
			if iff, ok := from.Instrs[len(from.Instrs)-1].(*ssa.If); ok && iff.Cond == prm {
				if from.Succs[0] == to && from.Succs[1] != to {
					return true, true
				}
				if from.Succs[1] == to && from.Succs[0] != to {
					return false, true
				}
			}
		}
	}
	return check(to)
}

func ownerOfFieldLoad(c *Ctx, v ssa.Value) string {
	switch x := v.(type) {
	case *ssa.UnOp:
		if fa, ok := x.X.(*ssa.FieldAddr); ok {
			return ownerName(c, fa.X.Type())
		}
	case *ssa.Field:
		return ownerName(c, x.X.Type())
	}
	return ""
}

// dependsOn: v is computed from target (data dependence through arithmetic, calls, conversions and
// function-local memory, flow-insensitively).
func dependsOn(v, target ssa.Value, seen map[ssa.Value]bool) bool {
	if v == target {
		return true
	}
	if v == nil || seen[v] {
		return false
	}
	seen[v] = true
	switch x := v.(type) {
	case *ssa.Const, *ssa.Global, *ssa.Function, *ssa.Parameter, *ssa.FreeVar:
		return false
	case *ssa.UnOp:
		if x.Op == token.MUL {
			// load: depends on everything stored to the same base
			if root := memRoot(x.X); root != nil {
				for _, st := range storesTo(root) {
					if dependsOn(st.Val, target, seen) {
						return true
					}
				}
			}
		}
		return dependsOn(x.X, target, seen)
	case *ssa.Phi:
		for _, e := range x.Edges {
			if dependsOn(e, target, seen) {
				return true
			}
		}
		// control dependence on the phi's predecessors' branch conditions
		for _, p := range x.Block().Preds {
			for _, g := range guardsOf(p) {
				if dependsOn(g.Cond, target, seen) {
					return true
				}
			}
		}
		return false
	}
	if ins, ok := v.(ssa.Instruction); ok {
		var ops []*ssa.Value
		for _, op := range ins.Operands(ops) {
			if op != nil && *op != nil && dependsOn(*op, target, seen) {
				return true
			}
		}
	}
	return false
}

// memRoot: the allocation (or make) a derived address/slice points into.
func memRoot(v ssa.Value) ssa.Value {
	for i := 0; i < 10; i++ {
		switch x := v.(type) {
		case *ssa.Alloc, *ssa.MakeSlice:
			return v
		case *ssa.FieldAddr:
			v = x.X
		case *ssa.IndexAddr:
			v = x.X
		case *ssa.Slice:
			v = x.X
		case *ssa.UnOp:
			if x.Op == token.MUL {
				v = x.X
			} else {
				return nil
			}
		default:
			return nil
		}
	}
	return nil
}

// storesTo lists the stores whose address is derived from root (same function).
func storesTo(root ssa.Value) []*ssa.Store {
	var out []*ssa.Store
	fn := root.(ssa.Instruction).Parent()
	for _, b := range fn.Blocks {
		for _, ins := range b.Instrs {
			if st, ok := ins.(*ssa.Store); ok && memRoot(st.Addr) == root {
				out = append(out, st)
			}
		}
	}
	return out
}

func ruleLiveDep(c *Ctx, r *Rep) {
	ev := c.evaluator()
	for _, fn := range constructorsStoring(c, ev, "2.5.29.15") {
		fp := flagsParam(fn)
		if fp == nil {
			r.Undecided("shape:"+c.FuncKey(fn), c.FnPos(fn), "no flags parameter")
			continue
		}
		found := false
		for _, b := range fn.Blocks {
			for _, ins := range b.Instrs {
				st, ok := ins.(*ssa.Store)
				if !ok {
					continue
				}
				fa, ok := st.Addr.(*ssa.FieldAddr)
				if !ok || fieldOfAddr(fa).Name() != "BitLength" || !typeIs(fa.X.Type().Underlying().(*types.Pointer).Elem(), "encoding/asn1", "BitString") {
					continue
				}
				found = true
				dep := dependsOn(st.Val, fp, map[ssa.Value]bool{})
				r.Check(dep, "bitlength-depends-on-flags|"+c.FuncKey(fn), c.Pos(st.Pos()), "BitLength computed from the flags (DER named bit list: no trailing zero bits)", "BitLength = "+st.Val.String())
			}
		}
		if !found {
			r.Bad("bitlength-depends-on-flags|"+c.FuncKey(fn), c.FnPos(fn), "a BitLength store in the keyUsage constructor", "none")
		}
	}
}
