package main

import (
	"go/constant"
	"go/token"
	"go/types"
	"strings"

	"golang.org/x/tools/go/ssa"
)

// LINT-MAPINIT: the idiom "if the list for k does not exist yet, make it; then append to it" spread over two maps.
// A registry of lists (a map field whose entries are appended to) gets a fresh, empty entry only where that very map
// was found to have none for that very key. Tested against another map - the registry of configurations instead of
// the registry of subscribers - every entity walked before its issuer throws away what its siblings had recorded:
// each of the two sites is fine alone. (Seed C18o; the consistency check then finds entities no root reaches.)

func init() {
	register(&Rule{Name: "LINT-MAPINIT", Floor: 1, Run: ruleMapInit, Fixture: "forgetsSiblings",
		Doc: "a list kept per key in a map field and appended to (`m[k] = append(m[k], x)`) is given a fresh empty value for that key, in the function that appends, only behind a test that this map has nothing for this key (comma-ok miss, nil or zero length of m[k]) - not behind the miss of another map, which would drop what was recorded for the key before"})
}

// mapFieldOf: v is the value of a map-typed struct field read through a pointer or a struct value.
func mapFieldKeyOf(v ssa.Value) (*types.Var, string) {
	switch x := v.(type) {
	case *ssa.UnOp:
		if x.Op == token.MUL {
			if fa, ok := x.X.(*ssa.FieldAddr); ok {
				if _, isMap := x.Type().Underlying().(*types.Map); isMap {
					return fieldOfAddr(fa), collKey(v)
				}
			}
		}
	case *ssa.Field:
		if _, isMap := x.Type().Underlying().(*types.Map); isMap {
			st, _ := x.X.Type().Underlying().(*types.Struct)
			if st != nil {
				return st.Field(x.Field), collKey(v)
			}
		}
	}
	return nil, ""
}

// freshEmpty: a value that holds nothing - make(T, 0, …), make(map…), nil, T{} of a slice.
func freshEmpty(v ssa.Value) bool {
	switch x := v.(type) {
	case *ssa.MakeSlice:
		if k, ok := x.Len.(*ssa.Const); ok && k.Value != nil && k.Int64() == 0 {
			return true
		}
	case *ssa.MakeMap:
		return true
	case *ssa.Const:
		return x.IsNil()
	case *ssa.Slice:
		if al, ok := x.X.(*ssa.Alloc); ok {
			if pt, ok := al.Type().Underlying().(*types.Pointer); ok {
				if at, ok := pt.Elem().Underlying().(*types.Array); ok {
					// []T{} and make([]T, 0, constant): a slice of no elements of a new array
					if at.Len() == 0 {
						return true
					}
					if k, isK := x.High.(*ssa.Const); isK && k.Value != nil && k.Int64() == 0 && x.Low == nil {
						return true
					}
				}
			}
		}
	}
	return false
}

func ruleMapInit(c *Ctx, r *Rep) {
	looked := 0
	for _, fn := range c.Funcs {
		// accumulations of this function: m[k] = append(m[k'], …) per map field
		type acc struct {
			fld *types.Var
			key string
		}
		var accs []acc
		var fresh []*ssa.MapUpdate
		for _, b := range fn.Blocks {
			for _, ins := range b.Instrs {
				mu, ok := ins.(*ssa.MapUpdate)
				if !ok {
					continue
				}
				fld, _ := mapFieldKeyOf(mu.Map)
				if fld == nil {
					continue
				}
				if call, ok := mu.Value.(*ssa.Call); ok {
					if bi, ok := call.Call.Value.(*ssa.Builtin); ok && bi.Name() == "append" && len(call.Call.Args) > 0 {
						if lk, ok := call.Call.Args[0].(*ssa.Lookup); ok {
							if f2, _ := mapFieldKeyOf(lk.X); f2 == fld {
								accs = append(accs, acc{fld, collKey(mu.Key)})
							}
						}
					}
				}
				if freshEmpty(mu.Value) {
					fresh = append(fresh, mu)
				}
			}
		}
		n := 0
		for _, mu := range fresh {
			fld, mkey := mapFieldKeyOf(mu.Map)
			k := collKey(mu.Key)
			appended := false
			for _, a := range accs {
				if a.fld == fld && a.key == k {
					appended = true
				}
			}
			if !appended {
				continue
			}
			looked++
			// the guards of the store: a miss of this map for this key?
			own, other, wrongSide := false, "", false
			for _, g := range guardsOf(mu.Block()) {
				for _, lk := range lookupsIn(g.Cond, 0) {
					f2, m2 := mapFieldKeyOf(lk.X)
					if f2 == nil {
						continue
					}
					if f2 == fld && m2 == mkey && collKey(lk.Index) == k {
						if missSide(g, lk) {
							own = true
						} else {
							wrongSide = true
						}
					} else if collKey(lk.Index) == k {
						other = f2.Name()
					}
				}
			}
			if own {
				continue
			}
			n++
			found := "no test of ." + fld.Name() + " for this key on the way to the store"
			if other != "" {
				found = "the store lies behind a look-up of ." + other + " for this key, not of ." + fld.Name()
			}
			if wrongSide {
				found = "the store lies where ." + fld.Name() + " HAS an entry for this key"
			}
			r.Bad(sprintf("fresh-only-when-absent|%s#%d", c.FuncKey(fn), n), c.Pos(mu.Pos()),
				"."+fld.Name()+"[k] is emptied only where ."+fld.Name()+" has nothing for k (what was appended for k before is kept)", found)
		}
	}
	r.Ok("fresh-entries-looked-at", "", "fresh empty entries stored into a map of lists that the same function appends to", sprintf("%d", looked))
}

// missSide: the guard holds where the look-up found nothing (comma-ok false, element nil, length zero). A condition of
// another form is given the benefit of the doubt.
func missSide(g guard, lk *ssa.Lookup) bool {
	cond, truth := g.Cond, g.Truth
	for {
		u, ok := cond.(*ssa.UnOp)
		if !ok || u.Op != token.NOT {
			break
		}
		cond, truth = u.X, !truth
	}
	switch x := cond.(type) {
	case *ssa.Extract:
		if x.Tuple == ssa.Value(lk) && x.Index == 1 {
			return !truth
		}
	case *ssa.BinOp:
		if x.Op == token.EQL || x.Op == token.NEQ {
			if k, ok := x.Y.(*ssa.Const); ok && (k.IsNil() || k.Value != nil && k.Value.Kind() == constant.Int && k.Int64() == 0) {
				return (x.Op == token.EQL) == truth
			}
		}
		if x.Op == token.GTR {
			if k, ok := x.Y.(*ssa.Const); ok && k.Value != nil && k.Value.Kind() == constant.Int && k.Int64() == 0 {
				return !truth // len(m[k]) > 0 is the hit side
			}
		}
	}
	return true
}

// lookupsIn: the map look-ups a branch condition is computed from (comma-ok flag, the element compared with nil, its length).
func lookupsIn(v ssa.Value, d int) []*ssa.Lookup {
	if d > 5 {
		return nil
	}
	switch x := v.(type) {
	case *ssa.Lookup:
		return []*ssa.Lookup{x}
	case *ssa.Extract:
		return lookupsIn(x.Tuple, d+1)
	case *ssa.UnOp:
		if x.Op == token.NOT {
			return lookupsIn(x.X, d+1)
		}
	case *ssa.BinOp:
		return append(lookupsIn(x.X, d+1), lookupsIn(x.Y, d+1)...)
	case *ssa.Call:
		if bi, ok := x.Call.Value.(*ssa.Builtin); ok && bi.Name() == "len" && len(x.Call.Args) == 1 {
			return lookupsIn(x.Call.Args[0], d+1)
		}
	case *ssa.Phi:
		var out []*ssa.Lookup
		for _, e := range x.Edges {
			out = append(out, lookupsIn(e, d+1)...)
		}
		return out
	}
	return nil
}

// ---- REGISTRY-KEEP -----------------------------------------------------------------------------------------------------
// The registry of build artifacts holds the only copy of an entity's private key between the import and the export.
// An empty artifact may be registered for an entity that has none yet; put in the place of one that is there, it makes
// the next generation invent a key (seed C14o: "whatever was built from a different configuration is stale now").

func init() {
	register(&Rule{Name: "REGISTRY-KEEP", Floor: 2, Run: ruleRegistryKeep, Fixture: "dropsWhatWasStored",
		Doc: "a registry whose entries carry key material (a map field with elements *T, T a struct with a crypto.PrivateKey field) is given a fresh empty T only where a registry of the same object was found to have nothing for that key (comma-ok miss): an entry that exists is replaced only by a value that comes from outside the function (the setter's argument, the decoded file), never by an empty one"})
}

func carriesKey(t types.Type) bool {
	pt, ok := t.Underlying().(*types.Pointer)
	if !ok {
		return false
	}
	st, ok := pt.Elem().Underlying().(*types.Struct)
	if !ok {
		return false
	}
	for i := 0; i < st.NumFields(); i++ {
		if typeIs(st.Field(i).Type(), "crypto", "PrivateKey") {
			return true
		}
	}
	return false
}

// emptyLiteral: the address of a composite literal nothing is stored into.
func emptyLiteral(v ssa.Value) bool {
	al, ok := v.(*ssa.Alloc)
	if !ok || al.Referrers() == nil {
		return false
	}
	for _, ref := range *al.Referrers() {
		switch x := ref.(type) {
		case *ssa.Store:
			if x.Addr == ssa.Value(al) {
				return false
			}
		case *ssa.FieldAddr:
			if x.Referrers() != nil {
				for _, r2 := range *x.Referrers() {
					if st, isSt := r2.(*ssa.Store); isSt && st.Addr == ssa.Value(x) {
						return false
					}
				}
			}
		case ssa.CallInstruction:
			return false // handed to something that may fill it
		}
	}
	return true
}

func ruleRegistryKeep(c *Ctx, r *Rep) {
	stores := 0
	for _, fn := range c.Funcs {
		n := 0
		for _, b := range fn.Blocks {
			for _, ins := range b.Instrs {
				mu, ok := ins.(*ssa.MapUpdate)
				if !ok {
					continue
				}
				fld, _ := mapFieldKeyOf(mu.Map)
				if fld == nil {
					continue
				}
				mt, _ := fld.Type().Underlying().(*types.Map)
				if mt == nil || !carriesKey(mt.Elem()) {
					continue
				}
				stores++
				if !emptyLiteral(mu.Value) {
					continue
				}
				n++
				k := collKey(mu.Key)
				miss, hit := false, ""
				for _, g := range guardsOf(b) {
					ex, isEx := g.Cond.(*ssa.Extract)
					if !isEx || ex.Index != 1 {
						continue
					}
					lk, isLk := ex.Tuple.(*ssa.Lookup)
					if !isLk || !lk.CommaOk || collKey(lk.Index) != k {
						continue
					}
					f2, _ := mapFieldKeyOf(lk.X)
					if f2 == nil {
						continue
					}
					if !g.Truth {
						miss = true
					} else {
						hit = f2.Name()
					}
				}
				if !miss && hit == "" {
					// the test may sit at the places the function is called from (an unexported helper that registers a new
					// entity): every call lies behind a miss for one of the values it hands in
					if sites, known := callSitesOf(c, fn); known && len(sites) > 0 && (fn.Object() == nil || !fn.Object().Exported()) {
						miss = true
						for _, site := range sites {
							siteMiss := false
							for _, g := range guardsOf(site.Block()) {
								ex, isEx := g.Cond.(*ssa.Extract)
								if !isEx || ex.Index != 1 || g.Truth {
									continue
								}
								lk, isLk := ex.Tuple.(*ssa.Lookup)
								if !isLk || !lk.CommaOk {
									continue
								}
								if f2, _ := mapFieldKeyOf(lk.X); f2 == nil {
									continue
								}
								for _, a := range site.Common().Args {
									// the key itself, or the struct (by address) whose field the key is
									if collKey(a) == collKey(lk.Index) || strings.Contains(collKey(lk.Index), addrKeyOf(a)+".") {
										siteMiss = true
									}
								}
							}
							if !siteMiss {
								miss = false
							}
						}
					}
				}
				found := "no registry was found to lack this key on the way to the store"
				if hit != "" && !miss {
					found = "the store lies where ." + hit + " HAS an entry for this key: what was stored (the private key) is dropped"
				}
				r.Check(miss, sprintf("empty-only-when-absent|%s#%d", c.FuncKey(fn), n), c.Pos(mu.Pos()),
					"an empty "+typeShort(c, mt.Elem())+" is registered only for a key some registry of the object does not know yet", found)
			}
		}
	}
	if stores == 0 {
		r.Undecided("anchor:key-registry", "", "no store into a map field whose elements carry a private key")
	}
}


// callSitesOf: the call instructions of the module that call fn directly; known is false when fn is also used as a value
// (handed on, stored, bound as a method value), so that not all of its callers can be listed.
func callSitesOf(c *Ctx, fn *ssa.Function) (sites []ssa.CallInstruction, known bool) {
	known = true
	for _, caller := range c.Funcs {
		for _, b := range caller.Blocks {
			for _, ins := range b.Instrs {
				for _, op := range ins.Operands(nil) {
					if op == nil || *op != ssa.Value(fn) {
						continue
					}
					if ci, isCall := ins.(ssa.CallInstruction); isCall && ci.Common().Value == ssa.Value(fn) {
						sites = append(sites, ci)
					} else {
						known = false
					}
				}
			}
		}
	}
	return
}

// ---- EC-POINT ------------------------------------------------------------------------------------------------------------
// The public point of an EC key that is read from a file is computed from the scalar. A point copied out of the file
// need not lie on the curve (elliptic.Marshal panics on it when the key is reused: seed C20o) and need not belong to the
// scalar (the certificate would carry another key than the one that signs).

func init() {
	register(&Rule{Name: "EC-POINT", Floor: 2, Run: ruleEcPoint,
		Doc: "below the PKCS#8 reader every store into X or Y of an ecdsa key has as its value the matching result of Curve.ScalarBaseMult (or ScalarMult): the public point is derived from the scalar that was read, never taken from the bytes of the file"})
}

func ruleEcPoint(c *Ctx, r *Rep) {
	p8 := c.Func("generator/cert", "ParsePKCS8PrivateKey")
	if p8 == nil {
		r.Undecided("anchor:ParsePKCS8PrivateKey", "", "not found")
		return
	}
	derived := func(v ssa.Value, want int) (bool, string) {
		seen := map[ssa.Value]bool{}
		var walk func(v ssa.Value) (bool, string)
		walk = func(v ssa.Value) (bool, string) {
			if seen[v] {
				return true, ""
			}
			seen[v] = true
			switch x := v.(type) {
			case *ssa.Phi:
				for _, e := range x.Edges {
					if ok, why := walk(e); !ok {
						return false, why
					}
				}
				return true, ""
			case *ssa.Extract:
				if call, ok := x.Tuple.(*ssa.Call); ok && x.Index == want {
					name := ""
					if call.Call.IsInvoke() {
						name = call.Call.Method.Name()
					} else if f := call.Call.StaticCallee(); f != nil {
						name = f.Name()
					}
					if name == "ScalarBaseMult" || name == "ScalarMult" {
						return true, ""
					}
					return false, "result of " + name
				}
			}
			return false, v.String()
		}
		return walk(v)
	}
	n := 0
	per := map[string]int{}
	for f := range c.Graph().Reach(p8) {
		for _, b := range f.Blocks {
			for _, ins := range b.Instrs {
				st, ok := ins.(*ssa.Store)
				if !ok {
					continue
				}
				fa, ok := st.Addr.(*ssa.FieldAddr)
				if !ok || !strings.Contains(types.TypeString(fa.X.Type(), nil), "crypto/ecdsa.P") {
					continue
				}
				name := fieldOfAddr(fa).Name()
				want := map[string]int{"X": 0, "Y": 1}
				idx, isXY := want[name]
				if !isXY {
					continue
				}
				n++
				per[c.FuncKey(f)+name]++
				ok2, why := derived(st.Val, idx)
				r.Check(ok2, sprintf("point-from-scalar|%s|%s#%d", c.FuncKey(f), name, per[c.FuncKey(f)+name]), c.Pos(st.Pos()), name+" of the key read is result "+sprintf("%d", idx)+" of ScalarBaseMult(scalar)", orStr(why, "so"))
			}
		}
	}
	if n == 0 {
		r.Undecided("anchor:ec-point-stores", c.FnPos(p8), "no store into X or Y of an ecdsa key below the PKCS#8 reader")
	}
}

// ---- SUBJECT-TEXT --------------------------------------------------------------------------------------------------------
// The text of a subject attribute goes into the certificate as it stands in the configuration: what follows the '='
// of a piece is the value. Cutting something off it on the way (surrounding quotes "as RFC 2253 writes them", a
// prefix, white space inside) changes what the certificate says (seed C03p).

func init() {
	register(&Rule{Name: "SUBJECT-TEXT", Floor: 1, Run: ruleSubjectText,
		Doc: "where the subject parser stores a text as the value of an attribute, that text is a piece of the configured subject as split, or what a '#'-value decodes to: on no way to the store is it cut (a sub-string with a bound), trimmed of anything but surrounding white space, replaced in, or changed in case"})
}

func ruleSubjectText(c *Ctx, r *Rep) {
	fn := c.Func("generator/config", "ParseRDNSequence")
	if fn == nil {
		r.Undecided("anchor:ParseRDNSequence", "", "not found")
		return
	}
	var cands []*ssa.Function
	seenF := map[*ssa.Function]bool{}
	var add func(f *ssa.Function, d int)
	add = func(f *ssa.Function, d int) {
		if f == nil || seenF[f] || !c.InModule(f) || f.Blocks == nil || d > 2 {
			return
		}
		seenF[f] = true
		cands = append(cands, f)
		for _, ci := range callsIn(f) {
			add(ci.Common().StaticCallee(), d+1)
		}
	}
	add(fn, 0)
	rewriters := map[string]bool{"strings.Trim": true, "strings.TrimLeft": true, "strings.TrimRight": true, "strings.TrimPrefix": true, "strings.TrimSuffix": true,
		"strings.TrimFunc": true, "strings.Replace": true, "strings.ReplaceAll": true, "strings.ToLower": true, "strings.ToUpper": true, "strings.Title": true,
		"strconv.Unquote": true, "strings.Map": true, "strings.Fields": true, "strings.Join": true, "strings.ToValidUTF8": true}
	n := 0
	for _, f := range cands {
		k := 0
		for _, b := range f.Blocks {
			for _, ins := range b.Instrs {
				st, ok := ins.(*ssa.Store)
				if !ok {
					continue
				}
				fa, ok := st.Addr.(*ssa.FieldAddr)
				if !ok || fieldOfAddr(fa).Name() != "Value" || !strings.Contains(types.TypeString(fa.X.Type(), nil), "AttributeTypeAndValue") {
					continue
				}
				// the texts that can be the value: directly, or as what a helper of the module answers
				var texts []ssa.Value
				seenT := map[ssa.Value]bool{}
				var collect func(v ssa.Value, d int)
				collect = func(v ssa.Value, d int) {
					if d > 6 || seenT[v] {
						return
					}
					seenT[v] = true
					switch x := v.(type) {
					case *ssa.MakeInterface:
						if isString(x.X.Type()) {
							texts = append(texts, x.X)
						}
					case *ssa.Phi:
						for _, e := range x.Edges {
							collect(e, d+1)
						}
					case *ssa.Extract:
						if call, isCall := x.Tuple.(*ssa.Call); isCall {
							if g := call.Call.StaticCallee(); g != nil && c.InModule(g) && g.Blocks != nil {
								for _, ret := range returnsOf(g) {
									if rr := retResults(ret); x.Index < len(rr) {
										collect(rr[x.Index], d+1)
									}
								}
							}
						}
					case *ssa.Call:
						if g := x.Call.StaticCallee(); g != nil && c.InModule(g) && g.Blocks != nil && g.Signature.Results().Len() == 1 {
							for _, ret := range returnsOf(g) {
								collect(retResults(ret)[0], d+1)
							}
						}
					case *ssa.UnOp:
						if al, isAl := x.X.(*ssa.Alloc); isAl && x.Op == token.MUL && al.Referrers() != nil {
							for _, ref := range *al.Referrers() {
								if s2, isSt := ref.(*ssa.Store); isSt && s2.Addr == ssa.Value(al) {
									collect(s2.Val, d+1)
								}
							}
						}
					}
				}
				collect(st.Val, 0)
				if len(texts) == 0 {
					continue
				}
				n++
				k++
				cut := ""
				seen := map[ssa.Value]bool{}
				var walk func(v ssa.Value, d int)
				walk = func(v ssa.Value, d int) {
					if d > 10 || seen[v] || cut != "" {
						return
					}
					seen[v] = true
					switch x := v.(type) {
					case *ssa.Slice:
						if isString(x.X.Type()) && (x.Low != nil || x.High != nil) {
							cut = c.Pos(x.Pos()) + ": a part of the text (" + x.String() + ")"
							return
						}
						walk(x.X, d+1)
					case *ssa.Phi:
						for _, e := range x.Edges {
							walk(e, d+1)
						}
					case *ssa.Convert:
						walk(x.X, d+1)
					case *ssa.ChangeType:
						walk(x.X, d+1)
					case *ssa.UnOp:
						if al, isAl := x.X.(*ssa.Alloc); isAl && x.Op == token.MUL && al.Referrers() != nil {
							for _, ref := range *al.Referrers() {
								if s2, isSt := ref.(*ssa.Store); isSt && s2.Addr == ssa.Value(al) {
									walk(s2.Val, d+1)
								}
							}
						}
					case *ssa.Call:
						name := calleeFullName(x)
						if rewriters[name] {
							cut = c.Pos(x.Pos()) + ": " + name
							return
						}
						if name == "strings.TrimSpace" && len(x.Call.Args) == 1 {
							walk(x.Call.Args[0], d+1)
							return
						}
						if g := x.Call.StaticCallee(); g != nil && c.InModule(g) && g.Blocks != nil && g.Signature.Results().Len() == 1 && isString(g.Signature.Results().At(0).Type()) {
							for _, ret := range returnsOf(g) {
								walk(retResults(ret)[0], d+1)
							}
							for _, a := range x.Call.Args {
								walk(a, d+1)
							}
						}
					case *ssa.Extract:
						if call, isCall := x.Tuple.(*ssa.Call); isCall {
							if g := call.Call.StaticCallee(); g != nil && c.InModule(g) && g.Blocks != nil && x.Index < g.Signature.Results().Len() && isString(g.Signature.Results().At(x.Index).Type()) {
								for _, ret := range returnsOf(g) {
									if rr := retResults(ret); x.Index < len(rr) {
										walk(rr[x.Index], d+1)
									}
								}
								for _, a := range call.Call.Args {
									walk(a, d+1)
								}
							}
						}
					case *ssa.Parameter:
						// the helper's parameter: what its callers hand in
						pf := x.Parent()
						for i, prm := range pf.Params {
							if prm != x {
								continue
							}
							if sites, _ := callSitesOf(c, pf); len(sites) > 0 {
								for _, site := range sites {
									if i < len(site.Common().Args) && seenF[site.Parent()] && pf != fn {
										walk(site.Common().Args[i], d+1)
									}
								}
							}
						}
					}
				}
				for _, t := range texts {
					walk(t, 0)
				}
				r.Check(cut == "", sprintf("value-text-as-written|%s#%d", c.FuncKey(f), k), c.Pos(st.Pos()), "the text stored as the attribute's value is the piece of the subject as written (or what a '#' value decodes to)", cut)
			}
		}
	}
	if n == 0 {
		r.Undecided("anchor:attribute-value-store", c.FnPos(fn), "no store of a text into AttributeTypeAndValue.Value in the subject parser or its helpers")
	}
}
