package main

import (
	"go/constant"
	"go/token"
	"go/types"
	"sort"
	"strings"

	"golang.org/x/tools/go/ssa"
)

func init() {
	register(&Rule{Name: "MERGE-PATHS", Floor: 10, Run: ruleMergePaths,
		Doc: "every path through one round of Merge's loop over the profile's extensions (inner loops unrolled twice, boolean variables followed along the path, conditions reduced to the atoms already-matched / same OID / override / identical / optional) is compared with the documented decision table: a certificate extension that is not yet matched and has the same OID is recorded as matched; with override it takes this position and is recorded as placed; without override the profile's extension is emitted iff the two differ; without any match the profile's extension is emitted iff it is not optional; nothing else is emitted. Every path through one round of the closing loop emits the certificate's extension iff it was not placed by an override"})
}

// ---- the path walker -------------------------------------------------------------------------------------------------

type mpEnv struct {
	phis     map[*ssa.Phi]ssa.Value
	atoms    map[string]bool
	order    []string
	events   []string
	visits   map[*ssa.BasicBlock]int
	mid      int             // rounds of the loop over the certificate's extensions begun in this round
	examined map[string]bool // "<list>@<mid>": the index list was searched in that round
	member   map[string]bool // "<list>@<mid>": the search found the index
	notes    []string
	// calls of module helpers that are walked through rather than treated as one step
	params  map[*ssa.Parameter]ssa.Value // helper parameter -> argument (resolved in the caller)
	results map[*ssa.Call][]ssa.Value    // finished helper call -> what it returned on this path
	frames  []mpFrame
}

type mpFrame struct {
	call *ssa.Call
	idx  int // position of the call in its block
}

func (e *mpEnv) clone() *mpEnv {
	n := &mpEnv{phis: map[*ssa.Phi]ssa.Value{}, atoms: map[string]bool{}, visits: map[*ssa.BasicBlock]int{}, mid: e.mid,
		examined: map[string]bool{}, member: map[string]bool{}, params: map[*ssa.Parameter]ssa.Value{}, results: map[*ssa.Call][]ssa.Value{}}
	for k, v := range e.phis {
		n.phis[k] = v
	}
	for k, v := range e.atoms {
		n.atoms[k] = v
	}
	for k, v := range e.visits {
		n.visits[k] = v
	}
	for k, v := range e.examined {
		n.examined[k] = v
	}
	for k, v := range e.member {
		n.member[k] = v
	}
	n.order = append([]string{}, e.order...)
	n.events = append([]string{}, e.events...)
	n.notes = append([]string{}, e.notes...)
	n.params = map[*ssa.Parameter]ssa.Value{}
	for k, v := range e.params {
		n.params[k] = v
	}
	n.results = map[*ssa.Call][]ssa.Value{}
	for k, v := range e.results {
		n.results[k] = v
	}
	n.frames = append([]mpFrame{}, e.frames...)
	return n
}

type mpLoop struct {
	head  *ssa.BasicBlock
	body  map[*ssa.BasicBlock]bool
	kind  string    // "prof" | "cert" | "list"
	index ssa.Value // the index value compared in the header
	src   ssa.Value // the slice ranged over
}

type roundWalker struct {
	c       *Ctx
	fn      *ssa.Function
	pv      *prov
	profP   string // origin prefix of the profile's extension elements
	certP   string
	loops   map[*ssa.BasicBlock]*mpLoop
	region  *mpLoop // the loop one round of which is walked
	midLoop *mpLoop // the loop over the certificate's extensions nested in the region (nil in the closing loop)
	newRoot ssa.Value
	names   map[ssa.Value]string // index-list roots -> L1, L2 …
	limit   int
	paths   int
	finish  func(env *mpEnv, end string)
	unknown []string
	// hooks: how a branch condition reduces to an atom, and what an instruction contributes to the round's events
	classifyFn func(v ssa.Value, env *mpEnv, at *ssa.BasicBlock) (kind int, key string, val bool)
	eventFn    func(ins ssa.Instruction, env *mpEnv)
	followFn   func(g *ssa.Function) bool // module helpers whose body is walked as part of the round
}

// resolve follows phis decided by the path and value-preserving conversions.
func (w *roundWalker) resolve(v ssa.Value, env *mpEnv) ssa.Value {
	for i := 0; i < 30; i++ {
		switch x := v.(type) {
		case *ssa.Parameter:
			if env.params != nil {
				if a, ok := env.params[x]; ok {
					v = a
					continue
				}
			}
			return v
		case *ssa.Extract:
			if call, ok := x.Tuple.(*ssa.Call); ok && env.results != nil {
				if res, ok := env.results[call]; ok && x.Index < len(res) {
					v = res[x.Index]
					continue
				}
			}
			return v
		case *ssa.Call:
			if env.results != nil {
				if res, ok := env.results[x]; ok && len(res) == 1 {
					v = res[0]
					continue
				}
			}
			return v
		case *ssa.Phi:
			if r, ok := env.phis[x]; ok {
				v = r
				continue
			}
			return v
		case *ssa.ChangeInterface:
			v = x.X
		case *ssa.ChangeType:
			v = x.X
		case *ssa.MakeInterface:
			v = x.X
		default:
			return v
		}
	}
	return v
}

// root names the list variable a slice/map value belongs to: appends and path-decided phis are followed back; a phi not
// decided by the path (the value at the start of the round) is followed through its entry edges to the initial value.
func (w *roundWalker) root(v ssa.Value, env *mpEnv) ssa.Value {
	for i := 0; i < 40; i++ {
		v = w.resolve(v, env)
		switch x := v.(type) {
		case *ssa.Call:
			if bi, ok := x.Call.Value.(*ssa.Builtin); ok && bi.Name() == "append" {
				v = x.Call.Args[0]
				continue
			}
			return v
		case *ssa.Slice:
			v = x.X
			continue
		case *ssa.Phi:
			// entry edge: from a predecessor the phi's block does not dominate
			next := ssa.Value(nil)
			for k, e := range x.Edges {
				if !x.Block().Dominates(x.Block().Preds[k]) {
					next = e
					break
				}
			}
			if next == nil {
				return v
			}
			v = next
			continue
		default:
			return v
		}
	}
	return v
}

func (w *roundWalker) listName(rt ssa.Value) string {
	if n, ok := w.names[rt]; ok {
		return n
	}
	n := sprintf("L%d", len(w.names)+1)
	w.names[rt] = n
	return n
}

// elemOf: v is the element of the given loop's source at the loop's current index.
func (w *roundWalker) elemOf(v ssa.Value, lp *mpLoop, env *mpEnv) bool {
	if lp == nil {
		return false
	}
	v = w.resolve(v, env)
	u, ok := v.(*ssa.UnOp)
	if !ok || u.Op != token.MUL {
		return false
	}
	ia, ok := u.X.(*ssa.IndexAddr)
	if !ok {
		return false
	}
	return w.resolve(ia.Index, env) == lp.index && strings.Join(w.pv.Origins(ia.X), ",") == strings.Join(w.pv.Origins(lp.src), ",")
}

func (w *roundWalker) isProfElem(v ssa.Value, env *mpEnv) bool {
	o := w.pv.Origins(w.resolve(v, env))
	if len(o) == 0 {
		return false
	}
	for _, x := range o {
		if !strings.HasPrefix(x, w.profP) {
			return false
		}
	}
	return true
}

const (
	ckConst = iota
	ckAtom
	ckFree
	ckUnknown
)

// classify reduces a branch condition to a constant, an atom (with polarity), a free choice or "unknown".
func (w *roundWalker) classify(v ssa.Value, env *mpEnv, at *ssa.BasicBlock) (kind int, key string, val bool) {
	v = w.resolve(v, env)
	switch x := v.(type) {
	case *ssa.Const:
		if x.Value != nil && x.Value.Kind().String() == "Bool" {
			return ckConst, "", constBool(x)
		}
	case *ssa.UnOp:
		if x.Op == token.NOT {
			k, key, val := w.classify(x.X, env, at)
			return k, key, !val
		}
		if x.Op == token.MUL {
			if f := fieldLoad(x); f != nil {
				fa := x.X.(*ssa.FieldAddr)
				if w.isProfElem(x, env) || w.isProfElem(fa.X, env) {
					switch f.Name() {
					case "Override":
						return ckAtom, "override", true
					case "Optional":
						return ckAtom, "optional", true
					}
				}
			}
			// element of a []bool set
			if ia, ok := x.X.(*ssa.IndexAddr); ok {
				if lp := w.curIndexLoop(ia.Index); lp != nil {
					name := w.listName(w.root(ia.X, env)) + "@" + sprintf("%d", env.mid)
					env.examined[name] = true
					return ckAtom, "member:" + name, true
				}
			}
		}
	case *ssa.BinOp:
		// loop header conditions: free
		if lp := w.loops[at]; lp != nil && lastInstr(at) != nil {
			if iff, ok := lastInstr(at).(*ssa.If); ok && w.resolve(iff.Cond, env) == v {
				return ckFree, "", false
			}
		}
		// comparisons of a remembered index (a variable holding -1 or the index of a loop) with a constant
		if lo, hi, ok := w.intRange(x.X, env); ok {
			if lo2, hi2, ok2 := w.intRange(x.Y, env); ok2 {
				switch x.Op {
				case token.LSS:
					if hi < lo2 {
						return ckConst, "", true
					}
					if lo >= hi2 {
						return ckConst, "", false
					}
				case token.GEQ:
					if lo >= hi2 {
						return ckConst, "", true
					}
					if hi < lo2 {
						return ckConst, "", false
					}
				case token.GTR:
					if lo > hi2 {
						return ckConst, "", true
					}
					if hi <= lo2 {
						return ckConst, "", false
					}
				case token.LEQ:
					if hi <= lo2 {
						return ckConst, "", true
					}
					if lo > hi2 {
						return ckConst, "", false
					}
				case token.EQL:
					if hi < lo2 || lo > hi2 {
						return ckConst, "", false
					}
					if lo == hi && lo2 == hi2 && lo == lo2 {
						return ckConst, "", true
					}
				case token.NEQ:
					if hi < lo2 || lo > hi2 {
						return ckConst, "", true
					}
					if lo == hi && lo2 == hi2 && lo == lo2 {
						return ckConst, "", false
					}
				}
			}
		}
		if x.Op == token.EQL || x.Op == token.NEQ {
			// error test
			if k, ok := x.Y.(*ssa.Const); ok && k.Value == nil && isErrorType(x.X.Type()) {
				return w.errAtom(x, env, at)
			}
			// element of an index list compared with the current index of the certificate loop
			for _, pair := range [][2]ssa.Value{{x.X, x.Y}, {x.Y, x.X}} {
				el, idx := w.resolve(pair[0], env), w.resolve(pair[1], env)
				u, ok := el.(*ssa.UnOp)
				if !ok || u.Op != token.MUL {
					continue
				}
				ia, ok := u.X.(*ssa.IndexAddr)
				if !ok {
					continue
				}
				if _, isSlice := ia.X.Type().Underlying().(*types.Slice); !isSlice {
					continue
				}
				if w.curIndexLoop(idx) == nil {
					continue
				}
				name := w.listName(w.root(ia.X, env)) + "@" + sprintf("%d", env.mid)
				return ckAtom, sprintf("eq:%s#%d", name, env.visits[at]), x.Op == token.EQL
			}
		}
	case *ssa.Call:
		switch calleeFullName(x) {
		case "(encoding/asn1.ObjectIdentifier).Equal":
			if w.oidOf(x.Call.Args[0], env) != "" && w.oidOf(x.Call.Args[1], env) != "" && w.oidOf(x.Call.Args[0], env) != w.oidOf(x.Call.Args[1], env) {
				return ckAtom, sprintf("sameoid@%d", env.mid), true
			}
		case "bytes.Equal":
			a, b := w.jsonOf(x.Call.Args[0], env), w.jsonOf(x.Call.Args[1], env)
			if a != "" && b != "" && a != b {
				return ckAtom, sprintf("identical@%d", env.mid), true
			}
		case "slices.Contains":
			if w.curIndexLoop(w.resolve(x.Call.Args[1], env)) != nil {
				name := w.listName(w.root(x.Call.Args[0], env)) + "@" + sprintf("%d", env.mid)
				env.examined[name] = true
				return ckAtom, "member:" + name, true
			}
		default:
			// a module helper func([]int, int) bool that compares the elements with its second argument
			if f := x.Call.StaticCallee(); f != nil && w.c.InModule(f) && isMembershipHelper(f) && len(x.Call.Args) == 2 {
				if w.curIndexLoop(w.resolve(x.Call.Args[1], env)) != nil {
					name := w.listName(w.root(x.Call.Args[0], env)) + "@" + sprintf("%d", env.mid)
					env.examined[name] = true
					return ckAtom, "member:" + name, true
				}
			}
		}
	case *ssa.Lookup:
		if _, isMap := x.X.Type().Underlying().(*types.Map); isMap && !x.CommaOk && w.curIndexLoop(w.resolve(x.Index, env)) != nil {
			name := w.listName(w.root(x.X, env)) + "@" + sprintf("%d", env.mid)
			env.examined[name] = true
			return ckAtom, "member:" + name, true
		}
	case *ssa.Extract:
		// a module helper func(a, b) (bool, error) that compares the JSON of its two arguments
		if call, ok := x.Tuple.(*ssa.Call); ok && x.Index == 0 && len(call.Call.Args) == 2 {
			if f := call.Call.StaticCallee(); f != nil && w.c.InModule(f) && isJSONEqualHelper(f) {
				a, b := w.extKind(call.Call.Args[0], env), w.extKind(call.Call.Args[1], env)
				if a != "" && b != "" && a != b {
					return ckAtom, sprintf("identical@%d", env.mid), true
				}
			}
		}
		if lk, ok := x.Tuple.(*ssa.Lookup); ok && x.Index == 1 {
			if _, isMap := lk.X.Type().Underlying().(*types.Map); isMap && w.curIndexLoop(w.resolve(lk.Index, env)) != nil {
				name := w.listName(w.root(lk.X, env)) + "@" + sprintf("%d", env.mid)
				env.examined[name] = true
				return ckAtom, "member:" + name, true
			}
		}
	}
	// something else the program asks about an extension - a predicate of the module, the dynamic type of a builder: an
	// atom of its own. The documented rules do not depend on it, so both of its answers must lead to what the table says.
	switch x := v.(type) {
	case *ssa.Call:
		if f := x.Call.StaticCallee(); f != nil && w.c.InModule(f) && f.Signature.Results().Len() == 1 && isBoolType(f.Signature.Results().At(0).Type()) {
			return ckAtom, "other:" + w.c.FuncKey(f) + "()", true
		}
	case *ssa.Extract:
		if ta, ok := x.Tuple.(*ssa.TypeAssert); ok && ta.CommaOk && x.Index == 1 {
			return ckAtom, "other:is-" + typeShort(w.c, ta.AssertedType), true
		}
	}
	return ckUnknown, "", false
}

// curIndexLoop: the certificate loop (nested or closing) whose current index the value is.
func (w *roundWalker) curIndexLoop(idx ssa.Value) *mpLoop {
	if w.midLoop != nil && idx == w.midLoop.index {
		return w.midLoop
	}
	if w.midLoop == nil && w.region.kind == "cert" && idx == w.region.index {
		return w.region
	}
	return nil
}

// oidOf: "prof" / "cert" when v is Oid() of the profile's current extension / the certificate loop's current element.
func (w *roundWalker) oidOf(v ssa.Value, env *mpEnv) string {
	call, ok := w.resolve(v, env).(*ssa.Call)
	if !ok || !call.Call.IsInvoke() || call.Call.Method.Name() != "Oid" {
		return ""
	}
	return w.extKind(call.Call.Value, env)
}

func (w *roundWalker) extKind(v ssa.Value, env *mpEnv) string {
	if w.elemOf(v, w.midLoop, env) || (w.midLoop == nil && w.elemOf(v, w.region, env)) {
		return "cert"
	}
	if w.isProfElem(v, env) {
		return "prof"
	}
	return ""
}

// jsonOf: "prof" / "cert" when v is the json.Marshal output of that extension.
func (w *roundWalker) jsonOf(v ssa.Value, env *mpEnv) string {
	ex, ok := w.resolve(v, env).(*ssa.Extract)
	if !ok || ex.Index != 0 {
		return ""
	}
	call, ok := ex.Tuple.(*ssa.Call)
	if !ok || calleeFullName(call) != "encoding/json.Marshal" {
		return ""
	}
	return w.extKind(call.Call.Args[0], env)
}

func isMembershipHelper(f *ssa.Function) bool {
	if len(f.Params) != 2 || f.Signature.Results().Len() != 1 || f.Blocks == nil {
		return false
	}
	if _, ok := f.Params[0].Type().Underlying().(*types.Slice); !ok {
		return false
	}
	if b, ok := f.Signature.Results().At(0).Type().Underlying().(*types.Basic); !ok || b.Kind() != types.Bool {
		return false
	}
	// a comparison of an element of the first parameter with the second; true returned under it, false otherwise
	seenCmp := false
	for _, b := range f.Blocks {
		for _, ins := range b.Instrs {
			bin, ok := ins.(*ssa.BinOp)
			if !ok || bin.Op != token.EQL {
				continue
			}
			for _, pair := range [][2]ssa.Value{{bin.X, bin.Y}, {bin.Y, bin.X}} {
				if pair[1] != ssa.Value(f.Params[1]) {
					continue
				}
				if u, ok := pair[0].(*ssa.UnOp); ok && u.Op == token.MUL {
					if ia, ok := u.X.(*ssa.IndexAddr); ok && ia.X == ssa.Value(f.Params[0]) {
						seenCmp = true
					}
				}
			}
		}
	}
	if !seenCmp {
		return false
	}
	for _, ret := range returnsOf(f) {
		k, ok := retResults(ret)[0].(*ssa.Const)
		if !ok {
			if _, isPhi := retResults(ret)[0].(*ssa.Phi); isPhi {
				continue
			}
			return false
		}
		_ = k
	}
	return true
}

// appended: the single value appended by append(list, v) (varargs form), or nil.
func appendedValue(call *ssa.Call) ssa.Value {
	if len(call.Call.Args) != 2 {
		return nil
	}
	sl, ok := call.Call.Args[1].(*ssa.Slice)
	if !ok {
		return nil
	}
	arr, ok := sl.X.(*ssa.Alloc)
	if !ok || arr.Referrers() == nil {
		return nil
	}
	var v ssa.Value
	n := 0
	for _, u := range *arr.Referrers() {
		if ia, ok := u.(*ssa.IndexAddr); ok && ia.Referrers() != nil {
			for _, uu := range *ia.Referrers() {
				if st, ok := uu.(*ssa.Store); ok && st.Addr == ssa.Value(ia) {
					v = st.Val
					n++
				}
			}
		}
	}
	if n != 1 {
		return nil
	}
	return v
}

func (w *roundWalker) event(ins ssa.Instruction, env *mpEnv) {
	switch x := ins.(type) {
	case *ssa.Call:
		bi, ok := x.Call.Value.(*ssa.Builtin)
		if !ok || bi.Name() != "append" {
			return
		}
		rt := w.root(x.Call.Args[0], env)
		v := appendedValue(x)
		if rt == w.newRoot {
			switch {
			case v == nil:
				env.events = append(env.events, "new+=?")
			case w.extKind(v, env) != "":
				env.events = append(env.events, "new+="+w.extKind(v, env))
			default:
				env.events = append(env.events, "new+=?"+strings.Join(w.pv.Origins(v), ","))
			}
			return
		}
		if sl, ok := x.Type().Underlying().(*types.Slice); ok {
			if b, ok := sl.Elem().Underlying().(*types.Basic); ok && b.Kind() == types.Int {
				if v != nil && w.curIndexLoop(w.resolve(v, env)) != nil {
					env.events = append(env.events, w.listName(rt)+"+=i")
				} else {
					env.events = append(env.events, w.listName(rt)+"+=?")
				}
			}
		}
	case *ssa.MapUpdate:
		if w.curIndexLoop(w.resolve(x.Key, env)) != nil {
			env.events = append(env.events, w.listName(w.root(x.Map, env))+"+=i")
		}
	case *ssa.Store:
		if ia, ok := x.Addr.(*ssa.IndexAddr); ok && w.curIndexLoop(w.resolve(ia.Index, env)) != nil {
			if k, ok := x.Val.(*ssa.Const); ok && k.Value != nil && k.Value.Kind().String() == "Bool" && constBool(k) {
				env.events = append(env.events, w.listName(w.root(ia.X, env))+"+=i")
			}
		}
	}
}

func (w *roundWalker) walk(prev, b *ssa.BasicBlock, env *mpEnv) {
	w.walkFrom(prev, b, 0, env)
}

// walkFrom continues a path at instruction from of block b (from > 0: after a helper call that has returned).
func (w *roundWalker) walkFrom(prev, b *ssa.BasicBlock, from int, env *mpEnv) {
	if w.paths > w.limit {
		return
	}
	if from > 0 {
		w.walkInstrs(b, from, env)
		return
	}
	// a new round of an inner loop: forget the visit counts of its blocks
	if lp := w.loops[b]; lp != nil && prev != nil && !lp.body[prev] {
		for bb := range lp.body {
			delete(env.visits, bb)
		}
	}
	env.visits[b]++
	if env.visits[b] > 3 {
		return // beyond the unrolling bound
	}
	inHelper := len(env.frames) > 0
	if b == w.region.head && !inHelper {
		w.paths++
		w.finish(env, "next")
		return
	}
	if !w.region.body[b] && !inHelper {
		if ret, ok := lastInstr(b).(*ssa.Return); ok {
			w.paths++
			if returnsNonNilError(ret) {
				w.finish(env, "error")
			} else {
				w.finish(env, "return")
			}
			return
		}
		w.paths++
		w.finish(env, "left")
		return
	}
	// phis
	if prev != nil {
		for i, p := range b.Preds {
			if p != prev {
				continue
			}
			vals := map[*ssa.Phi]ssa.Value{}
			for _, ins := range b.Instrs {
				phi, isPhi := ins.(*ssa.Phi)
				if !isPhi {
					break
				}
				vals[phi] = w.resolve(phi.Edges[i], env) // parallel assignment: resolved before any is updated
			}
			for k, v := range vals {
				env.phis[k] = v
			}
			break
		}
	}
	if w.midLoop != nil && prev == w.midLoop.head && w.midLoop.body[b] {
		env.mid++
	}
	if lp := w.loops[b]; lp != nil && lp.kind == "list" {
		name := w.listName(w.root(lp.src, env)) + "@" + sprintf("%d", env.mid)
		env.examined[name] = true
	}
	w.walkInstrs(b, 0, env)
}

func (w *roundWalker) walkInstrs(b *ssa.BasicBlock, from int, env *mpEnv) {
	for idx := from; idx < len(b.Instrs); idx++ {
		ins := b.Instrs[idx]
		switch x := ins.(type) {
		case *ssa.Return:
			if n := len(env.frames); n > 0 {
				// back to the caller: the call's results on this path
				fr := env.frames[n-1]
				var res []ssa.Value
				for _, rv := range retResults(x) {
					res = append(res, w.resolve(rv, env))
				}
				env.frames = env.frames[:n-1]
				env.results[fr.call] = res
				w.walkFrom(nil, fr.call.Block(), fr.idx+1, env)
				return
			}
			w.paths++
			if returnsNonNilError(x) {
				w.finish(env, "error")
			} else {
				w.finish(env, "return")
			}
			return
		case *ssa.Call:
			g := x.Call.StaticCallee()
			if w.followFn != nil && g != nil && g.Blocks != nil && len(env.frames) < 2 && w.followFn(g) && !hasLoop(g) {
				// walk through the helper
				bind := map[*ssa.Parameter][]string{}
				for i, q := range g.Params {
					if i < len(x.Call.Args) {
						a := w.resolve(x.Call.Args[i], env)
						env.params[q] = a
						bind[q] = uniq(w.pv.origins(a, 0))
					}
				}
				env.frames = append(env.frames, mpFrame{x, idx})
				w.pv.binds = append(w.pv.binds, bind)
				w.walkFrom(nil, g.Blocks[0], 0, env)
				w.pv.binds = w.pv.binds[:len(w.pv.binds)-1]
				return
			}
			w.eventFn(ins, env)
		case *ssa.Jump:
			w.walk(b, b.Succs[0], env)
			return
		case *ssa.If:
			kind, key, val := w.classifyFn(x.Cond, env, b)
			switch kind {
			case ckConst:
				if val {
					w.walk(b, b.Succs[0], env)
				} else {
					w.walk(b, b.Succs[1], env)
				}
			case ckAtom:
				if cur, ok := env.atoms[key]; ok {
					if cur == val {
						w.walk(b, b.Succs[0], env)
					} else {
						w.walk(b, b.Succs[1], env)
					}
					return
				}
				for _, atomVal := range []bool{true, false} {
					e := env.clone()
					e.atoms[key] = atomVal
					e.order = append(e.order, sprintf("%s=%v", key, atomVal))
					if strings.HasPrefix(key, "eq:") {
						name := key[3:strings.Index(key, "#")]
						if atomVal {
							e.member[name] = true
						}
					}
					if atomVal == val {
						w.walk(b, b.Succs[0], e)
					} else {
						w.walk(b, b.Succs[1], e)
					}
				}
			case ckFree:
				w.walk(b, b.Succs[0], env.clone())
				w.walk(b, b.Succs[1], env.clone())
			default:
				w.unknown = append(w.unknown, w.c.Pos(x.Cond.Pos())+": "+x.Cond.String())
			}
			return
		default:
			w.eventFn(ins, env)
		}
	}
}

// ---- the rule --------------------------------------------------------------------------------------------------------

func ruleMergePaths(c *Ctx, r *Rep) {
	fn := c.Func("generator/config", "Merge")
	if fn == nil {
		r.Undecided("anchor:Merge", "", "not found")
		return
	}
	fk := c.FuncKey(fn)
	pv := c.newProv()
	var profParam, certParam *ssa.Parameter
	for _, p := range fn.Params {
		switch {
		case strings.HasSuffix(typeShort(c, p.Type()), "CertificateProfile"):
			profParam = p
		case strings.HasSuffix(typeShort(c, p.Type()), "CertificateContent"):
			certParam = p
		}
	}
	if profParam == nil || certParam == nil {
		r.Undecided("shape:"+fk, c.FnPos(fn), "no profile / configuration parameter")
		return
	}
	w := &roundWalker{c: c, fn: fn, pv: pv, loops: map[*ssa.BasicBlock]*mpLoop{}, names: map[ssa.Value]string{}, limit: 20000,
		profP: "P(" + fk + "." + profParam.Name() + ").Extensions[]", certP: "P(" + fk + "." + certParam.Name() + ").Extensions[]"}
	w.classifyFn, w.eventFn = w.classify, w.event
	// loops and what they range over
	for h, body := range naturalLoops(fn) {
		lp := &mpLoop{head: h, body: body}
		iff, ok := lastInstr(h).(*ssa.If)
		if !ok {
			r.Undecided("shape:loop|"+fk, c.FnPos(fn), "a loop whose header does not test its condition")
			return
		}
		bin, ok := iff.Cond.(*ssa.BinOp)
		if !ok || bin.Op != token.LSS {
			r.Undecided("shape:loop|"+fk, c.Pos(iff.Cond.Pos()), "loop condition is not index < len(list): "+iff.Cond.String())
			return
		}
		lenCall, ok := bin.Y.(*ssa.Call)
		if !ok {
			r.Undecided("shape:loop|"+fk, c.Pos(iff.Cond.Pos()), "loop bound is not len(list)")
			return
		}
		if bi, isB := lenCall.Call.Value.(*ssa.Builtin); !isB || bi.Name() != "len" {
			r.Undecided("shape:loop|"+fk, c.Pos(iff.Cond.Pos()), "loop bound is not len(list)")
			return
		}
		lp.index, lp.src = bin.X, lenCall.Call.Args[0]
		// ascending from the first element, one by one
		asc := false
		idx := bin.X
		if add, ok := idx.(*ssa.BinOp); ok && add.Op == token.ADD { // range form: phi(-1) + 1
			if phi, ok := add.X.(*ssa.Phi); ok {
				asc = phiStartsAt(phi, -1) && phiStepsByOne(phi, add)
			}
		} else if phi, ok := idx.(*ssa.Phi); ok { // three-clause form: phi(0), i+1
			asc = phiStartsAt(phi, 0) && phiStepsByOne(phi, nil)
		}
		if !asc {
			r.Bad("loop-order|"+fk+sprintf("|b%d", h.Index), c.Pos(iff.Cond.Pos()), "every list is walked from its first element upwards, one by one", "index is not 0,1,2,…")
		}
		o := strings.Join(pv.Origins(lp.src), ",")
		switch {
		case o == strings.TrimSuffix(w.profP, "[]"):
			lp.kind = "prof"
		case o == strings.TrimSuffix(w.certP, "[]"):
			lp.kind = "cert"
		default:
			if sl, ok := lp.src.Type().Underlying().(*types.Slice); ok {
				if b, ok := sl.Elem().Underlying().(*types.Basic); ok && b.Kind() == types.Int {
					lp.kind = "list"
				}
			}
		}
		if lp.kind == "" {
			r.Undecided("shape:loop|"+fk, c.Pos(iff.Cond.Pos()), "a loop over something other than the profile's extensions, the certificate's extensions or an index list: "+o)
			return
		}
		w.loops[h] = lp
	}
	// a candidate that an index list says was dealt with already is passed over and the next one is looked at: the
	// test of a search flag (a boolean joined from constants) inside a loop over the certificate's extensions does
	// not lead out of that loop
	{
		nSkip := 0
		for _, lp := range w.loops {
			if lp.kind != "cert" {
				continue
			}
			var done *ssa.BasicBlock
			for _, sc := range lp.head.Succs {
				if !lp.body[sc] {
					done = sc
				}
			}
			for b := range lp.body {
				iff, ok := lastInstr(b).(*ssa.If)
				if !ok {
					continue
				}
				cond := iff.Cond
				if u, isNot := cond.(*ssa.UnOp); isNot && u.Op == token.NOT {
					cond = u.X
				}
				phi, ok := cond.(*ssa.Phi)
				if !ok {
					continue
				}
				allConst := len(phi.Edges) >= 2
				for _, e := range phi.Edges {
					if k, isK := e.(*ssa.Const); !isK || k.Value == nil || k.Value.Kind() != constant.Bool {
						allConst = false
					}
				}
				if !allConst {
					continue
				}
				nSkip++
				leaves := false
				for _, sc := range b.Succs {
					if sc == done {
						leaves = true
					}
				}
				r.Check(!leaves, sprintf("skip-goes-on|%s|b%d", fk, b.Index), c.Pos(iff.Cond.Pos()), "a candidate found in an index list is passed over: the loop over the candidates goes on", sprintf("leaves the loop: %v", leaves))
			}
		}
		_ = nSkip
	}
	// the two top-level loops
	var profLoop, closing *mpLoop
	for _, lp := range w.loops {
		nested := false
		for _, other := range w.loops {
			if other != lp && other.body[lp.head] {
				nested = true
			}
		}
		if nested {
			continue
		}
		switch lp.kind {
		case "prof":
			if profLoop != nil {
				r.Undecided("shape:"+fk, c.FnPos(fn), "two loops over the profile's extensions")
				return
			}
			profLoop = lp
		case "cert":
			if closing != nil {
				r.Undecided("shape:"+fk, c.FnPos(fn), "two top-level loops over the certificate's extensions")
				return
			}
			closing = lp
		}
	}
	if profLoop == nil || closing == nil {
		r.Undecided("shape:"+fk, c.FnPos(fn), "expected one loop over the profile's extensions followed by one over the certificate's")
		return
	}
	var mid *mpLoop
	for _, lp := range w.loops {
		if lp != profLoop && lp.kind == "cert" && profLoop.body[lp.head] {
			if mid != nil {
				r.Undecided("shape:"+fk, c.FnPos(fn), "two loops over the certificate's extensions inside the profile loop")
				return
			}
			mid = lp
		}
	}
	if mid == nil {
		r.Undecided("shape:"+fk, c.FnPos(fn), "no loop over the certificate's extensions inside the profile loop")
		return
	}
	r.Check(profLoop.head.Dominates(closing.head) && !profLoop.body[closing.head], "profile-loop-first|"+fk, c.FnPos(fn), "the profile's extensions are placed before the remaining certificate extensions are appended", "dominance")
	// the list being built: the []ExtensionConfig stored into the result's Extensions
	for _, b := range fn.Blocks {
		for _, ins := range b.Instrs {
			if st, ok := ins.(*ssa.Store); ok {
				if fa, ok := st.Addr.(*ssa.FieldAddr); ok && fieldOfAddr(fa).Name() == "Extensions" {
					if _, isParamCopy := fa.X.(*ssa.Alloc); isParamCopy {
						env0 := &mpEnv{phis: map[*ssa.Phi]ssa.Value{}, params: map[*ssa.Parameter]ssa.Value{}, results: map[*ssa.Call][]ssa.Value{}}
						w.region = closing
						w.newRoot = w.root(st.Val, env0)
					}
				}
			}
		}
	}
	if w.newRoot == nil {
		r.Undecided("shape:"+fk, c.FnPos(fn), "the merged list stored into the result's Extensions was not found")
		return
	}
	if mk, ok := w.newRoot.(*ssa.MakeSlice); ok {
		k, isK := mk.Len.(*ssa.Const)
		r.Check(isK && k.Int64() == 0, "starts-empty|"+fk, c.Pos(mk.Pos()), "the merged list starts empty", mk.Len.String())
	} else if k, ok := w.newRoot.(*ssa.Const); !ok || k.Value != nil {
		r.Bad("starts-empty|"+fk, c.FnPos(fn), "the merged list starts empty", w.newRoot.String())
	}
	// nothing is appended to the merged list outside the two loops
	env0 := &mpEnv{phis: map[*ssa.Phi]ssa.Value{}, params: map[*ssa.Parameter]ssa.Value{}, results: map[*ssa.Call][]ssa.Value{}}
	for _, b := range fn.Blocks {
		if profLoop.body[b] || closing.body[b] {
			continue
		}
		for _, ins := range b.Instrs {
			if call, ok := ins.(*ssa.Call); ok {
				if bi, isB := call.Call.Value.(*ssa.Builtin); isB && bi.Name() == "append" && w.root(call.Call.Args[0], env0) == w.newRoot {
					r.Bad("appends-in-loops-only|"+fk, c.Pos(call.Pos()), "the merged list grows only in the two loops", "append outside")
				}
			}
		}
	}

	type outcome struct {
		atoms, events string
	}
	describe := func(env *mpEnv) string { return strings.Join(env.order, " ") }

	// ---- closing loop: one round -----------------------------------------------------------------------------------
	w.region, w.midLoop = closing, nil
	placedList := ""
	nClosing := 0
	var closingBad []string
	seenClosing := map[string]bool{}
	w.finish = func(env *mpEnv, end string) {
		if end != "next" {
			closingBad = append(closingBad, "a round of the closing loop ends by "+end+" ["+describe(env)+"]")
			return
		}
		var lists []string
		for k := range env.examined {
			lists = append(lists, k[:strings.Index(k, "@")])
		}
		sort.Strings(lists)
		lists = uniq(lists)
		if len(lists) != 1 {
			closingBad = append(closingBad, sprintf("a round of the closing loop consults %d index lists [%s]", len(lists), describe(env)))
			return
		}
		if placedList == "" {
			placedList = lists[0]
		} else if placedList != lists[0] {
			closingBad = append(closingBad, "rounds of the closing loop consult different lists")
			return
		}
		member := env.member[placedList+"@0"]
		if v, ok := env.atoms["member:"+placedList+"@0"]; ok {
			member = v
		}
		want := "new+=cert"
		if member {
			want = ""
		}
		got := strings.Join(env.events, " ")
		sig := sprintf("placed=%v", member)
		if !seenClosing[sig] {
			seenClosing[sig] = true
			nClosing++
			r.Check(got == want, "closing|"+sig, blockPos(c, closing.head), "a certificate extension is appended iff no override placed it: "+orNone(want), orNone(got)+" ["+describe(env)+"]")
		} else if got != want {
			r.Bad("closing|"+sig, blockPos(c, closing.head), "a certificate extension is appended iff no override placed it: "+orNone(want), orNone(got)+" ["+describe(env)+"]")
		}
	}
	for _, s := range closing.head.Succs {
		if closing.body[s] && s != closing.head {
			env := &mpEnv{phis: map[*ssa.Phi]ssa.Value{}, atoms: map[string]bool{}, visits: map[*ssa.BasicBlock]int{}, examined: map[string]bool{}, member: map[string]bool{}, params: map[*ssa.Parameter]ssa.Value{}, results: map[*ssa.Call][]ssa.Value{}}
			w.walk(closing.head, s, env)
		}
	}
	r.Check(len(closingBad) == 0, "closing-shape|"+fk, blockPos(c, closing.head), "each round looks the index up in the list of placed extensions and goes on to the next", strings.Join(head(uniq(closingBad), 3), " ;; "))
	if len(w.unknown) > 0 {
		r.Undecided("shape:condition|"+fk, "", "conditions the rule cannot reduce to the table's atoms: "+strings.Join(head(uniq(w.unknown), 3), "; "))
		return
	}
	if placedList == "" || nClosing < 2 {
		r.Undecided("shape:closing|"+fk, blockPos(c, closing.head), sprintf("closing loop: %d of the 2 cases seen", nClosing))
		return
	}

	// ---- profile loop: one round -----------------------------------------------------------------------------------
	w.region, w.midLoop = profLoop, mid
	cases := map[string][]string{} // table row -> distinct observed event lists
	var rowPos = blockPos(c, profLoop.head)
	var shapeBad []string
	matchedList := ""
	w.finish = func(env *mpEnv, end string) {
		if end == "error" {
			// allowed only after a marshalling error
			okErr := false
			for k, v := range env.atoms {
				if strings.HasPrefix(k, "err#") && v {
					okErr = true
				}
			}
			if !okErr {
				shapeBad = append(shapeBad, "an error is returned although nothing failed ["+describe(env)+"]")
			}
			return
		}
		if end != "next" {
			shapeBad = append(shapeBad, "a round of the profile loop ends by "+end+" ["+describe(env)+"]")
			return
		}
		for k, v := range env.atoms {
			if strings.HasPrefix(k, "err#") && v {
				shapeBad = append(shapeBad, "a failed encoding does not end the merge ["+describe(env)+"]")
				return
			}
		}
		// which list is searched before the OID test: the list of matched indices
		for k := range env.examined {
			name := k[:strings.Index(k, "@")]
			if name == placedList {
				continue
			}
			if matchedList == "" {
				matchedList = name
			} else if matchedList != name {
				shapeBad = append(shapeBad, "more than one list of matched indices")
			}
		}
		// free atoms: enumerate their completions; the observed events must be what the table says for each of them
		type atomRef struct{ key string }
		var free []string
		val := map[string]bool{}
		get := func(key string, examinedKey string) {
			if examinedKey != "" {
				// membership through a search loop: decided by what the search saw
				if env.examined[examinedKey] {
					if v, ok := env.atoms["member:"+examinedKey]; ok {
						val[key] = v
					} else {
						val[key] = env.member[examinedKey]
					}
					return
				}
				free = append(free, key)
				return
			}
			if v, ok := env.atoms[key]; ok {
				val[key] = v
				return
			}
			free = append(free, key)
		}
		ml := matchedList
		if ml == "" {
			ml = "L?"
		}
		for m := 1; m <= env.mid; m++ {
			get(sprintf("matched@%d", m), sprintf("%s@%d", ml, m))
			get(sprintf("sameoid@%d", m), "")
			get(sprintf("identical@%d", m), "")
		}
		get("override", "")
		get("optional", "")
		expected := func() (string, string) {
			var ev []string
			row := "no-candidate"
			found := false
			for m := 1; m <= env.mid && !found; m++ {
				if val[sprintf("matched@%d", m)] || !val[sprintf("sameoid@%d", m)] {
					continue
				}
				found = true
				ev = append(ev, ml+"+=i")
				switch {
				case val["override"]:
					ev = append(ev, "new+=cert", placedList+"+=i")
					row = "candidate,override"
				case !val[sprintf("identical@%d", m)]:
					ev = append(ev, "new+=prof")
					row = "candidate,differs"
				default:
					row = "candidate,identical"
				}
			}
			if !found {
				if !val["optional"] {
					ev = append(ev, "new+=prof")
					row = "no-candidate,mandatory"
				} else {
					row = "no-candidate,optional"
				}
			}
			sort.Strings(ev)
			return row, strings.Join(ev, " ")
		}
		got := append([]string{}, env.events...)
		sort.Strings(got)
		gotS := strings.Join(got, " ")
		n := len(free)
		if n > 12 {
			shapeBad = append(shapeBad, "too many undecided atoms on one path")
			return
		}
		for mask := 0; mask < 1<<n; mask++ {
			for i, k := range free {
				val[k] = mask&(1<<i) != 0
			}
			row, want := expected()
			if want != gotS {
				var fr []string
				for _, k := range free {
					fr = append(fr, sprintf("%s=%v", k, val[k]))
				}
				cases[row] = append(cases[row], sprintf("MISMATCH expected {%s} found {%s} on path [%s] with untested %s", want, gotS, describe(env), strings.Join(fr, ",")))
			} else {
				cases[row] = append(cases[row], "ok")
			}
		}
	}
	for _, s := range profLoop.head.Succs {
		if profLoop.body[s] && s != profLoop.head {
			env := &mpEnv{phis: map[*ssa.Phi]ssa.Value{}, atoms: map[string]bool{}, visits: map[*ssa.BasicBlock]int{}, examined: map[string]bool{}, member: map[string]bool{}, params: map[*ssa.Parameter]ssa.Value{}, results: map[*ssa.Call][]ssa.Value{}}
			w.walk(profLoop.head, s, env)
		}
	}
	if len(w.unknown) > 0 {
		r.Undecided("shape:condition|"+fk, "", "conditions the rule cannot reduce to the table's atoms: "+strings.Join(head(uniq(w.unknown), 3), "; "))
		return
	}
	r.Check(len(shapeBad) == 0, "round-shape|"+fk, rowPos, "a round ends by going on to the next profile extension, or with the error of a failed encoding", strings.Join(head(uniq(shapeBad), 3), " ;; "))
	r.Check(matchedList != "" && matchedList != placedList, "two-index-lists|"+fk, rowPos, "matched certificate extensions and those placed by an override are tracked separately (a matched, not overridden extension still follows at the end)", sprintf("matched: %s, placed: %s", orNone(matchedList), placedList))
	rows := []string{"candidate,override", "candidate,differs", "candidate,identical", "no-candidate,mandatory", "no-candidate,optional"}
	expl := map[string]string{
		"candidate,override":     "first unmatched certificate extension with the same OID, override: it is recorded as matched and as placed and takes this position",
		"candidate,differs":      "first unmatched certificate extension with the same OID, no override, content differs: recorded as matched; the profile's extension is emitted here",
		"candidate,identical":    "first unmatched certificate extension with the same OID, no override, identical content: recorded as matched; nothing is emitted here",
		"no-candidate,mandatory": "no unmatched certificate extension with the same OID, entry not optional: the profile's extension is emitted",
		"no-candidate,optional":  "no unmatched certificate extension with the same OID, entry optional: nothing is emitted",
	}
	for _, row := range rows {
		obs := cases[row]
		if len(obs) == 0 {
			r.Undecided("row|"+row, rowPos, "no path of the profile loop realises this row of the table")
			continue
		}
		var mism []string
		for _, o := range obs {
			if o != "ok" {
				mism = append(mism, o)
			}
		}
		r.Check(len(mism) == 0, "row|"+row, rowPos, expl[row]+sprintf(" (%d path completions)", len(obs)), strings.Join(head(uniq(mism), 2), " ;; "))
	}
	r.Infof("MERGE-PATHS: %d paths walked through one round of the profile loop and of the closing loop of %s", w.paths, fk)
}

func orNone(s string) string {
	if s == "" {
		return "(nothing)"
	}
	return s
}

func phiStartsAt(phi *ssa.Phi, k int64) bool {
	for i, e := range phi.Edges {
		if phi.Block().Dominates(phi.Block().Preds[i]) {
			continue // back edge
		}
		kc, ok := e.(*ssa.Const)
		if !ok || kc.Value == nil || kc.Int64() != k {
			return false
		}
	}
	return true
}

// phiStepsByOne: every back edge carries phi+1 (range form: the given add; three-clause form: some phi + 1).
func phiStepsByOne(phi *ssa.Phi, add *ssa.BinOp) bool {
	n := 0
	for i, e := range phi.Edges {
		if !phi.Block().Dominates(phi.Block().Preds[i]) {
			continue
		}
		n++
		if add != nil {
			if e != ssa.Value(add) {
				return false
			}
			if k, ok := add.Y.(*ssa.Const); !ok || k.Value == nil || k.Int64() != 1 {
				return false
			}
			continue
		}
		a, ok := e.(*ssa.BinOp)
		if !ok || a.Op != token.ADD || a.X != ssa.Value(phi) {
			return false
		}
		if k, ok := a.Y.(*ssa.Const); !ok || k.Value == nil || k.Int64() != 1 {
			return false
		}
	}
	return n > 0
}

// blockPos: the first source position inside a block (loop headers carry none on their branch).
func blockPos(c *Ctx, b *ssa.BasicBlock) string {
	for _, bb := range append([]*ssa.BasicBlock{b}, b.Succs...) {
		for _, ins := range bb.Instrs {
			if ins.Pos().IsValid() {
				return c.Pos(ins.Pos())
			}
		}
	}
	return c.FnPos(b.Parent())
}

// ---- the planner's round -----------------------------------------------------------------------------------------------

func init() {
	register(&Rule{Name: "PLAN-PATHS", Floor: 5, Run: rulePlanPaths,
		Doc: "every path through one round of the planner's work-list loop (boolean variables followed along the path, conditions reduced to the atoms issuer-already-planned / the regeneration decision says yes) is compared with the rule: an entity is planned - a change is appended and its alias is recorded for its subjects - exactly when its issuer is planned or the decision function says so; nothing else decides it, and a round ends only by going on or by returning an error after a failed lookup"})
}

func rulePlanPaths(c *Ctx, r *Rep) {
	dec := c.decisionFunc()
	if dec == nil {
		r.Undecided("anchor:decision-function", "", "not found")
		return
	}
	plan, decCall, decSite, helpers := c.plannerOf(dec)
	if plan == nil || decCall == nil {
		r.Undecided("anchor:planner", "", "the decision function is not called from a work-list loop")
		return
	}
	fk := c.FuncKey(plan)
	pv := c.newProv()
	// the configuration the decision is made on, in the planner's frame
	cfgV := decCall.Call.Args[len(decCall.Call.Args)-1]
	if prm, ok := cfgV.(*ssa.Parameter); ok && decSite != ssa.CallInstruction(decCall) {
		for i, q := range decCall.Parent().Params {
			if q == prm && i < len(decSite.Common().Args) {
				cfgV = decSite.Common().Args[i]
			}
		}
	}
	if ex, ok := cfgV.(*ssa.Extract); ok {
		if mc, ok := ex.Tuple.(*ssa.Call); ok {
			pv.Opaque(mc.Call.StaticCallee())
		}
	}
	cfgO := pv.Origins(cfgV)
	if len(cfgO) != 1 {
		r.Undecided("shape:"+fk, c.Pos(decCall.Pos()), "the configuration the decision is made on has several origins")
		return
	}
	cfg := cfgO[0]
	w := &roundWalker{c: c, fn: plan, pv: pv, loops: map[*ssa.BasicBlock]*mpLoop{}, names: map[ssa.Value]string{}, limit: 5000}
	w.followFn = func(g *ssa.Function) bool { return helpers[g] }
	for h, body := range naturalLoops(plan) {
		w.loops[h] = &mpLoop{head: h, body: body, kind: "other"}
	}
	// the round: the outermost loop that contains the decision (or the call that leads to it)
	for _, lp := range w.loops {
		if !lp.body[decSite.Block()] {
			continue
		}
		if w.region == nil || lp.body[w.region.head] {
			w.region = lp
		}
	}
	if w.region == nil {
		r.Undecided("shape:"+fk, c.Pos(decCall.Pos()), "the decision is not made inside a loop")
		return
	}
	// how the set of planned aliases is consulted: comma-ok (presence) or by value
	presence := false
	scan := func(bs []*ssa.BasicBlock) {
		for _, b := range bs {
			for _, ins := range b.Instrs {
				if lk, ok := ins.(*ssa.Lookup); ok && lk.CommaOk {
					if _, isMap := lk.X.Type().Underlying().(*types.Map); isMap {
						presence = true
					}
				}
			}
		}
	}
	for b := range w.region.body {
		scan([]*ssa.BasicBlock{b})
	}
	for g := range helpers {
		scan(g.Blocks)
	}
	isPlannedLookup := func(lk *ssa.Lookup) bool {
		if _, isMap := lk.X.Type().Underlying().(*types.Map); !isMap {
			return false
		}
		o := pv.Origins(lk.Index)
		return len(o) == 1 && o[0] == cfg+".Issuer"
	}
	w.classifyFn = func(v ssa.Value, env *mpEnv, at *ssa.BasicBlock) (int, string, bool) {
		v = w.resolve(v, env)
		switch x := v.(type) {
		case *ssa.Const:
			if x.Value != nil && x.Value.Kind().String() == "Bool" {
				return ckConst, "", constBool(x)
			}
		case *ssa.UnOp:
			if x.Op == token.NOT {
				k, key, val := w.classifyFn(x.X, env, at)
				return k, key, !val
			}
		case *ssa.Call:
			if x == decCall {
				return ckAtom, "decision", true
			}
			// any other boolean call: an atom of its own, named by the callee and what it is applied to
			if b, ok := x.Type().Underlying().(*types.Basic); ok && b.Kind() == types.Bool {
				var args []string
				for _, a := range x.Call.Args {
					args = append(args, strings.Join(pv.Origins(a), ","))
				}
				return ckAtom, "call:" + calleeFullName(x) + "(" + strings.Join(args, "|") + ")", true
			}
		case *ssa.Lookup:
			if !x.CommaOk && isPlannedLookup(x) {
				return ckAtom, "issuer-planned", true
			}
		case *ssa.Extract:
			if lk, ok := x.Tuple.(*ssa.Lookup); ok && x.Index == 1 && isPlannedLookup(lk) {
				return ckAtom, "issuer-planned", true
			}
		case *ssa.BinOp:
			if lp := w.loops[at]; lp != nil {
				if iff, ok := lastInstr(at).(*ssa.If); ok && w.resolve(iff.Cond, env) == v {
					return ckFree, "", false
				}
			}
			if k, ok := x.Y.(*ssa.Const); ok && k.Value == nil && isErrorType(x.X.Type()) && (x.Op == token.EQL || x.Op == token.NEQ) {
				return w.errAtom(x, env, at)
			}
			// any other comparison: an atom of its own, named by what is compared
			switch x.Op {
			case token.EQL, token.NEQ, token.LSS, token.GTR, token.LEQ, token.GEQ:
				key := "cmp:" + strings.Join(pv.Origins(x.X), ",") + x.Op.String() + strings.Join(pv.Origins(x.Y), ",")
				return ckAtom, key, true
			}
		}
		return ckUnknown, "", false
	}
	w.eventFn = func(ins ssa.Instruction, env *mpEnv) {
		switch x := ins.(type) {
		case *ssa.MapUpdate:
			ko := pv.Origins(x.Key)
			name := "planned+=?" + strings.Join(ko, ",")
			if len(ko) == 1 && ko[0] == cfg+".Alias" {
				name = "planned+=alias"
			}
			if presence {
				env.events = append(env.events, name)
				return
			}
			val := w.resolve(x.Value, env)
			if k, ok := val.(*ssa.Const); ok {
				if constBool(k) {
					env.events = append(env.events, name)
				}
				return
			}
			kind, key, pol := w.classifyFn(val, env, ins.Block())
			if kind == ckAtom {
				env.events = append(env.events, sprintf("%s?%s=%v", name, key, pol))
			} else {
				env.events = append(env.events, name+"?unknown")
			}
		case *ssa.Call:
			if bi, ok := x.Call.Value.(*ssa.Builtin); ok {
				switch bi.Name() {
				case "append":
					if strings.HasSuffix(typeShort(c, x.Call.Args[0].Type()), "ChangeList") {
						env.events = append(env.events, "changes+=change")
					}
				case "delete":
					env.events = append(env.events, "planned-=")
				}
			}
		}
	}
	type row struct{ ok, bad []string }
	rows := map[string]*row{"issuer-planned": {}, "decision": {}, "neither": {}}
	var shapeBad []string
	w.finish = func(env *mpEnv, end string) {
		desc := strings.Join(env.order, " ")
		if end == "error" {
			okErr := false
			for k, v := range env.atoms {
				if strings.HasPrefix(k, "err#") && v {
					okErr = true
				}
			}
			if !okErr {
				shapeBad = append(shapeBad, "an error is returned although no lookup failed ["+desc+"]")
			}
			return
		}
		if end != "next" {
			shapeBad = append(shapeBad, "a round ends by "+end+" ["+desc+"]")
			return
		}
		for k, v := range env.atoms {
			if strings.HasPrefix(k, "err#") && v {
				shapeBad = append(shapeBad, "a failed lookup does not end the planning ["+desc+"]")
				return
			}
		}
		var free []string
		val := map[string]bool{}
		for _, k := range []string{"issuer-planned", "decision"} {
			if v, ok := env.atoms[k]; ok {
				val[k] = v
			} else {
				free = append(free, k)
			}
		}
		for mask := 0; mask < 1<<len(free); mask++ {
			for i, k := range free {
				val[k] = mask&(1<<i) != 0
			}
			var got []string
			for _, e := range env.events {
				if q := strings.Index(e, "?"); q >= 0 && strings.HasPrefix(e, "planned+=alias?") {
					cond := e[q+1:]
					eq := strings.LastIndex(cond, "=")
					if eq < 0 {
						got = append(got, e)
						continue
					}
					key, pol := cond[:eq], cond[eq+1:] == "true"
					v, known := val[key]
					if !known {
						if av, ok := env.atoms[key]; ok {
							v, known = av, true
						}
					}
					if !known {
						got = append(got, e)
						continue
					}
					if v == pol {
						got = append(got, "planned+=alias")
					}
					continue
				}
				got = append(got, e)
			}
			sort.Strings(got)
			want := ""
			name := "neither"
			if val["issuer-planned"] || val["decision"] {
				want = "changes+=change planned+=alias"
				name = "decision"
				if val["issuer-planned"] {
					name = "issuer-planned"
				}
			}
			gotS := strings.Join(got, " ")
			if gotS == want {
				rows[name].ok = append(rows[name].ok, desc)
			} else {
				rows[name].bad = append(rows[name].bad, sprintf("expected {%s} found {%s} on path [%s]", want, gotS, desc))
			}
		}
	}
	for _, s := range w.region.head.Succs {
		if w.region.body[s] && s != w.region.head {
			env := &mpEnv{phis: map[*ssa.Phi]ssa.Value{}, atoms: map[string]bool{}, visits: map[*ssa.BasicBlock]int{}, examined: map[string]bool{}, member: map[string]bool{}, params: map[*ssa.Parameter]ssa.Value{}, results: map[*ssa.Call][]ssa.Value{}}
			w.walk(w.region.head, s, env)
		}
	}
	pos := blockPos(c, w.region.head)
	if len(w.unknown) > 0 {
		r.Undecided("shape:condition|"+fk, pos, "conditions the rule cannot reduce to atoms: "+strings.Join(head(uniq(w.unknown), 3), "; "))
		return
	}
	r.Check(len(shapeBad) == 0, "round-shape|"+fk, pos, "a round ends by going on to the next entity, or with the error of a failed lookup", strings.Join(head(uniq(shapeBad), 3), " ;; "))
	expl := map[string]string{
		"issuer-planned": "the entity's issuer is already planned: the entity is planned too (change appended, alias recorded for its own subjects)",
		"decision":       "the issuer is not planned and the decision function says yes: the entity is planned (change appended, alias recorded)",
		"neither":        "neither: nothing is appended and nothing recorded",
	}
	for _, name := range []string{"issuer-planned", "decision", "neither"} {
		rw := rows[name]
		if len(rw.ok)+len(rw.bad) == 0 {
			r.Undecided("row|"+name, pos, "no path of the planner's round realises this case")
			continue
		}
		r.Check(len(rw.bad) == 0, "row|"+name, pos, expl[name]+sprintf(" (%d path completions)", len(rw.ok)+len(rw.bad)), strings.Join(head(uniq(rw.bad), 2), " ;; "))
	}
	// the decision is consulted for the entity of this round, on its merged configuration (PROV-PLAN checks the arguments)
	r.Check(w.region.body[decSite.Block()], "decision-in-round|"+fk, c.Pos(decCall.Pos()), "the decision is made once per round", "ok")
	r.Infof("PLAN-PATHS: %d paths walked through one round of %s", w.paths, fk)
}

// intRange: the values an integer expression can take on this path: a constant, or the index of the certificate loop
// (never negative). Large bound stands for "no upper bound known".
func (w *roundWalker) intRange(v ssa.Value, env *mpEnv) (lo, hi int64, ok bool) {
	v = w.resolve(v, env)
	if k, isK := v.(*ssa.Const); isK && k.Value != nil && k.Value.Kind().String() == "Int" {
		return k.Int64(), k.Int64(), true
	}
	if w.curIndexLoop(v) != nil {
		return 0, 1 << 40, true
	}
	return 0, 0, false
}

// isJSONEqualHelper: func(a, b) (bool, error) returning bytes.Equal(json.Marshal(a), json.Marshal(b)) with the marshalling
// errors handed back.
func isJSONEqualHelper(f *ssa.Function) bool {
	if len(f.Params) != 2 || f.Signature.Results().Len() != 2 || f.Blocks == nil || !isErrorType(f.Signature.Results().At(1).Type()) {
		return false
	}
	marshalOf := func(v ssa.Value) *ssa.Parameter {
		ex, ok := v.(*ssa.Extract)
		if !ok || ex.Index != 0 {
			return nil
		}
		call, ok := ex.Tuple.(*ssa.Call)
		if !ok || calleeFullName(call) != "encoding/json.Marshal" {
			return nil
		}
		p, _ := unwrapIface(call.Call.Args[0]).(*ssa.Parameter)
		return p
	}
	okEq := false
	for _, ret := range returnsOf(f) {
		rr := retResults(ret)
		if returnsNonNilError(ret) {
			// an error return: must hand back a marshalling error
			ex, ok := rr[1].(*ssa.Extract)
			if !ok {
				return false
			}
			if call, ok := ex.Tuple.(*ssa.Call); !ok || calleeFullName(call) != "encoding/json.Marshal" {
				return false
			}
			continue
		}
		call, ok := rr[0].(*ssa.Call)
		if !ok || calleeFullName(call) != "bytes.Equal" {
			return false
		}
		a, b := marshalOf(call.Call.Args[0]), marshalOf(call.Call.Args[1])
		if a == nil || b == nil || a == b {
			return false
		}
		okEq = true
	}
	return okEq
}

// plannerOf finds the function whose work-list loop leads to the decision function: the decision's caller when the call
// sits in a loop there, else the function that calls that caller (two levels) from a loop. It returns the planner, the
// call of the decision function, the call in the planner's loop that leads to it, and the same-package helpers the
// planner's loop calls (their bodies are part of a round).
func (c *Ctx) plannerOf(dec *ssa.Function) (*ssa.Function, *ssa.Call, ssa.CallInstruction, map[*ssa.Function]bool) {
	var decCall *ssa.Call
	for _, fn := range c.Funcs {
		for _, ci := range callsIn(fn) {
			if ci.Common().StaticCallee() == dec && fn != dec {
				decCall, _ = ci.(*ssa.Call)
			}
		}
	}
	if decCall == nil {
		return nil, nil, nil, nil
	}
	helpersOf := func(plan *ssa.Function) map[*ssa.Function]bool {
		hs := map[*ssa.Function]bool{}
		for _, ci := range callsIn(plan) {
			g := ci.Common().StaticCallee()
			if g == nil || !c.InModule(g) || g.Blocks == nil || g.Pkg != plan.Pkg || g == dec || hasLoop(g) || !inLoop(ci.Block()) {
				continue
			}
			// helpers that take part in the decision or its bookkeeping: they reach the decision, or touch a map / append
			touches := false
			for _, b := range g.Blocks {
				for _, ins := range b.Instrs {
					switch x := ins.(type) {
					case *ssa.MapUpdate, *ssa.Lookup:
						touches = true
					case *ssa.Call:
						if x.Call.StaticCallee() == dec {
							touches = true
						}
					}
				}
			}
			if touches {
				hs[g] = true
			}
		}
		return hs
	}
	f0 := decCall.Parent()
	if inLoop(decCall.Block()) {
		return f0, decCall, decCall, helpersOf(f0)
	}
	for _, fn := range c.Funcs {
		for _, ci := range callsIn(fn) {
			if ci.Common().StaticCallee() == f0 && inLoop(ci.Block()) {
				return fn, decCall, ci, helpersOf(fn)
			}
		}
	}
	return nil, decCall, nil, nil
}

// errAtom classifies `e != nil` / `e == nil`: an error that a walked helper handed back is known on this path (nil, or
// freshly made); any other error value is an atom of its own, the same wherever it is tested.
func (w *roundWalker) errAtom(x *ssa.BinOp, env *mpEnv, at *ssa.BasicBlock) (int, string, bool) {
	e := w.resolve(x.X, env)
	if k, ok := e.(*ssa.Const); ok && k.Value == nil {
		return ckConst, "", x.Op == token.EQL
	}
	if definitelyNonNilErr(e, at) {
		if _, isExtract := e.(*ssa.Extract); !isExtract {
			return ckConst, "", x.Op == token.NEQ
		}
	}
	name := e.Name()
	if e.Parent() != nil {
		name = e.Parent().Name() + "." + name
	}
	return ckAtom, sprintf("err#%s.%d", name, env.visits[at]), x.Op == token.NEQ
}
