package main

import (
	"go/token"
	"go/types"
	"sort"
	"strings"

	"golang.org/x/tools/go/ssa"
)

func init() {
	register(&Rule{Name: "PLAN-CLASSIFY", Floor: 1, Run: rulePlanClassify,
		Doc: "a planned change is a replacement exactly when the entity's stored artifact has a certificate (that is what the CLI asks consent for), otherwise a creation; subject validation and merging run for every entity of the work list, before the regeneration decision"})
	register(&Rule{Name: "GUARD-ROOT", Floor: 1, Run: ruleGuardRoot,
		Doc: "an imported entity is a root exactly when its issuer is empty, otherwise it is a subscriber of its issuer; so self-loops and cycles are not reachable from the roots and fail the consistency check"})
	register(&Rule{Name: "LINT-STALE", Floor: 0, Run: ruleLintStale, Fixture: "fixture.staleCarry",
		Doc: "a per-element value built inside a loop does not take a conditionally assigned variable that lives across iterations (a value left over from an earlier element)"})
	register(&Rule{Name: "LINT-TYPEDNIL", Floor: 0, Run: ruleLintTypedNil, Fixture: "fixture.typedNil",
		Doc: "a function returning (interface, error) does not return a typed pointer inside the interface together with a possibly non-nil error: a nil pointer in a non-nil interface defeats the callers' nil tests"})
	register(&Rule{Name: "GUARD-PEMREST", Floor: 2, Run: ruleGuardPemRest,
		Doc: "the PEM reader stops with an error exactly when no further block can be decoded and bytes remain; every block parse error is returned"})
}

func rulePlanClassify(c *Ctx, r *Rep) {
	dec := c.decisionFunc()
	if dec == nil {
		r.Undecided("anchor:decision-function", "", "not found")
		return
	}
	plan, decCall, decSite, _ := c.plannerOf(dec)
	if plan == nil {
		r.Undecided("anchor:planner", "", "the decision function is not called from a work-list loop")
		return
	}
	pv := c.newProv()
	fk := c.FuncKey(plan)
	entityV := decCall.Call.Args[2]
	if prm, ok := entityV.(*ssa.Parameter); ok && decSite != ssa.CallInstruction(decCall) {
		for i, q := range decCall.Parent().Params {
			if q == prm && i < len(decSite.Common().Args) {
				entityV = decSite.Common().Args[i]
			}
		}
	}
	entity := strings.Join(pv.Origins(entityV), ",")
	ct := c.NamedType("generator/db", "ChangeType")
	n := 0
	// the kind is chosen in the planner or in a helper it calls (followed one call deep, parameters bound to the arguments)
	type where struct {
		fn   *ssa.Function
		site ssa.CallInstruction
	}
	places := []where{{plan, nil}}
	for _, ci := range callsIn(plan) {
		if f := ci.Common().StaticCallee(); f != nil && c.InModule(f) && f.Blocks != nil && f != dec {
			places = append(places, where{f, ci})
		}
	}
	for _, pl := range places {
		scan := func() {
			for _, b := range pl.fn.Blocks {
				for _, ins := range b.Instrs {
					st, ok := ins.(*ssa.Store)
					if !ok {
						continue
					}
					fa, ok := st.Addr.(*ssa.FieldAddr)
					if !ok || ct == nil || !types.Identical(fieldOfAddr(fa).Type(), ct) {
						continue
					}
					// the kind is a constant chosen by a test here, or the answer of a helper that chooses it
					type choice struct {
						k   *ssa.Const
						blk *ssa.BasicBlock
						pop bool
					}
					var choices []choice
					if k, ok := st.Val.(*ssa.Const); ok {
						choices = append(choices, choice{k, b, false})
					} else if call, ok := st.Val.(*ssa.Call); ok && call.Call.StaticCallee() != nil && c.InModule(call.Call.StaticCallee()) && call.Call.StaticCallee().Blocks != nil && !hasLoop(call.Call.StaticCallee()) {
						g := call.Call.StaticCallee()
						hb := map[*ssa.Parameter][]string{}
						for i, prm := range g.Params {
							if i < len(call.Call.Args) {
								hb[prm] = uniq(pv.origins(call.Call.Args[i], 0))
							}
						}
						pv.binds = append(pv.binds, hb)
						okAll := true
						for _, ret := range returnsOf(g) {
							for _, pe := range phiEdges(retResults(ret)[0], ret.Block()) {
								k, isK := pe.Val.(*ssa.Const)
								if !isK {
									okAll = false
									continue
								}
								from := pe.From
								if from == nil {
									from = ret.Block()
								}
								choices = append(choices, choice{k, from, false})
							}
						}
						if !okAll {
							choices = nil
						}
						if len(choices) > 0 {
							choices[len(choices)-1].pop = true
						} else {
							pv.binds = pv.binds[:len(pv.binds)-1]
						}
					}
					if len(choices) == 0 {
						r.Bad("change-kind-constant|"+fk, c.Pos(st.Pos()), "the kind of change is a constant chosen by a test", st.Val.String())
						continue
					}
					for _, ch := range choices {
						k, b := ch.k, ch.blk
						n++
						name := c.constName(ct, k.Value)
						// the guard: <artifact of the entity>.Certificate != nil
						var got []string
						for _, g := range guardsOf(b) {
							bin, isBin := g.Cond.(*ssa.BinOp)
							if !isBin {
								continue
							}
							kk, isK := bin.Y.(*ssa.Const)
							if !isK || kk.Value != nil {
								continue
							}
							o := strings.Join(uniq(pv.origins(bin.X, 0)), ",")
							if !strings.Contains(o, "GetBuildArtifact(") || !strings.Contains(o, ")#0.") {
								continue // e.g. the error of the lookup
							}
							present := (bin.Op == token.NEQ) == g.Truth
							part := o[strings.LastIndex(o, ".")+1:]
							okEntity := strings.Contains(o, "|"+entity+")#0.")
							got = append(got, sprintf("%s present=%v ownArtifact=%v", part, present, okEntity))
						}
						sort.Strings(got)
						switch {
						case strings.HasSuffix(name, "ChangeReplace"):
							r.Check(len(got) == 1 && got[0] == "Certificate present=true ownArtifact=true", "replace-iff-certificate|"+fk, c.Pos(st.Pos()), "ChangeReplace exactly when the entity's stored artifact has a certificate", strings.Join(got, "; "))
						case strings.HasSuffix(name, "ChangeCreate"):
							r.Check(len(got) == 1 && got[0] == "Certificate present=false ownArtifact=true", "create-iff-no-certificate|"+fk, c.Pos(st.Pos()), "ChangeCreate exactly when it has none", strings.Join(got, "; "))
						default:
							r.Bad("change-kind|"+fk, c.Pos(st.Pos()), "create or replace", name)
						}
						if ch.pop {
							pv.binds = pv.binds[:len(pv.binds)-1]
						}
					}
				}
			}
		}
		if pl.site == nil {
			scan()
			continue
		}
		bind := map[*ssa.Parameter][]string{}
		for i, prm := range pl.fn.Params {
			if i < len(pl.site.Common().Args) {
				bind[prm] = pv.Origins(pl.site.Common().Args[i])
			}
		}
		pv.binds = append(pv.binds, bind)
		scan()
		pv.binds = pv.binds[:len(pv.binds)-1]
	}
	if n < 2 {
		r.Undecided("floor:change-kinds|"+fk, c.FnPos(plan), sprintf("%d change-kind stores found, expected 2", n))
	}
	// validation for every entity, before the decision
	validate := c.Func("generator/config", "Validate")
	ok := false
	if validate != nil {
		for _, ci := range callsIn(plan) {
			f := ci.Common().StaticCallee()
			if f == nil || !c.InModule(f) {
				continue
			}
			if _, reaches := c.Graph().Reach(f)[validate]; reaches && instrDominates(ci, decSite) {
				ok = true
			}
		}
	}
	r.Check(ok, "validate-every-entity|"+fk, c.Pos(decCall.Pos()), "a call that reaches the subject validation dominates the regeneration decision (every entity is validated, not only those that change)", sprintf("%v", ok))
}

func ruleGuardRoot(c *Ctx, r *Rep) {
	pv := c.newProv()
	n := 0
	// the importer of a configuration and the helpers it calls, each seen in the importer's terms
	var frames []frame
	if root := c.configImporter(); root != nil {
		pv.inFrames(root, 2, func(g *ssa.Function) bool { return g.Pkg != root.Pkg }, func(fr frame) {
			ruleGuardRootIn(c, r, pv, fr, &n)
		})
		_ = frames
	} else if c.Mod == modPath {
		r.Undecided("anchor:config-importer", "", "no function imports a configuration on behalf of the directory walk")
		return
	}
	if n < 2 && c.Mod == modPath {
		r.Undecided("floor:root-subscriber-sites", "", sprintf("%d root/subscriber registration sites found, expected 2", n))
	}
	// once the configuration is in the registry, no successful exit of the importer lies before the decision whether the
	// entity joins the roots or a subscriber list (an entity that is in the registry but in neither list fails the
	// consistency check of a valid hierarchy)
	if root := c.configImporter(); root != nil {
		var cfgStore ssa.Instruction
		var regs []ssa.Instruction
		isReg := func(ins ssa.Instruction) bool {
			switch x := ins.(type) {
			case *ssa.Store:
				if fa, ok := x.Addr.(*ssa.FieldAddr); ok && fieldOfAddr(fa).Name() == "rootAliases" {
					return true
				}
			case *ssa.MapUpdate:
				if ld, ok := x.Map.(*ssa.UnOp); ok {
					if fa, ok := ld.X.(*ssa.FieldAddr); ok && fieldOfAddr(fa).Name() == "subscribersOf" {
						return true
					}
				}
			}
			return false
		}
		for _, b := range root.Blocks {
			for _, ins := range b.Instrs {
				if mu, ok := ins.(*ssa.MapUpdate); ok {
					if m, isM := mu.Map.Type().Underlying().(*types.Map); isM && isString(m.Key()) && strings.HasSuffix(typeShort(c, m.Elem()), "config.CertificateContent") {
						cfgStore = ins
					}
				}
				if isReg(ins) {
					regs = append(regs, ins)
				}
				if call, ok := ins.(*ssa.Call); ok {
					if h := call.Call.StaticCallee(); h != nil && c.InModule(h) && h.Blocks != nil && h.Pkg == root.Pkg {
						for _, hb := range h.Blocks {
							for _, hi := range hb.Instrs {
								if isReg(hi) {
									regs = append(regs, ins)
								}
							}
						}
					}
				}
			}
		}
		if cfgStore != nil && len(regs) > 0 {
			decision := regs[0].Block()
			for _, g := range guardsOfRaw(regs[0].Block()) {
				gb := g.If.Block()
				if (cfgStore.Block() == gb || blockReaches(cfgStore.Block(), gb)) && gb.Dominates(decision) {
					decision = gb
				}
			}
			k := 0
			for _, ret := range returnsOf(root) {
				rr := retResults(ret)
				if len(rr) == 0 {
					continue
				}
				if e, ok := rr[len(rr)-1].(*ssa.Const); !ok || !e.IsNil() {
					continue
				}
				if !(cfgStore.Block() == ret.Block() || cfgStore.Block().Dominates(ret.Block()) || blockReaches(cfgStore.Block(), ret.Block())) {
					continue
				}
				k++
				ok := decision == ret.Block() || decision.Dominates(ret.Block())
				r.Check(ok, sprintf("registered-before-success|%s#%d", c.FuncKey(root), k), c.Pos(ret.Pos()), "a successful exit of the importer that follows the store into the registry lies behind the decision about roots and subscribers", okOr(ok, "behind it", "the importer can end successfully with the entity in the registry and in neither list"))
			}
		}
	}
}

func ruleGuardRootIn(c *Ctx, r *Rep, pv *prov, fr frame, np *int) {
	n := *np
	defer func() { *np = n }()
	for _, fn := range []*ssa.Function{fr.fn} {
		a := &atomizer{c: c, pv: pv, fn: fn}
		for _, b := range fn.Blocks {
			for _, ins := range b.Instrs {
				st, ok := ins.(*ssa.Store)
				if !ok {
					continue
				}
				fa, ok := st.Addr.(*ssa.FieldAddr)
				if !ok {
					continue
				}
				isRoot := fieldOfAddr(fa).Name() == "rootAliases"
				if !isRoot {
					continue
				}
				if _, isAppend := st.Val.(*ssa.Call); !isAppend {
					continue
				}
				n++
				// the facts known on every path to the registration: the issuer is empty, and nothing else is said about it
				seenIssuerEmpty, other := false, ""
				type fact struct {
					g  guard
					at *atomizer
				}
				var facts []fact
				for _, g := range guardsOf(b) {
					facts = append(facts, fact{g, a})
				}
				// the registration sits in a helper: what is known where the helper is called counts as well
				if fr.site != nil && fr.site.Parent() != fn {
					ca := &atomizer{c: c, pv: pv, fn: fr.site.Parent()}
					for _, g := range guardsOf(fr.site.Block()) {
						facts = append(facts, fact{g, ca})
					}
				}
				for _, f := range facts {
					g := f.g
					s, pos := f.at.atom(g.Cond)
					if !strings.Contains(s, ".Issuer") {
						continue
					}
					if strings.HasPrefix(s, "==(len(") && strings.Contains(s, ".Issuer) ; K(0))") && pos == g.Truth {
						seenIssuerEmpty = true
					} else if strings.HasPrefix(s, "!=(len(") && strings.Contains(s, ".Issuer) ; K(0))") && pos != g.Truth {
						seenIssuerEmpty = true
					} else {
						other = s
					}
				}
				r.Check(seenIssuerEmpty && other == "", "root-iff-no-issuer|"+c.FuncKey(fn), c.Pos(st.Pos()), "an entity joins the roots only behind len(Issuer) == 0 on every path, and under no other condition on the issuer", sprintf("issuer-empty known: %v; other issuer condition: %s", seenIssuerEmpty, other))
				// what is appended: the entity's alias
				call := st.Val.(*ssa.Call)
				var o []string
				for _, x := range pv.Origins(call) {
					if strings.HasPrefix(x, "elem:") {
						o = append(o, x)
					}
				}
				okA := len(o) >= 1
				for _, x := range o {
					if !strings.Contains(x, ".Alias") && !strings.Contains(x, "configPath") {
						okA = false
					}
				}
				r.Check(okA, "root-alias|"+c.FuncKey(fn), c.Pos(st.Pos()), "the entity's alias is what joins the roots", strings.Join(o, ","))
			}
		}
		// subscribers: subscribersOf[Issuer] = append(subscribersOf[Issuer], Alias)
		for _, b := range fn.Blocks {
			for _, ins := range b.Instrs {
				mu, ok := ins.(*ssa.MapUpdate)
				if !ok {
					continue
				}
				mo := strings.Join(pv.Origins(mu.Map), ",")
				if !strings.HasSuffix(mo, ".subscribersOf") {
					continue
				}
				call, isAppend := mu.Value.(*ssa.Call)
				if !isAppend {
					continue // the initial make
				}
				n++
				ko := pv.Origins(mu.Key)
				okK := len(ko) == 1 && strings.HasSuffix(ko[0], ".Issuer")
				var vo []string
				for _, x := range pv.Origins(call) {
					if strings.HasPrefix(x, "elem:") {
						vo = append(vo, x)
					}
				}
				okV := len(vo) >= 1
				for _, x := range vo {
					if !strings.Contains(x, ".Alias") && !strings.Contains(x, "configPath") {
						okV = false
					}
				}
				r.Check(okK && okV, "subscriber-of-issuer|"+c.FuncKey(fn), c.Pos(mu.Pos()), "subscribersOf[entity.Issuer] gains entity.Alias", strings.Join(ko, ",")+" <- "+strings.Join(vo, ","))
			}
		}
	}
}

// headerPhiOfLoop: v is a phi at a loop header with an operand flowing in over a back edge.
func loopCarried(v ssa.Value) (*ssa.Phi, bool) {
	phi, ok := v.(*ssa.Phi)
	if !ok {
		return nil, false
	}
	if !inLoop(phi.Block()) {
		return nil, false
	}
	for i, p := range phi.Block().Preds {
		// a back edge: the predecessor is dominated by the phi's block
		if phi.Block().Dominates(p) {
			_ = i
			return phi, true
		}
	}
	return nil, false
}

func ruleLintStale(c *Ctx, r *Rep) {
	n := 0
	for _, fn := range c.Funcs {
		fk := c.FuncKey(fn)
		for _, b := range fn.Blocks {
			if !inLoop(b) {
				continue
			}
			for _, ins := range b.Instrs {
				st, ok := ins.(*ssa.Store)
				if !ok {
					continue
				}
				// a store that builds a per-element value: into a struct literal field or a slice element
				_, isField := st.Addr.(*ssa.FieldAddr)
				_, isElem := st.Addr.(*ssa.IndexAddr)
				if !isField && !isElem {
					continue
				}
				n++
				// (a) the stored value reaches back, through phis only, to a loop-carried phi that can hold the
				//     previous iteration's value unchanged (one of its back-edge operands is again phi-derived from itself)
				if hp := staleThroughPhis(st.Val, map[ssa.Value]bool{}); hp != nil {
					r.Bad("stale-carry|"+fk, c.Pos(st.Pos()), "a value computed for this element (or a fresh zero value)", "the value can be the one left over from an earlier iteration: the variable lives across iterations and is assigned only conditionally")
					continue
				}
				// (b) a struct variable declared outside the loop whose fields are assigned conditionally inside and which is copied per element
				if u, ok := st.Val.(*ssa.UnOp); ok && u.Op == token.MUL {
					if al, ok := u.X.(*ssa.Alloc); ok && !al.Heap && declaredOutsideLoopOf(al, b) && isStructPtr(al.Type()) && !dominatedByFullReset(al, u) {
						partial := false
						for _, ref := range *al.Referrers() {
							if fa, ok := ref.(*ssa.FieldAddr); ok && inLoop(fa.Block()) {
								for _, rr := range *fa.Referrers() {
									if s2, ok := rr.(*ssa.Store); ok && s2.Addr == ssa.Value(fa) {
										partial = true
									}
								}
							}
						}
						if partial {
							r.Bad("stale-struct|"+fk, c.Pos(st.Pos()), "a struct built afresh for each element", "a struct variable declared outside the loop is filled field by field and copied: fields set for an earlier element remain")
						}
					}
				}
			}
		}
	}
	r.Infof("%d per-element stores inside loops examined", n)
}

func isStructPtr(t types.Type) bool {
	p, ok := t.Underlying().(*types.Pointer)
	if !ok {
		return false
	}
	_, ok = p.Elem().Underlying().(*types.Struct)
	return ok
}

// dominatedByFullReset: a whole-struct store into al inside the loop dominates the load.
func dominatedByFullReset(al *ssa.Alloc, load *ssa.UnOp) bool {
	for _, ref := range *al.Referrers() {
		if st, ok := ref.(*ssa.Store); ok && st.Addr == ssa.Value(al) && inLoop(st.Block()) && instrDominates(st, load) {
			return true
		}
	}
	return false
}

// staleThroughPhis: v is a phi (chain) one of whose operands is a loop-carried phi that feeds back into itself
// through phis only (i.e. the old value can survive an iteration).
func staleThroughPhis(v ssa.Value, seen map[ssa.Value]bool) *ssa.Phi {
	phi, ok := v.(*ssa.Phi)
	if !ok || seen[v] {
		return nil
	}
	seen[v] = true
	if hp, carried := loopCarried(phi); carried {
		// does a back-edge operand reach hp again through phis only?
		for i, p := range hp.Block().Preds {
			if hp.Block().Dominates(p) && phiReaches(hp.Edges[i], hp, map[ssa.Value]bool{}) {
				// accumulators are updated on every path (append, |=, +): those are not phi-only
				return hp
			}
		}
	}
	for _, e := range phi.Edges {
		if hp := staleThroughPhis(e, seen); hp != nil {
			return hp
		}
	}
	return nil
}

func phiReaches(v ssa.Value, target *ssa.Phi, seen map[ssa.Value]bool) bool {
	if v == ssa.Value(target) {
		return true
	}
	phi, ok := v.(*ssa.Phi)
	if !ok || seen[v] {
		return false
	}
	seen[v] = true
	for _, e := range phi.Edges {
		if phiReaches(e, target, seen) {
			return true
		}
	}
	return false
}

func ruleLintTypedNil(c *Ctx, r *Rep) {
	n := 0
	for _, fn := range c.Funcs {
		res := fn.Signature.Results()
		errIdx := errResultIndex(fn.Signature)
		if errIdx < 0 {
			continue
		}
		for i := 0; i < res.Len(); i++ {
			if i == errIdx {
				continue
			}
			if _, isIface := res.At(i).Type().Underlying().(*types.Interface); !isIface {
				continue
			}
			for _, ret := range returnsOf(fn) {
				rr := retResults(ret)
				if k, isK := rr[errIdx].(*ssa.Const); isK && k.Value == nil {
					continue // success return
				}
				for _, pe := range phiEdges(rr[i], ret.Block()) {
					mi, ok := pe.Val.(*ssa.MakeInterface)
					if !ok {
						continue
					}
					if _, isPtr := mi.X.Type().Underlying().(*types.Pointer); !isPtr {
						continue
					}
					n++
					if _, fresh := mi.X.(*ssa.Alloc); fresh {
						continue
					}
					// is the error known non-nil here? If it may be non-nil, the pointer may be nil.
					r.Bad("typed-nil|"+c.FuncKey(fn), c.Pos(ret.Pos()), "nil (untyped) alongside an error, or the value only on the success path", "returns a "+typeShort(c, mi.X.Type())+" wrapped in an interface together with an error that may be non-nil")
				}
			}
		}
	}
	r.Infof("%d interface results wrapping pointers on possibly failing returns", n)
}

func ruleGuardPemRest(c *Ctx, r *Rep) {
	var reader *ssa.Function
	var decode *ssa.Call
	for fn, cis := range c.funcsCalling("encoding/pem.Decode") {
		reader = fn
		decode = cis[0].(*ssa.Call)
	}
	if reader == nil {
		r.Undecided("anchor:pem-reader", "", "no function calls pem.Decode")
		return
	}
	fk := c.FuncKey(reader)
	a := &atomizer{c: c, pv: c.newProv(), fn: reader}
	// the error return that does not stem from a parse call: its condition from the decode block
	found := false
	for _, ret := range returnsOf(reader) {
		if !returnsNonNilError(ret) {
			continue
		}
		rr := retResults(ret)
		eidx := errResultIndex(reader.Signature)
		if call, ok := rr[eidx].(*ssa.Call); !ok || calleeFullName(call) != "errors.New" {
			continue
		}
		found = true
		d, okp := a.pathsDNF(decode.Block(), ret.Block(), 64)
		if !okp || len(d) != 1 {
			r.Bad("rest-is-error|"+fk, c.Pos(ret.Pos()), "one condition: no block decoded and bytes remain", dnfString(d))
			continue
		}
		var lits []string
		for _, l := range d[0] {
			s := l.atom
			switch {
			case strings.HasPrefix(s, "nil(") && strings.Contains(s, "pem.Decode"):
				s = "no-block"
			case strings.Contains(s, "len(") && strings.Contains(s, "K(0)"):
				s = "rest-empty:" + s[:2]
			}
			if !l.pos {
				s = "¬" + s
			}
			lits = append(lits, s)
		}
		sort.Strings(lits)
		got := strings.Join(lits, " ∧ ")
		ok := got == "no-block ∧ rest-empty:!=" || got == "no-block ∧ ¬rest-empty:==" || got == "no-block ∧ rest-empty:>("
		r.Check(ok, "rest-is-error|"+fk, c.Pos(ret.Pos()), "error iff no further block decodes and len(rest) != 0 (nothing else excuses leftover bytes)", got)
	}
	if !found {
		r.Bad("rest-is-error|"+fk, c.FnPos(reader), "leftover bytes that are not PEM are an error", "no such return")
	}
	// every parse call's error is returned
	for _, ci := range callsIn(reader) {
		name := calleeFullName(ci)
		f := ci.Common().StaticCallee()
		if !(name == "encoding/asn1.Unmarshal" || (f != nil && c.InModule(f) && errResultIndex(f.Signature) >= 0)) {
			continue
		}
		e, _ := errValueOf(ci)
		key := "parse-error-returned|" + fk + "|" + shortName(name)
		if e == nil || !hasUses(e) {
			r.Bad(key, c.Pos(ci.Pos()), "a block that does not parse is an error", "error discarded")
			continue
		}
		ok, how := propagates(c, e, ci)
		r.Check(ok, key, c.Pos(ci.Pos()), "a block that does not parse is an error", how)
	}
}

// innermostLoopHeader: the deepest block that dominates b and has a back edge (a predecessor it dominates)
// from which b is reachable inside the loop.
func innermostLoopHeader(b *ssa.BasicBlock) *ssa.BasicBlock {
	for d := b; d != nil; d = d.Idom() {
		for _, p := range d.Preds {
			if d.Dominates(p) && (p == b || reachableWithin(b, p, d)) {
				return d
			}
		}
	}
	return nil
}

// reachableWithin: from can reach to without passing through header.
func reachableWithin(from, to, header *ssa.BasicBlock) bool {
	seen := map[*ssa.BasicBlock]bool{header: true}
	var walk func(x *ssa.BasicBlock) bool
	walk = func(x *ssa.BasicBlock) bool {
		if x == to {
			return true
		}
		if seen[x] {
			return false
		}
		seen[x] = true
		for _, s := range succs(x) {
			if walk(s) {
				return true
			}
		}
		return false
	}
	if from == header {
		for _, s := range succs(from) {
			if walk(s) {
				return true
			}
		}
		return false
	}
	return walk(from)
}

// declaredOutsideLoopOf: the variable's allocation is not repeated by the innermost loop around block b.
func declaredOutsideLoopOf(al *ssa.Alloc, b *ssa.BasicBlock) bool {
	h := innermostLoopHeader(b)
	if h == nil {
		return false
	}
	return !h.Dominates(al.Block())
}

func init() {
	register(&Rule{Name: "TBS-WRITERS", Floor: 7, Run: ruleTbsWriters,
		Doc: "who may write which field of the to-be-signed certificate: the context constructor (version, fresh serial, validity, subject, placeholder issuer), the body builder (configured serial, unique ids, request key, the four TBS manipulations), the key setters (SubjectPublicKeyInfo), SetIssuer and the signing function (inner algorithm, issuer, extensions); any other store into a TbsCertificate field is a violation"})
}

// tbsWriters: the confirmed writers of TbsCertificate fields (function -> field paths).
var tbsWriters = map[string]map[string]string{
	"cert.NewCertificateContext": {"Version": "v3", "SerialNumber": "fresh random serial", "Validity.NotBefore": "", "Validity.NotAfter": "", "Subject": "", "Issuer": "placeholder: self"},
	"generator.BuildCertBody": {"SerialNumber": "configured serial", "IssuerUniqueId": "", "SubjectUniqueId": "", "PublicKey": "request key", "Version": "manipulation",
		"SignatureAlgorithm": "manipulation", "PublicKey.Algorithm": "manipulation", "PublicKey.PublicKey": "manipulation"},
	"cert.CertificateContext.SetPrivateKey":      {"PublicKey.Algorithm.Algorithm": "", "PublicKey.Algorithm.Parameters": "", "PublicKey.PublicKey.Bytes": ""},
	"cert.CertificateContext.GeneratePrivateKey": {"PublicKey.PublicKey.Bytes": ""},
	"cert.CertificateContext.SetIssuer":          {"Issuer": ""},
	"cert.CertificateContext.Sign":               {"": "copy of the context's TBS into the certificate", "SignatureAlgorithm": "", "Issuer": "", "Extensions": ""},
}

func ruleTbsWriters(c *Ctx, r *Rep) {
	// a function may write a field when the table says so, or when it is a helper: every module function that calls it may
	var allowed func(fn *ssa.Function, field string, seen map[*ssa.Function]bool) (bool, string)
	allowed = func(fn *ssa.Function, field string, seen map[*ssa.Function]bool) (bool, string) {
		fk := c.FuncKey(fn)
		if tab, known := tbsWriters[fk]; known {
			for k := range tab {
				if k == field || (k != "" && strings.HasPrefix(field, k+".")) {
					return true, fk
				}
			}
			return false, fk + " is a confirmed writer, but not of this field"
		}
		if seen[fn] {
			return true, ""
		}
		seen[fn] = true
		callers := c.Graph().Callers(fn)
		if len(callers) == 0 {
			return false, fk + " is not a confirmed writer and nothing in the module calls it"
		}
		via := ""
		for _, g := range callers {
			ok, why := allowed(g, field, seen)
			if !ok {
				return false, why
			}
			if why != "" {
				via = why
			}
		}
		return true, via
	}
	for _, fn := range c.Funcs {
		fk := c.FuncKey(fn)
		for _, fs := range storesIntoType(c, fn, "cert.TbsCertificate") {
			if fs.whole {
				continue // listed field by field
			}
			// asn1.Unmarshal(&…Parameters) style fills are stores through calls, not seen here
			ok, why := allowed(fn, fs.field, map[*ssa.Function]bool{})
			r.Check(ok, "writer|"+fk+"|"+fs.field, c.Pos(fs.st.Pos()), "a confirmed writer of this to-be-signed field, or a helper called only by such writers", why)
		}
	}
}
