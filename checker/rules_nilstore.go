package main

import (
	"go/token"
	"go/types"
	"sort"

	"golang.org/x/tools/go/ssa"
)

// LINT-NILSTORE: a two-site rule. Site one stores, into a registry (a map held in a struct field, pointer elements), a
// pointer that is nil on some way: a `return nil` of a module helper that reports no error on that way, a nil
// constant, through joins, locals and parameters. Site two reads an element of that registry - directly or through a
// getter method, also across an interface - and uses it as a struct without having compared it with nil. Each site is
// fine alone (a getter may answer nil for an unknown key; a reader may rely on "known keys have a value"); together
// they are a nil dereference for a particular content of the registry. The rule reports only when both exist.

func init() {
	register(&Rule{Name: "LINT-NILSTORE", Floor: 1, Run: ruleNilStore, Fixture: "fixture.registry",
		Doc: "no registry (a map with pointer elements held in a struct field) is given a pointer that is nil on some way - a helper's `return nil` without an error, a nil constant, through joins, locals and parameters, unless a test excluded nil - while some reader of that registry, directly or through its getter (also across an interface), uses the element it got without comparing it with nil"})
}

type nilFlow struct {
	c    *Ctx
	seen map[ssa.Value]bool
}

// definitelyNilOnSomeWay: v is the nil pointer on at least one way to here, as far as the ways are visible (constants,
// joins, locals, results of module functions that answer nil beside a nil error, parameters at their call sites).
// Anything not understood answers false: the rule stays silent rather than guess.
func (nf *nilFlow) mayBeNil(v ssa.Value, depth int) (bool, string) {
	if depth < 0 || nf.seen[v] {
		return false, ""
	}
	nf.seen[v] = true
	defer delete(nf.seen, v)
	c := nf.c
	switch x := v.(type) {
	case *ssa.Const:
		if x.IsNil() {
			return true, "nil"
		}
	case *ssa.Phi:
		for i, e := range x.Edges {
			// an edge that comes from behind a test that found the value not nil does not bring nil
			if i < len(x.Block().Preds) && excludedNil(e, x.Block().Preds[i]) {
				continue
			}
			if ok, why := nf.mayBeNil(e, depth); ok {
				return true, why
			}
		}
	case *ssa.ChangeType:
		return nf.mayBeNil(x.X, depth)
	case *ssa.Call:
		f := x.Call.StaticCallee()
		if f == nil || !c.InModule(f) || f.Blocks == nil || f.Signature.Results().Len() != 1 {
			return false, ""
		}
		for _, ret := range returnsOf(f) {
			rr := retResults(ret)
			if excludedNil(rr[0], ret.Block()) {
				continue
			}
			if ok, _ := nf.mayBeNil(rr[0], depth-1); ok {
				return true, c.FuncKey(f) + " answers nil at " + c.Pos(ret.Pos())
			}
		}
	case *ssa.Extract:
		call, ok := x.Tuple.(*ssa.Call)
		if !ok || x.Index != 0 {
			return false, ""
		}
		f := call.Call.StaticCallee()
		if f == nil || !c.InModule(f) || f.Blocks == nil {
			return false, ""
		}
		res := f.Signature.Results()
		if res.Len() < 2 || !isErrorType(res.At(res.Len()-1).Type()) {
			return false, ""
		}
		for _, ret := range returnsOf(f) {
			rr := retResults(ret)
			for _, pe := range phiEdges(rr[0], ret.Block()) {
				if k, ok := pe.Val.(*ssa.Const); !ok || !k.IsNil() {
					continue
				}
				for _, pe2 := range phiEdges(rr[len(rr)-1], ret.Block()) {
					if k2, ok := pe2.Val.(*ssa.Const); ok && k2.IsNil() && (pe2.From == pe.From || pe2.From == nil || pe.From == nil) {
						return true, c.FuncKey(f) + " answers (nil, nil) at " + c.Pos(ret.Pos())
					}
				}
			}
		}
	case *ssa.UnOp:
		if x.Op != token.MUL {
			return false, ""
		}
		al, ok := x.X.(*ssa.Alloc)
		if !ok || al.Referrers() == nil {
			return false, ""
		}
		for _, u := range *al.Referrers() {
			if st, ok := u.(*ssa.Store); ok && st.Addr == ssa.Value(al) && !excludedNil(st.Val, st.Block()) {
				if ok, why := nf.mayBeNil(st.Val, depth); ok {
					return true, why
				}
			}
		}
	case *ssa.Parameter:
		fn := x.Parent()
		idx := -1
		for i, p := range fn.Params {
			if p == x {
				idx = i
			}
		}
		if idx < 0 || depth == 0 {
			return false, ""
		}
		for _, caller := range c.Funcs {
			for _, ci := range callsIn(caller) {
				com := ci.Common()
				var arg ssa.Value
				if com.IsInvoke() {
					// the interface method this function implements: receiver is not among Args
					if fn.Signature.Recv() == nil || com.Method.Name() != fn.Name() || idx == 0 || idx-1 >= len(com.Args) {
						continue
					}
					if !types.Identical(stripRecv(fn.Signature), stripRecv(com.Method.Type().(*types.Signature))) {
						continue
					}
					arg = com.Args[idx-1]
				} else {
					if com.StaticCallee() != fn || idx >= len(com.Args) {
						continue
					}
					arg = com.Args[idx]
				}
				if excludedNil(arg, ci.Block()) {
					continue
				}
				if ok, why := nf.mayBeNil(arg, depth-1); ok {
					return true, why + ", handed on at " + c.Pos(ci.Pos())
				}
			}
		}
	}
	return false, ""
}

// excludedNil: on every way to block b a test found v not nil (or, for the first result of a call, its error nil is
// not enough - only a nil test counts).
func excludedNil(v ssa.Value, b *ssa.BasicBlock) bool {
	for _, g := range guardsOf(b) {
		if t, isNil, ok := nilTestOf(g.Cond, g.Truth); ok && !isNil && t == v {
			return true
		}
	}
	return false
}

func ruleNilStore(c *Ctx, r *Rep) {
	// registries: struct fields of map type with pointer elements, in module types
	type store struct {
		fn    *ssa.Function
		ins   *ssa.MapUpdate
		field *types.Var
	}
	fieldOfMap := func(m ssa.Value) *types.Var {
		ld, ok := m.(*ssa.UnOp)
		if !ok || ld.Op != token.MUL {
			return nil
		}
		fa, ok := ld.X.(*ssa.FieldAddr)
		if !ok {
			return nil
		}
		return fieldOfAddr(fa)
	}
	var stores []store
	for _, fn := range c.Funcs {
		for _, b := range fn.Blocks {
			for _, ins := range b.Instrs {
				mu, ok := ins.(*ssa.MapUpdate)
				if !ok {
					continue
				}
				mt, ok := mu.Map.Type().Underlying().(*types.Map)
				if !ok {
					continue
				}
				if _, isPtr := mt.Elem().Underlying().(*types.Pointer); !isPtr {
					continue
				}
				if f := fieldOfMap(mu.Map); f != nil {
					stores = append(stores, store{fn, mu, f})
				}
			}
		}
	}
	// readers of a registry: lookups of the field's map whose answer is used as a struct without a nil test; a function
	// that hands the lookup's answer back is a getter, and the rule goes on at its callers (static or by interface)
	type use struct{ where string }
	var unguardedUse func(v ssa.Value, fn *ssa.Function, depth int) []string
	derefs := func(v ssa.Value) []ssa.Instruction {
		var out []ssa.Instruction
		if v.Referrers() == nil {
			return nil
		}
		for _, u := range *v.Referrers() {
			switch y := u.(type) {
			case *ssa.FieldAddr:
				if y.X == v {
					out = append(out, y)
				}
			case *ssa.UnOp:
				if y.Op == token.MUL && y.X == v {
					out = append(out, y)
				}
			}
		}
		return out
	}
	unguardedUse = func(v ssa.Value, fn *ssa.Function, depth int) []string {
		var bad []string
		if v.Referrers() == nil || depth < 0 {
			return nil
		}
		for _, d := range derefs(v) {
			if !excludedNil(v, d.Block()) {
				bad = append(bad, c.FuncKey(fn)+" uses it at "+c.Pos(d.Pos()))
			}
		}
		for _, u := range *v.Referrers() {
			switch y := u.(type) {
			case *ssa.Extract:
				// (value, ok) of a comma-ok lookup
				if y.Index == 0 {
					bad = append(bad, unguardedUse(y, fn, depth)...)
				}
			case *ssa.Phi:
				bad = append(bad, unguardedUse(y, fn, depth)...)
			case *ssa.Return:
				rr := retResults(y)
				if len(rr) == 0 || rr[0] != v {
					continue
				}
				// fn is a getter: its callers
				for _, caller := range c.Funcs {
					for _, ci := range callsIn(caller) {
						com := ci.Common()
						match := false
						if com.IsInvoke() {
							match = fn.Signature.Recv() != nil && com.Method.Name() == fn.Name() &&
								types.Identical(stripRecv(fn.Signature), stripRecv(com.Method.Type().(*types.Signature)))
						} else {
							match = com.StaticCallee() == fn
						}
						call, isCall := ci.(*ssa.Call)
						if !match || !isCall || call.Referrers() == nil {
							continue
						}
						if fn.Signature.Results().Len() == 1 {
							bad = append(bad, unguardedUse(call, caller, depth-1)...)
							continue
						}
						for _, cu := range *call.Referrers() {
							if ex, ok := cu.(*ssa.Extract); ok && ex.Index == 0 {
								bad = append(bad, unguardedUse(ex, caller, depth-1)...)
							}
						}
					}
				}
			}
		}
		return bad
	}
	readersOf := map[*types.Var][]string{}
	readersDone := map[*types.Var]bool{}
	readers := func(f *types.Var) []string {
		if readersDone[f] {
			return readersOf[f]
		}
		readersDone[f] = true
		var bad []string
		for _, fn := range c.Funcs {
			for _, b := range fn.Blocks {
				for _, ins := range b.Instrs {
					lk, ok := ins.(*ssa.Lookup)
					if !ok || fieldOfMap(lk.X) != f {
						continue
					}
					bad = append(bad, unguardedUse(lk, fn, 2)...)
				}
			}
		}
		sort.Strings(bad)
		readersOf[f] = bad
		return bad
	}
	nf := &nilFlow{c: c, seen: map[ssa.Value]bool{}}
	n := map[string]int{}
	for _, s := range stores {
		owner := "?"
		if fa, ok := s.ins.Map.(*ssa.UnOp).X.(*ssa.FieldAddr); ok {
			owner = ownerName(c, fa.X.Type())
		}
		base := "registry-value-not-nil|" + owner + "." + s.field.Name() + "|" + c.FuncKey(s.fn)
		n[base]++
		key := sprintf("%s#%d", base, n[base])
		if excludedNil(s.ins.Value, s.ins.Block()) {
			r.Ok(key, c.Pos(s.ins.Pos()), "the value stored was found not nil", "tested")
			continue
		}
		may, why := nf.mayBeNil(s.ins.Value, 3)
		if !may {
			r.Ok(key, c.Pos(s.ins.Pos()), "no way on which the value stored is known to be nil", "never known nil")
			continue
		}
		bad := readers(s.field)
		if len(bad) == 0 {
			r.Ok(key, c.Pos(s.ins.Pos()), "every reader of the registry compares the element with nil before it uses it", "may be nil ("+why+"), readers test")
			continue
		}
		r.Bad(key, c.Pos(s.ins.Pos()), "a value that may be nil ("+why+") is not stored where readers use the element unchecked", bad[0]+sprintf(" (%d unchecked uses)", len(bad)))
	}
}
