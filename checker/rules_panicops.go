package main

import (
	"go/token"
	"go/types"

	"golang.org/x/tools/go/ssa"
)

// LINT-PANICOPS: operations that fail at run time for particular operand values - an integer division or remainder by
// zero, a list made with a negative length, a text repeated a negative number of times, a store into a map that was
// never made. The tree has none of the first three today; the rule says that one that appears has its operand
// established on the way.

func init() {
	register(&Rule{Name: "LINT-PANICOPS", Floor: 0, Run: rulePanicOps,
		Fixture: "fixture.divideByLength,fixture.makeOfDifference,fixture.repeatOfDifference,fixture.storeIntoUnmadeMap",
		Doc: "operations that fail at run time for particular operands have them established on the way: an integer division or remainder has a constant divisor or one a test on the way found non-zero (or positive); a list is made, and a text repeated, with a length that is not a bare difference unless a test on the way compared the two sides; a map that is stored into is made (make or a literal) on every way its value comes from, never the zero value of a variable or of a field of a struct built in the module without it"})
}

// nonZeroOnTheWay: a test on every way to b found v different from zero (or at least one).
func nonZeroOnTheWay(c *Ctx, v ssa.Value, b *ssa.BasicBlock) bool {
	same := func(x ssa.Value) bool { return x == v || sameLoad(x, v) || sameFieldLoad(x, v) }
	if of, isLen := lenOperand(v); isLen {
		return lenLowerBound(c, of, b) >= 1
	}
	for _, g := range guardsOf(b) {
		cond, truth := g.Cond, g.Truth
		if u, ok := cond.(*ssa.UnOp); ok && u.Op == token.NOT {
			cond, truth = u.X, !truth
		}
		bin, ok := cond.(*ssa.BinOp)
		if !ok {
			continue
		}
		x, k, op := bin.X, bin.Y, bin.Op
		if _, isK := x.(*ssa.Const); isK {
			x, k, op = bin.Y, bin.X, flipCmp(bin.Op)
		}
		kc, isK := k.(*ssa.Const)
		if !isK || kc.Value == nil || !same(x) {
			continue
		}
		if !truth {
			op = negateCmp(op)
		}
		n := kc.Int64()
		switch op {
		case token.NEQ:
			if n == 0 {
				return true
			}
		case token.GTR:
			if n >= 0 {
				return true
			}
		case token.GEQ:
			if n >= 1 {
				return true
			}
		case token.EQL:
			if n != 0 {
				return true
			}
		}
	}
	return false
}

// partOf: y is the length of a text or list cut out of the one x is the length of (a trimmed or sliced copy): never longer.
func partOf(x, y ssa.Value) bool {
	whole, okx := lenOperand(x)
	part, oky := lenOperand(y)
	if !okx || !oky {
		return false
	}
	for i := 0; i < 4; i++ {
		switch p := part.(type) {
		case *ssa.Slice:
			part = p.X
		case *ssa.Call:
			switch calleeFullName(p) {
			case "strings.TrimLeft", "strings.TrimRight", "strings.Trim", "strings.TrimSpace", "strings.TrimPrefix", "strings.TrimSuffix", "strings.TrimFunc", "strings.TrimLeftFunc", "strings.TrimRightFunc",
				"bytes.TrimLeft", "bytes.TrimRight", "bytes.Trim", "bytes.TrimSpace", "bytes.TrimPrefix", "bytes.TrimSuffix":
				part = p.Call.Args[0]
			default:
				return false
			}
		default:
			return false
		}
		if part == whole || sameLoad(part, whole) || sameFieldLoad(part, whole) {
			return true
		}
	}
	return false
}

// comparedOnTheWay: a test on every way to b established x >= y.
func comparedOnTheWay(x, y ssa.Value, b *ssa.BasicBlock) bool {
	if partOf(x, y) {
		return true
	}
	same := func(p, q ssa.Value) bool {
		if p == q || sameLoad(p, q) || sameFieldLoad(p, q) {
			return true
		}
		lp, okp := lenOperand(p)
		lq, okq := lenOperand(q)
		if okp && okq && (lp == lq || sameLoad(lp, lq) || sameFieldLoad(lp, lq)) {
			return true
		}
		kp, okp := p.(*ssa.Const)
		kq, okq := q.(*ssa.Const)
		return okp && okq && kp.Value != nil && kq.Value != nil && kp.Int64() == kq.Int64()
	}
	for _, g := range guardsOf(b) {
		cond, truth := g.Cond, g.Truth
		if u, ok := cond.(*ssa.UnOp); ok && u.Op == token.NOT {
			cond, truth = u.X, !truth
		}
		bin, ok := cond.(*ssa.BinOp)
		if !ok {
			continue
		}
		op := bin.Op
		if !truth {
			op = negateCmp(op)
		}
		switch {
		case same(bin.X, x) && same(bin.Y, y) && (op == token.GEQ || op == token.GTR || op == token.EQL):
			return true
		case same(bin.X, y) && same(bin.Y, x) && (op == token.LEQ || op == token.LSS || op == token.EQL):
			return true
		}
	}
	return false
}

func rulePanicOps(c *Ctx, r *Rep) {
	isInt := func(t types.Type) bool {
		bt, ok := t.Underlying().(*types.Basic)
		return ok && bt.Info()&types.IsInteger != 0
	}
	// bareDifference: v is x - y with neither side a constant that makes it harmless
	bareDifference := func(v ssa.Value) (ssa.Value, ssa.Value, bool) {
		if cv, ok := v.(*ssa.Convert); ok {
			v = cv.X
		}
		bin, ok := v.(*ssa.BinOp)
		if !ok || bin.Op != token.SUB {
			return nil, nil, false
		}
		return bin.X, bin.Y, true
	}
	// every struct literal of the module and the map fields it sets
	type lit struct {
		pos token.Pos
		set map[int]bool
	}
	lits := map[*types.Named][]lit{}
	for _, fn := range c.Funcs {
		for _, b := range fn.Blocks {
			for _, ins := range b.Instrs {
				al, ok := ins.(*ssa.Alloc)
				if !ok {
					continue
				}
				n, ok := al.Type().Underlying().(*types.Pointer).Elem().(*types.Named)
				if !ok || !c.IsModObj(n.Obj()) {
					continue
				}
				if _, isStruct := n.Underlying().(*types.Struct); !isStruct {
					continue
				}
				l := lit{al.Pos(), map[int]bool{}}
				whole := false
				for _, ref := range *al.Referrers() {
					switch x := ref.(type) {
					case *ssa.FieldAddr:
						for _, rr := range *x.Referrers() {
							if st, isSt := rr.(*ssa.Store); isSt && st.Addr == ssa.Value(x) {
								l.set[x.Field] = true
							}
						}
					case *ssa.Store:
						if x.Addr == ssa.Value(al) {
							whole = true // copied from elsewhere: not a construction
						}
					}
				}
				if !whole {
					lits[n] = append(lits[n], l)
				}
			}
		}
	}
	for _, fn := range c.Funcs {
		n := 0
		for _, b := range fn.Blocks {
			for _, ins := range b.Instrs {
				switch x := ins.(type) {
				case *ssa.BinOp:
					if (x.Op != token.QUO && x.Op != token.REM) || !isInt(x.Type()) {
						continue
					}
					if k, isK := x.Y.(*ssa.Const); isK && k.Value != nil && k.Int64() != 0 {
						continue
					}
					n++
					r.Check(nonZeroOnTheWay(c, x.Y, b), sprintf("divisor|%s#%d", c.FuncKey(fn), n), c.Pos(x.Pos()), "the divisor is a non-zero constant, or a test on the way found it non-zero", okOr(nonZeroOnTheWay(c, x.Y, b), "tested", "no such test"))
				case *ssa.MakeSlice:
					for _, v := range []ssa.Value{x.Len, x.Cap} {
						if p, q, isDiff := bareDifference(v); isDiff {
							n++
							r.Check(comparedOnTheWay(p, q, b), sprintf("made-length|%s#%d", c.FuncKey(fn), n), c.Pos(x.Pos()), "a length that is a difference: a test on the way compared the two sides", okOr(comparedOnTheWay(p, q, b), "compared", "no such test"))
							break
						}
					}
				case *ssa.Call:
					name := calleeFullName(x)
					if (name == "strings.Repeat" || name == "bytes.Repeat") && len(x.Call.Args) == 2 {
						if p, q, isDiff := bareDifference(x.Call.Args[1]); isDiff {
							n++
							r.Check(comparedOnTheWay(p, q, b), sprintf("repeat-count|%s#%d", c.FuncKey(fn), n), c.Pos(x.Pos()), "a count that is a difference: a test on the way compared the two sides", okOr(comparedOnTheWay(p, q, b), "compared", "no such test"))
						}
					}
				case *ssa.MapUpdate:
					// where the map comes from
					m := x.Map
					if ph, isPhi := m.(*ssa.Phi); isPhi {
						_ = ph
						continue
					}
					switch src := m.(type) {
					case *ssa.MakeMap, *ssa.Parameter, *ssa.Call, *ssa.Extract, *ssa.Lookup:
						continue
					case *ssa.UnOp:
						if src.Op != token.MUL {
							continue
						}
						switch a := src.X.(type) {
						case *ssa.Alloc:
							// a local variable: some store of a made map must reach it
							made := false
							for _, ref := range *a.Referrers() {
								if st, isSt := ref.(*ssa.Store); isSt && st.Addr == ssa.Value(a) {
									if k, isK := st.Val.(*ssa.Const); !isK || !k.IsNil() {
										made = true
									}
								}
							}
							n++
							r.Check(made, sprintf("map-made|%s#%d", c.FuncKey(fn), n), c.Pos(x.Pos()), "the map stored into was made", okOr(made, "made", "a variable that is never given a map"))
						case *ssa.FieldAddr:
							st, _ := a.X.Type().Underlying().(*types.Pointer)
							if st == nil {
								continue
							}
							named, _ := st.Elem().(*types.Named)
							if named == nil || !c.IsModObj(named.Obj()) {
								continue
							}
							// a store of a map into the same field on the way in this function (lazily made)
							lazily := false
							for _, b2 := range fn.Blocks {
								for _, i2 := range b2.Instrs {
									if s2, isSt := i2.(*ssa.Store); isSt {
										if fa2, isFa := s2.Addr.(*ssa.FieldAddr); isFa && fa2.Field == a.Field && (fa2.X == a.X || sameLoad(fa2.X, a.X)) && b2.Dominates(b) {
											lazily = true
										}
									}
								}
							}
							if lazily {
								continue
							}
							// every construction of the struct in the module sets the field, or some function of the module
							// stores a made map into it (a constructor or an opener)
							storedSomewhere := false
							for _, f2 := range c.Funcs {
								for _, b2 := range f2.Blocks {
									for _, i2 := range b2.Instrs {
										if s2, isSt := i2.(*ssa.Store); isSt {
											if fa2, isFa := s2.Addr.(*ssa.FieldAddr); isFa && fa2.Field == a.Field {
												if p2, _ := fa2.X.Type().Underlying().(*types.Pointer); p2 != nil && types.Identical(p2.Elem(), named) {
													if k, isK := s2.Val.(*ssa.Const); !isK || !k.IsNil() {
														storedSomewhere = true
													}
												}
											}
										}
									}
								}
							}
							n++
							fld := named.Underlying().(*types.Struct).Field(a.Field).Name()
							found := "a map is stored into " + fld + " in the module"
							if !storedSomewhere {
								found = "no function of the module stores a map into " + fld
							}
							r.Check(storedSomewhere, sprintf("map-made|%s.%s@%s#%d", typeShort(c, named), fld, c.FuncKey(fn), n), c.Pos(x.Pos()), "the field stored into is given a map somewhere in the module", found)
							for _, l := range lits[named] {
								if !l.set[a.Field] {
									// a construction without the field: allowed only where a later store in the constructing function sets it
									r.Infof("%s is built at %s without %s (a later store must set it)", typeShort(c, named), c.Pos(l.pos), fld)
								}
							}
						case *ssa.Global:
							made := false
							for _, f2 := range c.Funcs {
								for _, b2 := range f2.Blocks {
									for _, i2 := range b2.Instrs {
										if s2, isSt := i2.(*ssa.Store); isSt && s2.Addr == ssa.Value(a) {
											if k, isK := s2.Val.(*ssa.Const); !isK || !k.IsNil() {
												made = true
											}
										}
									}
								}
							}
							n++
							r.Check(made, sprintf("map-made|%s@%s#%d", a.Name(), c.FuncKey(fn), n), c.Pos(x.Pos()), "the package-level map stored into is made in the module", okOr(made, "made", "never given a map"))
						}
					}
				}
			}
		}
	}
}

func okOr(ok bool, yes, no string) string {
	if ok {
		return yes
	}
	return no
}

// ---------------------------------------------------------------------------

func init() {
	register(&Rule{Name: "LINT-RUNEIDX", Floor: 0, Run: ruleRuneIdx, Fixture: "fixture.byteOffsetIntoRunes",
		Doc: "a position obtained by ranging over a text (a byte offset) is not used as an index into the text's []rune form (a count of characters): the two agree for ASCII only, and behind the first multi-byte character the index runs past the end of the shorter list"})
}

func ruleRuneIdx(c *Ctx, r *Rep) {
	isRunes := func(v ssa.Value) bool {
		for i := 0; i < 3; i++ {
			switch x := v.(type) {
			case *ssa.Slice:
				v = x.X
				continue
			case *ssa.Convert:
				sl, ok := x.Type().Underlying().(*types.Slice)
				if !ok {
					return false
				}
				b, ok := sl.Elem().Underlying().(*types.Basic)
				return ok && b.Kind() == types.Int32 && isString(x.X.Type())
			}
			break
		}
		return false
	}
	// byteOffset: v is the position a range over a string yields, possibly moved by a constant
	var byteOffset func(v ssa.Value, d int) bool
	byteOffset = func(v ssa.Value, d int) bool {
		if d > 4 {
			return false
		}
		switch x := v.(type) {
		case *ssa.Extract:
			if nx, ok := x.Tuple.(*ssa.Next); ok && nx.IsString && x.Index == 1 {
				return true
			}
		case *ssa.BinOp:
			if x.Op == token.ADD || x.Op == token.SUB {
				if _, isK := x.Y.(*ssa.Const); isK {
					return byteOffset(x.X, d+1)
				}
			}
		case *ssa.Phi:
			for _, e := range x.Edges {
				if byteOffset(e, d+1) {
					return true
				}
			}
		}
		return false
	}
	for _, fn := range c.Funcs {
		n := 0
		for _, b := range fn.Blocks {
			for _, ins := range b.Instrs {
				var x, idx ssa.Value
				switch i := ins.(type) {
				case *ssa.IndexAddr:
					x, idx = i.X, i.Index
				case *ssa.Index:
					x, idx = i.X, i.Index
				default:
					continue
				}
				if !isRunes(x) {
					continue
				}
				n++
				bad := byteOffset(idx, 0)
				r.Check(!bad, sprintf("rune-index|%s#%d", c.FuncKey(fn), n), c.Pos(ins.Pos()), "the []rune form of a text is indexed by a count of characters, not by a byte offset from ranging over the text", okOr(!bad, "not a byte offset", "the index is the byte offset of a range over a string"))
			}
		}
	}
}
