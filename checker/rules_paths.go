package main

import (
	"go/token"
	"go/types"
	"sort"
	"strings"

	"golang.org/x/tools/go/ssa"
)

func init() {
	register(&Rule{Name: "VALIDITY-PATHS", Floor: 20, Run: ruleValidityPaths,
		Doc: "every successful path of the validity parser is walked with an abstract state (which of from/until/duration are given; the last value stored to each result field): IsStatic holds iff from is given; IsSet iff anything is given; From/Until depend on the clock exactly when not derived from given dates; under the hash's kill guards every clock-dependent bound is blanked, every clock-free bound survives, and a given duration whose end is blanked survives in the Duration field"})
}

// pathState is the abstract state along one path of the validity parser.
type pathState struct {
	given  map[string]*bool       // YAML inputs: From / Until / Duration given?
	fields map[string]ssa.Value   // last value stored to each field of the result
	phis   map[*ssa.Phi]ssa.Value // resolved phi values on this path
}

func (s *pathState) clone() *pathState {
	n := &pathState{given: map[string]*bool{}, fields: map[string]ssa.Value{}, phis: map[*ssa.Phi]ssa.Value{}}
	for k, v := range s.given {
		n.given[k] = v
	}
	for k, v := range s.fields {
		n.fields[k] = v
	}
	for k, v := range s.phis {
		n.phis[k] = v
	}
	return n
}

type pathWalker struct {
	c      *Ctx
	fn     *ssa.Function
	out    *ssa.Alloc // the result being filled
	recv   ssa.Value  // the YAML struct (receiver), possibly spilled
	recvAl *ssa.Alloc
	paths  int
	limit  int
	visit  func(st *pathState, ret *ssa.Return)
}

// inputGiven recognises `len(<recv>.X) != 0` / `== 0` / `> 0` and returns (X, truth of "given" on the true edge).
func (w *pathWalker) inputGiven(cond ssa.Value) (string, bool, bool) {
	// any spelling of an emptiness test of one of the input's fields, in place or through a one-expression predicate
	// (isSet(cv.From))
	x, emptyOnTrue, ok := emptyTestOf(cond, true)
	if !ok || x == nil {
		return "", false, false
	}
	f := fieldLoad(x)
	if f == nil {
		return "", false, false
	}
	return f.Name(), !emptyOnTrue, true
}

func (w *pathWalker) walk(prev, b *ssa.BasicBlock, st *pathState, seen map[*ssa.BasicBlock]bool) {
	if w.paths > w.limit || seen[b] {
		return
	}
	seen[b] = true
	defer delete(seen, b)
	// phis
	if prev != nil {
		for i, p := range b.Preds {
			if p != prev {
				continue
			}
			for _, ins := range b.Instrs {
				phi, isPhi := ins.(*ssa.Phi)
				if !isPhi {
					break
				}
				st.phis[phi] = phi.Edges[i]
			}
			break
		}
	}
	for _, ins := range b.Instrs {
		switch x := ins.(type) {
		case *ssa.Store:
			root, path := fieldPathOf(x.Addr)
			if root == ssa.Value(w.out) && path != "" {
				st.fields[path] = x.Val
			}
		case *ssa.Return:
			w.paths++
			w.visit(st, x)
			return
		case *ssa.If:
			// determined by the path?
			if v, known := w.evalBool(x.Cond, st); known {
				if v {
					w.walk(b, b.Succs[0], st, seen)
				} else {
					w.walk(b, b.Succs[1], st, seen)
				}
				return
			}
			// the condition as decided by the path: phis of short-circuit operators and boolean variables resolved
			cond, neg := x.Cond, false
			for i := 0; i < 20; i++ {
				if phi, ok := cond.(*ssa.Phi); ok {
					if pv, ok := st.phis[phi]; ok {
						cond = pv
						continue
					}
				}
				if u, ok := cond.(*ssa.UnOp); ok && u.Op == token.NOT {
					cond, neg = u.X, !neg
					continue
				}
				break
			}
			if name, givenOnTrue, ok := w.inputGiven(cond); ok {
				if neg {
					givenOnTrue = !givenOnTrue
				}
				t, f := givenOnTrue, !givenOnTrue
				if cur := st.given[name]; cur != nil {
					// already decided on this path
					if *cur == givenOnTrue {
						w.walk(b, b.Succs[0], st, seen)
					} else {
						w.walk(b, b.Succs[1], st, seen)
					}
					return
				}
				s1 := st.clone()
				s1.given[name] = &t
				w.walk(b, b.Succs[0], s1, seen)
				s2 := st.clone()
				s2.given[name] = &f
				w.walk(b, b.Succs[1], s2, seen)
				return
			}
			w.walk(b, b.Succs[0], st.clone(), seen)
			w.walk(b, b.Succs[1], st.clone(), seen)
			return
		}
	}
	for _, s := range succs(b) {
		w.walk(b, s, st, seen)
	}
}

// evalBool evaluates a boolean SSA value under the path state.
func (w *pathWalker) evalBool(v ssa.Value, st *pathState) (bool, bool) {
	switch x := v.(type) {
	case *ssa.Const:
		if x.Value == nil {
			return false, true
		}
		if b, ok := x.Type().Underlying().(*types.Basic); ok && b.Kind() == types.Bool {
			return constBool(x), true
		}
	case *ssa.UnOp:
		if x.Op == token.NOT {
			b, ok := w.evalBool(x.X, st)
			return !b, ok
		}
		if x.Op == token.MUL {
			root, path := fieldPathOf(x.X)
			if root == ssa.Value(w.out) && path != "" {
				if sv, ok := st.fields[path]; ok {
					return w.evalBool(sv, st)
				}
				return false, true // zero value
			}
		}
	case *ssa.Phi:
		if pv, ok := st.phis[x]; ok {
			return w.evalBool(pv, st)
		}
	}
	return false, false
}

// nowDep: does v depend on time.Now under the path state?
func (w *pathWalker) nowDep(v ssa.Value, st *pathState, depth int) bool {
	if v == nil || depth > 30 {
		return false
	}
	switch x := v.(type) {
	case *ssa.Call:
		if calleeFullName(x) == "time.Now" {
			return true
		}
		for _, a := range x.Call.Args {
			if w.nowDep(a, st, depth+1) {
				return true
			}
		}
	case *ssa.Extract:
		return w.nowDep(x.Tuple, st, depth+1)
	case *ssa.UnOp:
		if x.Op == token.MUL {
			root, path := fieldPathOf(x.X)
			if root == ssa.Value(w.out) && path != "" {
				return w.nowDep(st.fields[path], st, depth+1)
			}
			return false
		}
		return w.nowDep(x.X, st, depth+1)
	case *ssa.Phi:
		if pv, ok := st.phis[x]; ok {
			return w.nowDep(pv, st, depth+1)
		}
	}
	return false
}

// dependsOnInput: v derives from the YAML field name of the receiver.
func (w *pathWalker) fromInput(v ssa.Value, name string, st *pathState, depth int) bool {
	if v == nil || depth > 30 {
		return false
	}
	if f := fieldLoad(v); f != nil && f.Name() == name {
		if root, _ := fieldPathOf(v.(*ssa.UnOp).X); root != ssa.Value(w.out) {
			return true
		}
	}
	switch x := v.(type) {
	case *ssa.Call:
		for _, a := range x.Call.Args {
			if w.fromInput(a, name, st, depth+1) {
				return true
			}
		}
	case *ssa.Extract:
		return w.fromInput(x.Tuple, name, st, depth+1)
	case *ssa.UnOp:
		if x.Op == token.MUL {
			root, path := fieldPathOf(x.X)
			if root == ssa.Value(w.out) && path != "" {
				return w.fromInput(st.fields[path], name, st, depth+1)
			}
			if ia, ok := x.X.(*ssa.IndexAddr); ok {
				return w.fromInput(ia.X, name, st, depth+1)
			}
		}
	case *ssa.Phi:
		if pv, ok := st.phis[x]; ok {
			return w.fromInput(pv, name, st, depth+1)
		}
	}
	return false
}

func ruleValidityPaths(c *Ctx, r *Rep) {
	fn := c.validityParser()
	if fn == nil {
		r.Undecided("anchor:validity-parser", "", "no unique function fills CertificateValidity.From and .Until")
		return
	}
	fk := c.FuncKey(fn)
	// the result alloc: the CertificateValidity local that is returned
	var out *ssa.Alloc
	for _, b := range fn.Blocks {
		for _, ins := range b.Instrs {
			if al, ok := ins.(*ssa.Alloc); ok && strings.HasSuffix(ownerName(c, al.Type()), "config.CertificateValidity") {
				out = al
			}
		}
	}
	if out == nil {
		r.Undecided("shape:"+fk, c.FnPos(fn), "no local CertificateValidity result")
		return
	}
	for _, b := range fn.Blocks {
		if inLoop(b) {
			r.Undecided("shape:"+fk, c.FnPos(fn), "the validity parser contains a loop; path evaluation is not possible")
			return
		}
	}
	idx := errResultIndex(fn.Signature)
	type outcome struct {
		isSet, isStatic, isUntilStatic    bool
		knownSet, knownStatic, knownUS    bool
		fromNow, untilNow, durationStored bool
		pos                               token.Pos
	}
	results := map[string][]outcome{}
	w := &pathWalker{c: c, fn: fn, out: out, limit: 400}
	w.visit = func(st *pathState, ret *ssa.Return) {
		if k, ok := retResults(ret)[idx].(*ssa.Const); !ok || k.Value != nil {
			return // error return
		}
		key := ""
		for _, n := range []string{"From", "Until", "Duration"} {
			g := st.given[n]
			switch {
			case g == nil:
				key += n[:1] + "?"
			case *g:
				key += n[:1] + "1"
			default:
				key += n[:1] + "0"
			}
		}
		var o outcome
		o.pos = ret.Pos()
		get := func(f string) (bool, bool) {
			v, ok := st.fields[f]
			if !ok {
				return false, true
			}
			return w.evalBool(v, st)
		}
		o.isSet, o.knownSet = get("IsSet")
		o.isStatic, o.knownStatic = get("IsStatic")
		o.isUntilStatic, o.knownUS = get("IsUntilStatic")
		o.fromNow = w.nowDep(st.fields["From"], st, 0)
		o.untilNow = w.nowDep(st.fields["Until"], st, 0)
		o.durationStored = w.fromInput(st.fields["Duration"], "Duration", st, 0)
		results[key] = append(results[key], o)
	}
	w.walk(nil, fn.Blocks[0], &pathState{given: map[string]*bool{}, fields: map[string]ssa.Value{}, phis: map[*ssa.Phi]ssa.Value{}}, map[*ssa.BasicBlock]bool{})
	if w.paths > w.limit {
		r.Undecided("shape:"+fk, c.FnPos(fn), "too many paths")
		return
	}
	var keys []string
	for k := range results {
		keys = append(keys, k)
	}
	sort.Strings(keys)
	want := []string{"F0U0D0", "F0U0D1", "F0U1D0", "F1U0D0", "F1U0D1", "F1U1D0"}
	for _, wk := range want {
		if len(results[wk]) == 0 {
			r.Bad("path|"+wk, c.FnPos(fn), "a successful path for this combination of from/until/duration", "none found (paths: "+strings.Join(keys, ",")+")")
		}
	}
	for _, k := range keys {
		if strings.Contains(k, "?") {
			r.Undecided("shape:path|"+k, c.FnPos(fn), "a successful path does not test all three inputs")
			continue
		}
		fromG, untilG, durG := k[1] == '1', k[3] == '1', k[5] == '1'
		if untilG && durG {
			for _, o := range results[k] {
				r.Bad("path|"+k, c.Pos(o.pos), "until together with duration is an error", "returns successfully")
			}
			continue
		}
		for i, o := range results[k] {
			id := k
			if i > 0 {
				id += sprintf("#%d", i)
			}
			pos := c.Pos(o.pos)
			if !o.knownSet || !o.knownStatic || !o.knownUS {
				r.Undecided("shape:flags|"+id, pos, "flag values on this path are not constants")
				continue
			}
			r.Check(o.isStatic == fromG, "IsStatic|"+id, pos, sprintf("IsStatic = %v (an explicit from is given: %v)", fromG, fromG), sprintf("%v", o.isStatic))
			anyG := fromG || untilG || durG
			r.Check(o.isSet == anyG, "IsSet|"+id, pos, sprintf("IsSet = %v (the validity block says something: otherwise the profile's validity is inherited)", anyG), sprintf("%v", o.isSet))
			r.Check(o.fromNow == !fromG, "From-clock|"+id, pos, sprintf("From depends on the time of the run: %v", !fromG), sprintf("%v", o.fromNow))
			wantUntilNow := !untilG && !fromG
			r.Check(o.untilNow == wantUntilNow, "Until-clock|"+id, pos, sprintf("Until depends on the time of the run: %v", wantUntilNow), sprintf("%v", o.untilNow))
			// the hash's kill guards (HASH-KILL checks that these are the guards)
			killedFrom := !o.isStatic || !o.isSet
			killedUntil := killedFrom && !o.isUntilStatic
			r.Check(!o.fromNow || killedFrom, "hash-forgets-clock|From|"+id, pos, "a clock-dependent From is blanked before hashing", sprintf("killed=%v", killedFrom))
			r.Check(!o.untilNow || killedUntil, "hash-forgets-clock|Until|"+id, pos, "a clock-dependent Until is blanked before hashing", sprintf("killed=%v", killedUntil))
			if fromG {
				r.Check(!killedFrom, "hash-keeps|From|"+id, pos, "an explicit from survives into the hash", sprintf("killed=%v", killedFrom))
			}
			if !o.untilNow {
				r.Check(!killedUntil, "hash-keeps|Until|"+id, pos, "an end that does not depend on the clock (explicit until, or explicit from plus duration) survives into the hash", sprintf("killed=%v", killedUntil))
			}
			if durG && killedUntil {
				r.Check(o.durationStored, "hash-keeps|Duration|"+id, pos, "a duration whose end is blanked survives in the Duration field", sprintf("%v", o.durationStored))
			}
		}
	}
}
