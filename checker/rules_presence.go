package main

// Presence rules: the statements whose omission the mutation sweep showed to go unnoticed. Each is phrased as a flow that
// must exist below an exported entry point or between sibling methods, not as a statement at a place, so that moving the
// statement into a helper changes nothing.

import (
	"go/token"
	"go/types"
	"sort"
	"strings"

	"golang.org/x/tools/go/ssa"
)

func init() {
	register(&Rule{Name: "REGISTRY", Floor: 3, Run: ruleRegistry,
		Doc: "what a getter of the filesystem backend reads, the matching setter writes: for every exported GetX method that looks its answer up in a map field of the backend, the PutX / AddX method of the same noun stores into that very map field under its key parameter a value taken from its value parameter"})
	register(&Rule{Name: "FIELD-WRITTEN", Floor: 20, Run: ruleFieldWritten,
		Doc: "every field of a module struct type that module code reads is written somewhere in module code (by a field store, a composite literal, a whole-value copy from a value of the same type, or by a decoder filling the struct): a field that is read and never written means the statement that filled it is gone"})
	register(&Rule{Name: "SIGNED-BODY", Floor: 3, Run: ruleSignedBody,
		Doc: "the certificate the signing function returns carries the body of the context it was called on; a setter of the issuer context stores both the context and the body's issuer name; the PEM reader stores each kind of block it decodes into the like-named part of its result; the EC key reader fills curve, scalar and public point of the key it returns"})
	register(&Rule{Name: "EXPORT-PARTS", Floor: 3, Run: ruleExportParts,
		Doc: "storing an artifact writes it: below PutBuildArtifact the certificate, the private key and the request are each rendered to PEM into one buffer and the bytes of that buffer are what Filesystem.WriteFile receives"})
}

// mapFieldOf: v is a load of a map-typed field of the receiver: the field.
func mapFieldOf(v ssa.Value) *types.Var {
	u, ok := v.(*ssa.UnOp)
	if !ok || u.Op != token.MUL {
		return nil
	}
	fa, ok := u.X.(*ssa.FieldAddr)
	if !ok {
		return nil
	}
	f := fieldOfAddr(fa)
	if _, isMap := f.Type().Underlying().(*types.Map); !isMap {
		return nil
	}
	return f
}

func ruleRegistry(c *Ctx, r *Rep) {
	fsdb := c.NamedType("generator/db/filesystem", "FsDb")
	if fsdb == nil {
		r.Undecided("anchor:FsDb", "", "type not found")
		return
	}
	g := c.Graph()
	ms := c.Prog.MethodSets.MethodSet(types.NewPointer(fsdb))
	getters := map[string]*types.Var{} // noun -> map field the getter reads
	methods := map[string]*ssa.Function{}
	for i := 0; i < ms.Len(); i++ {
		fn := c.Prog.MethodValue(ms.At(i))
		if fn == nil || fn.Blocks == nil || fn.Synthetic != "" {
			continue
		}
		methods[fn.Name()] = fn
	}
	for name, fn := range methods {
		if !strings.HasPrefix(name, "Get") || len(fn.Params) != 2 {
			continue
		}
		for _, b := range fn.Blocks {
			for _, ins := range b.Instrs {
				if lk, ok := ins.(*ssa.Lookup); ok && lk.Index == ssa.Value(fn.Params[1]) {
					if f := mapFieldOf(lk.X); f != nil {
						getters[strings.TrimPrefix(name, "Get")] = f
					}
				}
			}
		}
	}
	var nouns []string
	for n := range getters {
		nouns = append(nouns, n)
	}
	sort.Strings(nouns)
	pv := c.newProv()
	n := 0
	for _, noun := range nouns {
		field := getters[noun]
		var setter *ssa.Function
		for _, pre := range []string{"Put", "Add", "Set"} {
			if m := methods[pre+noun]; m != nil {
				setter = m
			}
		}
		if setter == nil {
			continue // read-only through this interface (metadata)
		}
		n++
		// a MapUpdate of the same field below the setter, keyed and valued from the setter's parameters
		okStore, how := false, "no store into "+field.Name()
		for f := range g.Reach(setter) {
			for _, b := range f.Blocks {
				for _, ins := range b.Instrs {
					mu, ok := ins.(*ssa.MapUpdate)
					if !ok || mapFieldOf(mu.Map) != field {
						continue
					}
					if f != setter {
						okStore, how = true, "stored by "+c.FuncKey(f) // helpers: their own parameters stand for the setter's
						continue
					}
					vo := strings.Join(pv.Origins(mu.Value), ",")
					fromParam := false
					for _, p := range setter.Params[1:] {
						if strings.Contains(vo, "P("+c.FuncKey(setter)+"."+p.Name()+")") {
							fromParam = true
						}
						// &param of a by-value parameter: the cell the parameter was spilled into
						if al, isAl := mu.Value.(*ssa.Alloc); isAl {
							for _, ref := range *al.Referrers() {
								if st, isSt := ref.(*ssa.Store); isSt && st.Addr == ssa.Value(al) && st.Val == ssa.Value(p) {
									fromParam = true
								}
							}
						}
					}
					if fromParam {
						okStore, how = true, "so"
					} else if !okStore {
						how = "stored value does not come from the setter's arguments: " + vo
					}
				}
			}
		}
		r.Check(okStore, "setter-writes-what-getter-reads|"+noun, c.FnPos(setter), c.FuncKey(setter)+" stores its argument into "+field.Name()+", the map Get"+noun+" reads", how)
	}
	if n == 0 {
		r.Undecided("anchor:getter-setter-pairs", "", "no GetX / PutX pair over a map field found")
	}
	// opening the directory fills the registries: below Open every map and list of the backend that its getters and the
	// issuer walk read has a writer, and none of those writers sits behind a test that the alias is already known
	open := methods["Open"]
	if open == nil {
		return
	}
	st, _ := fsdb.Underlying().(*types.Struct)
	written := map[string]bool{}
	var onlyKnown, fromFileGuarded []string
	below := g.Reach(open)
	// the visit function of a directory walk started below Open runs on Open's behalf, however it is handed over
	for cb, starter := range c.walkCallbacks() {
		if _, in := below[starter]; in {
			for f, how := range g.Reach(cb) {
				if _, dup := below[f]; !dup {
					below[f] = how
				}
			}
		}
	}
	for f := range below {
		for _, b := range f.Blocks {
			for _, ins := range b.Instrs {
				var field *types.Var
				switch x := ins.(type) {
				case *ssa.MapUpdate:
					field = mapFieldOf(x.Map)
				case *ssa.Store:
					if fa, ok := x.Addr.(*ssa.FieldAddr); ok {
						if n, isN := derefNamed(fa.X.Type()); isN && n == fsdb {
							field = fieldOfAddr(fa)
						}
					}
				}
				if field == nil {
					continue
				}
				written[field.Name()] = true
				// what was read from the entity's file is registered whether or not the alias was known before (a second
				// opening of the same backend must see a key that was put into the file in between)
				if mu, isMU := ins.(*ssa.MapUpdate); isMU {
					vo := strings.Join(pv.Origins(mu.Value), ",") + "," + strings.Join(pv.Contents(mu.Value), ",")
					// a profile read from a file replaces what was known under that name (the same backend opened again
					// must see an edited profile)
					isProfile := false
					if pt, ok := mu.Value.Type().Underlying().(*types.Pointer); ok {
						isProfile = strings.HasSuffix(typeShort(c, pt.Elem()), "config.CertificateProfile")
					}
					if strings.Contains(vo, "ReadPem(") || strings.Contains(vo, "importPem(") || (isProfile && strings.Contains(vo, "ParseConfig")) {
						for _, gd := range guardsOf(b) {
							cond := gd.Cond
							if u, isNot := cond.(*ssa.UnOp); isNot && u.Op == token.NOT {
								cond = u.X
							}
							if ex, isEx := cond.(*ssa.Extract); isEx && ex.Index == 1 {
								if lk, isLk := ex.Tuple.(*ssa.Lookup); isLk && lk.CommaOk && mapFieldOf(lk.X) != nil {
									fromFileGuarded = append(fromFileGuarded, field.Name()+" at "+c.Pos(ins.Pos()))
								}
							}
						}
					}
				}
				for _, gd := range guardsOf(b) {
					cond, truth := gd.Cond, gd.Truth
					if u, isNot := cond.(*ssa.UnOp); isNot && u.Op == token.NOT {
						cond, truth = u.X, !truth
					}
					ex, isEx := cond.(*ssa.Extract)
					if !isEx || ex.Index != 1 || !truth {
						continue
					}
					if lk, isLk := ex.Tuple.(*ssa.Lookup); isLk && lk.CommaOk {
						if lf := mapFieldOf(lk.X); lf != nil && (lf.Name() == "fsMetadata" || lf.Name() == "configs") {
							onlyKnown = append(onlyKnown, field.Name()+" at "+c.Pos(ins.Pos()))
						}
					}
				}
			}
		}
	}
	if st != nil {
		for i := 0; i < st.NumFields(); i++ {
			f := st.Field(i)
			switch f.Type().Underlying().(type) {
			case *types.Map, *types.Slice:
				if f.Name() == "profiles" {
					continue // filled by the walk callback itself; AddProfile pairs with GetProfile above
				}
				r.Check(written[f.Name()], "open-fills|"+f.Name(), c.FnPos(open), "opening the directory writes "+f.Name(), sprintf("%v", written[f.Name()]))
			}
		}
	}
	r.Check(len(onlyKnown) == 0, "new-entities-registered", c.FnPos(open), "no registry is written only for aliases that are already known", strings.Join(uniq(onlyKnown), "; "))
	r.Check(len(fromFileGuarded) == 0, "file-content-always-registered", c.FnPos(open), "what is read from an entity's artifact file is registered whether or not the alias is already known", strings.Join(uniq(fromFileGuarded), "; "))
	// one entity, one name: a function that files an entity in several of the backend's registries uses the same key
	// for all of them (the getters look all of them up under the alias the planner uses)
	for _, f := range c.Funcs {
		keys := map[string][]string{} // origin of the key -> registries filed under it
		var first token.Pos
		for _, b := range f.Blocks {
			for _, ins := range b.Instrs {
				mu, ok := ins.(*ssa.MapUpdate)
				if !ok {
					continue
				}
				field := mapFieldOf(mu.Map)
				if field == nil || !isStringish(mu.Key.Type()) {
					continue
				}
				owner := false // a registry one of the getters reads under the name handed to it: one record per entity
				for _, gf := range getters {
					if gf == field {
						owner = true
					}
				}
				if mt, ok := field.Type().Underlying().(*types.Map); ok {
					if _, isList := mt.Elem().Underlying().(*types.Slice); isList {
						owner = false // an index from one entity to many (the subscribers of an issuer), keyed by the other end
					}
				}
				if !owner {
					continue
				}
				if first == token.NoPos {
					first = mu.Pos()
				}
				o := strings.Join(pv.Origins(mu.Key), ",")
				keys[o] = append(keys[o], field.Name())
			}
		}
		if len(keys) == 0 {
			continue
		}
		var desc []string
		for o, fields := range keys {
			desc = append(desc, strings.Join(uniq(fields), "+")+" under "+o)
		}
		sort.Strings(desc)
		r.Check(len(keys) == 1, "one-key|"+c.FuncKey(f), c.Pos(first), "all registries written in one function are keyed by the same value", strings.Join(desc, "; "))
	}
}

func derefNamed(t types.Type) (*types.Named, bool) {
	if p, ok := t.Underlying().(*types.Pointer); ok {
		t = p.Elem()
	}
	n, ok := t.(*types.Named)
	return n, ok
}

func ruleFieldWritten(c *Ctx, r *Rep) {
	type fkey struct {
		owner *types.Named
		idx   int
	}
	read := map[fkey]token.Pos{}
	written := map[fkey]bool{}
	wholeWritten := map[*types.Named]bool{} // a value of the type arrives whole from outside module stores (decoder, parameter copy)
	named := func(t types.Type) *types.Named {
		if p, ok := t.Underlying().(*types.Pointer); ok {
			t = p.Elem()
		}
		if p, ok := t.(*types.Pointer); ok {
			t = p.Elem()
		}
		n, _ := t.(*types.Named)
		if n == nil || !c.IsModObj(n.Obj()) {
			return nil
		}
		if _, isStruct := n.Underlying().(*types.Struct); !isStruct {
			return nil
		}
		return n
	}
	decoders := map[string]bool{"encoding/asn1.Unmarshal": true, "encoding/asn1.UnmarshalWithParams": true, "encoding/json.Unmarshal": true,
		"github.com/ghodss/yaml.Unmarshal": true, "sigs.k8s.io/yaml.Unmarshal": true}
	var markDecoded func(t types.Type, depth int)
	markDecoded = func(t types.Type, depth int) {
		if depth > 40 {
			return
		}
		switch x := t.(type) {
		case *types.Pointer:
			markDecoded(x.Elem(), depth+1)
		case *types.Slice:
			markDecoded(x.Elem(), depth+1)
		case *types.Array:
			markDecoded(x.Elem(), depth+1)
		case *types.Map:
			markDecoded(x.Elem(), depth+1)
		case *types.Named:
			if st, ok := x.Underlying().(*types.Struct); ok {
				if c.IsModObj(x.Obj()) {
					if wholeWritten[x] {
						return
					}
					wholeWritten[x] = true
				}
				for i := 0; i < st.NumFields(); i++ {
					markDecoded(st.Field(i).Type(), depth+1)
				}
			} else {
				markDecoded(x.Underlying(), depth+1)
			}
		}
	}
	for _, fn := range c.Funcs {
		for _, b := range fn.Blocks {
			for _, ins := range b.Instrs {
				switch x := ins.(type) {
				case *ssa.FieldAddr:
					n := named(x.X.Type())
					if n == nil {
						continue
					}
					k := fkey{n, x.Field}
					for _, ref := range *x.Referrers() {
						switch u := ref.(type) {
						case *ssa.Store:
							if u.Addr == ssa.Value(x) {
								written[k] = true
							} else {
								read[k] = x.Pos() // the address is kept: counts as read
							}
						case *ssa.DebugRef:
						case *ssa.FieldAddr, *ssa.IndexAddr:
							// a nested store writes part of the field, a nested load reads part of it
							if writesThrough(x, 0) {
								written[k] = true
							}
							read[k] = x.Pos()
						case ssa.CallInstruction:
							// &x.f handed to a call: may be filled (decoder) and may be read
							written[k] = true
							read[k] = x.Pos()
						default:
							read[k] = x.Pos()
						}
					}
				case *ssa.Field:
					if n := named(x.X.Type()); n != nil {
						read[fkey{n, x.Field}] = x.Pos()
					}
				case ssa.CallInstruction:
					name := calleeFullName(x)
					if decoders[name] && len(x.Common().Args) >= 2 {
						markDecoded(unwrapIface(x.Common().Args[1]).Type(), 0)
					}
					if strings.HasSuffix(name, "Decoder).Decode") && len(x.Common().Args) >= 2 {
						markDecoded(unwrapIface(x.Common().Args[1]).Type(), 0)
					}
				}
			}
		}
	}
	// composite literals and whole-value copies count as writes of every field (a literal zeroes what it does not name,
	// which is a value the author chose)
	for _, fn := range c.Funcs {
		for _, b := range fn.Blocks {
			for _, ins := range b.Instrs {
				st, ok := ins.(*ssa.Store)
				if !ok {
					continue
				}
				if n := named(st.Val.Type()); n != nil {
					if _, isPtr := st.Val.Type().Underlying().(*types.Pointer); !isPtr {
						// *p = v : every field of v's type is written where p points; if v itself came from module stores its
						// fields are judged there
						_ = n
					}
				}
			}
		}
	}
	var keys []fkey
	for k := range read {
		keys = append(keys, k)
	}
	sort.Slice(keys, func(i, j int) bool {
		if keys[i].owner.Obj().Name() != keys[j].owner.Obj().Name() {
			return keys[i].owner.Obj().Name() < keys[j].owner.Obj().Name()
		}
		return keys[i].idx < keys[j].idx
	})
	for _, k := range keys {
		st := k.owner.Underlying().(*types.Struct)
		f := st.Field(k.idx)
		if f.Embedded() {
			continue
		}
		ok := written[k] || wholeWritten[k.owner] || literalNames(c, k.owner, f.Name())
		r.Check(ok, "field|"+objName(c, k.owner.Obj())+"."+f.Name(), c.Pos(read[k]), "read here and written somewhere in module code", map[bool]string{true: "so", false: "never written"}[ok])
	}
}

// literalNames: some composite literal of type t in module code names the field.
func literalNames(c *Ctx, t *types.Named, field string) bool {
	for _, fn := range c.Funcs {
		for _, fs := range storesIntoType(c, fn, objName(c, t.Obj())) {
			if fs.field == field || strings.HasPrefix(fs.field, field+".") {
				return true
			}
		}
	}
	return false
}

func ruleSignedBody(c *Ctx, r *Rep) {
	pv := c.newProv()
	// (1) Sign: out.TBSCertificate <- *recv.TbsCertificate
	if fn, _ := c.signFunc(); fn != nil {
		fk := c.FuncKey(fn)
		recv := "P(" + fk + "." + fn.Params[0].Name() + ")"
		ok, how := false, "the returned certificate's body is never assigned from the context"
		pv.inFrames(fn, 2, nil, func(fr frame) {
			for _, fs := range storesIntoType(c, fr.fn, "cert.Certificate") {
				if fs.field != "TBSCertificate" {
					continue
				}
				o := strings.Join(pv.here(fs.val()), ",")
				if strings.Contains(o, recv+".TbsCertificate") {
					ok, how = true, "so"
				} else if !ok {
					how = "assigned from " + o
				}
			}
		})
		r.Check(ok, "signed-body|"+fk, c.FnPos(fn), "the certificate returned carries the context's body (out.TBSCertificate = *ctx.TbsCertificate)", how)
	} else {
		r.Undecided("anchor:sign-function", "", "not found")
	}
	// (2) setters of the issuer context
	for _, fn := range c.Funcs {
		if fn.Parent() != nil || len(fn.Params) != 2 || !strings.HasSuffix(typeShort(c, fn.Params[1].Type()), "cert.IssuerContext") || fn.Signature.Recv() == nil {
			continue
		}
		fk := c.FuncKey(fn)
		prm := "P(" + fk + "." + fn.Params[1].Name() + ")"
		name, ctx := false, false
		for _, fs := range storesIntoType(c, fn, "cert.TbsCertificate") {
			if fs.field == "Issuer" && strings.Contains(strings.Join(pv.Origins(fs.val()), ","), prm+".IssuerDn") {
				name = true
			}
		}
		for _, fs := range storesIntoType(c, fn, "cert.CertificateContext") {
			if fs.field == "Issuer" {
				ctx = true
			}
		}
		r.Check(name && ctx, "issuer-setter-complete|"+fk, c.FnPos(fn), "stores the issuer context and the body's issuer name", sprintf("context: %v, name: %v", ctx, name))
	}
	// (3) the PEM reader: each part of its result is stored from a decode of block bytes
	if rd := c.Func("generator/cert", "ReadPem"); rd != nil {
		seen := map[string]bool{}
		pv.inFrames(rd, 2, nil, func(fr frame) {
			for _, fs := range storesIntoType(c, fr.fn, "cert.PemFileContent") {
				if !fs.whole && !strings.Contains(fs.field, ".") {
					seen[fs.field] = true
				}
			}
		})
		for _, f := range []string{"Certificate", "PrivateKey", "Request"} {
			r.Check(seen[f], "pem-reader-stores|"+f, c.FnPos(rd), "the reader stores a decoded "+f+" into its result", sprintf("%v", seen[f]))
		}
	} else {
		r.Undecided("anchor:ReadPem", "", "not found")
	}
	// (4) the EC key reader fills the whole key
	if p8 := c.Func("generator/cert", "ParsePKCS8PrivateKey"); p8 != nil {
		seen := map[string]bool{}
		for f := range c.Graph().Reach(p8) {
			for _, b := range f.Blocks {
				for _, ins := range b.Instrs {
					st, ok := ins.(*ssa.Store)
					if !ok {
						continue
					}
					fa, ok := st.Addr.(*ssa.FieldAddr)
					if !ok {
						continue
					}
					owner := types.TypeString(fa.X.Type(), nil)
					if strings.Contains(owner, "crypto/ecdsa.P") {
						seen[fieldOfAddr(fa).Name()] = true
					}
				}
			}
		}
		for _, f := range []string{"Curve", "D", "X", "Y"} {
			r.Check(seen[f], "ec-reader-fills|"+f, c.FnPos(p8), "the EC key reader sets "+f+" of the key it returns", sprintf("%v", seen[f]))
		}
	}
}

func ruleExportParts(c *Ctx, r *Rep) {
	put := c.Method("generator/db/filesystem", "FsDb", "PutBuildArtifact")
	if put == nil {
		r.Undecided("anchor:PutBuildArtifact", "", "not found")
		return
	}
	reach := c.Graph().Reach(put)
	want := map[string]string{
		"certificate": "cert.Certificate).WritePem",
		"private key": "cert.WritePrivateKeyToPem",
		"request":     "cert.CertificateRequest).WritePem",
	}
	var bufs []ssa.Value
	var names []string
	for n := range want {
		names = append(names, n)
	}
	sort.Strings(names)
	for _, part := range names {
		found := false
		for f := range reach {
			if !strings.Contains(fnPkgPath(f), "filesystem") {
				continue
			}
			for _, ci := range callsIn(f) {
				if strings.HasSuffix(calleeFullName(ci), want[part]) {
					found = true
					args := ci.Common().Args
					bufs = append(bufs, unwrapIface(args[len(args)-1]))
				}
			}
		}
		r.Check(found, "renders|"+part, c.FnPos(put), "the "+part+" is rendered to PEM below PutBuildArtifact", sprintf("%v", found))
	}
	// each part is rendered under no other condition than its own presence: a file that holds a key and the request
	// made from it keeps both
	pv := c.newProv()
	splitLast := func(o string) (string, string) {
		i := strings.LastIndex(o, ".")
		if i < 0 || strings.ContainsAny(o[i:], "()[]|") {
			return "", ""
		}
		return o[:i], o[i+1:]
	}
	for _, part := range names {
		n := 0
		for f := range reach {
			if !strings.Contains(fnPkgPath(f), "filesystem") {
				continue
			}
			for _, ci := range callsIn(f) {
				if !strings.HasSuffix(calleeFullName(ci), want[part]) {
					continue
				}
				ro := pv.Origins(ci.Common().Args[0])
				if len(ro) != 1 {
					continue
				}
				base, field := splitLast(ro[0])
				if base == "" {
					continue
				}
				n++
				var foreign []string
				for _, g := range guardsOf(ci.Block()) {
					x, _, ok := nilTestOf(g.Cond, g.Truth)
					if !ok {
						continue
					}
					for _, o := range pv.Origins(x) {
						if b2, f2 := splitLast(o); b2 == base && f2 != field {
							foreign = append(foreign, "the presence of "+f2+" decides whether "+field+" is rendered")
						}
					}
				}
				foreign = uniq(foreign)
				r.Check(len(foreign) == 0, sprintf("own-condition|%s|%s#%d", part, c.FuncKey(f), n), c.Pos(ci.Pos()), "the "+part+" is rendered whenever it is present, whatever else the artifact holds", strings.Join(foreign, "; "))
			}
		}
	}
	// the bytes written are the bytes of a buffer, and the function that writes them renders the parts (itself or through
	// what it calls)
	written := false
	for f := range reach {
		for _, ci := range callsIn(f) {
			cc := ci.Common()
			if !cc.IsInvoke() || cc.Method.Name() != "WriteFile" || len(cc.Args) != 2 {
				continue
			}
			o := strings.Join(pv.Origins(cc.Args[1]), ",")
			if !strings.Contains(o, "bytes.Buffer).Bytes(") {
				continue
			}
			// the write depends on nothing but there being something to write (and no earlier error): a write skipped for
			// another reason leaves the file's modification time behind the issuer's and the entity is redone every run
			var foreign []string
			var facts []guard
			facts = append(facts, guardsOf(ci.Block())...)
			for _, p := range ci.Block().Preds {
				facts = append(facts, edgeGuard(p, ci.Block())...)
				facts = append(facts, guardsOf(p)...)
			}
			for _, g := range facts {
				o := strings.Join(pv.Origins(g.Cond), " ")
				for _, what := range []string{"ReadFile(", "bytes.Equal(", ".Stat(", "os.Open(", ".Open("} {
					if strings.Contains(o, what) {
						foreign = append(foreign, "a test of "+what+"…) decides whether the file is written")
					}
				}
			}
			foreign = uniq(foreign)
			r.Check(len(foreign) == 0, "write-unconditional|"+c.FuncKey(f), c.Pos(ci.Pos()), "whether the artifact is written does not depend on what the file system holds", strings.Join(foreign, "; "))
			below := c.Graph().Reach(f)
			all := true
			for _, part := range names {
				has := false
				for g := range below {
					for _, ci2 := range callsIn(g) {
						if strings.HasSuffix(calleeFullName(ci2), want[part]) {
							has = true
						}
					}
				}
				if !has {
					all = false
				}
			}
			if all {
				written = true
			}
		}
	}
	// storing an artifact exports it, whatever it holds: no successful return of PutBuildArtifact comes before the call
	// that leads to the write (a key without a certificate is written too)
	{
		var exportCalls []ssa.CallInstruction
		for _, ci := range callsIn(put) {
			cc := ci.Common()
			if cc.IsInvoke() && cc.Method.Name() == "WriteFile" {
				exportCalls = append(exportCalls, ci)
				continue
			}
			if g := cc.StaticCallee(); g != nil && c.InModule(g) {
				for f := range c.Graph().Reach(g) {
					for _, ci2 := range callsIn(f) {
						if ci2.Common().IsInvoke() && ci2.Common().Method.Name() == "WriteFile" {
							exportCalls = append(exportCalls, ci)
						}
					}
				}
			}
		}
		n := 0
		for _, ret := range returnsOf(put) {
			res := retResults(ret)
			if len(res) == 0 {
				continue
			}
			if k, isK := res[len(res)-1].(*ssa.Const); !isK || k.Value != nil {
				continue // hands back an error value: an early failure, or the export's own result
			}
			n++
			dom := false
			for _, ec := range exportCalls {
				if instrDominates(ec, ret) {
					dom = true
				}
			}
			r.Check(dom, sprintf("export-before-success|%s#%d", c.FuncKey(put), n), c.Pos(ret.Pos()), "a successful return of PutBuildArtifact lies behind the call that writes the artifact file", sprintf("%v", dom))
		}
	}
	_ = bufs
	r.Check(written, "buffer-written", c.FnPos(put), "Filesystem.WriteFile receives the bytes of a buffer, in the function below which the parts are rendered", sprintf("%v", written))
}
