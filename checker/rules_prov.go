package main

import (
	"go/constant"
	"go/token"
	"go/types"
	"regexp"
	"sort"
	"strings"

	"golang.org/x/tools/go/ssa"
)

func init() {
	register(&Rule{Name: "PROV-ISSUER", Floor: 4, Run: ruleProvIssuer,
		Doc: "every store to a field of the issuer context: for a configured issuer, name <- Subject (not Issuer), key bits and private key of ONE GetBuildArtifact result fetched for the Issuer alias of the entity's own configuration; self-signed: the entity's own context after its key exists; no other writer"})
	register(&Rule{Name: "PROV-SIGN", Floor: 7, Run: ruleProvSign,
		Doc: "in the signing function: the key is the comma-ok type assertion of the issuer context's private key (mismatch returns an error), the digest is Sum(nil) of the hash that was fed asn1.Marshal(TBSCertificate), hash/hash id/key kind/outer OID come from one table call on the alg parameter, the issuer name store precedes the Marshal, nothing is stored into the TBS after it, the result is that certificate"})
	register(&Rule{Name: "SIGALG-PARAMS", Floor: 1, Run: ruleSigAlgParams,
		Doc: "both signature AlgorithmIdentifiers receive their Parameters from one value that is asn1.NullRawValue exactly when the algorithm's key kind is RSA and absent otherwise"})
	register(&Rule{Name: "PROV-KEYID", Floor: 2, Run: ruleProvKeyID,
		Doc: "the subject key identifier hashes the certificate's own subjectPublicKey bits, the authority key identifier the issuer context's public key bits, both with SHA-1, and the digest goes unmodified into the marshalled value"})
	register(&Rule{Name: "PROV-VALIDITY", Floor: 2, Run: ruleProvValidity,
		Doc: "notBefore/notAfter are the From/Until of the configuration, in that order, converted with time.Time.UTC()"})
	register(&Rule{Name: "PROV-SUBJECT", Floor: 3, Run: ruleProvSubject,
		Doc: "the certificate subject is the parsed subject string of the configuration; serial number and unique ids come from the like-named configuration fields (no cross-wiring), a configured serial replaces the random one only when non-zero, unique-id bit lengths are 8*len"})
	register(&Rule{Name: "PROV-MANIP", Floor: 6, Run: ruleProvManip,
		Doc: "each of the six manipulation keys is wired to its own field and from there to the certificate field it names; TBS manipulations are stored before signing under their != nil guards, outer ones into the signed certificate after signing; a preset inner algorithm is kept"})
	register(&Rule{Name: "PROV-KEY", Floor: 4, Run: ruleProvKey,
		Doc: "regeneration passes the stored private key and request of the entity's own artifact; a key is generated only when both are absent, the request's public key is used only without a key, the returned artifact carries the context's key, the incoming request and the signed certificate; PEM export writes each part iff present"})
	register(&Rule{Name: "PROV-RAW", Floor: 2, Run: ruleProvRaw,
		Doc: "a !binary: value is the standard base64 decoding of everything after the prefix; !empty and !null are the empty string and ASN.1 NULL"})
	register(&Rule{Name: "FILLBYTES", Floor: 1, Run: ruleFillBytes,
		Doc: "the EC private scalar is written with FillBytes into a buffer of (N.BitLen()+7)/8 bytes (fixed width), and the reader rejects exactly the scalars >= N"})
	register(&Rule{Name: "RAWDN", Floor: 1, Run: ruleRawDN,
		Doc: "the issuer name placed into a certificate should be the issuer certificate's subject bytes; here it is a decoded pkix.RDNSequence that is re-encoded"})
	register(&Rule{Name: "MERGE-COPY", Floor: 3, Run: ruleMergeCopy,
		Doc: "the merged configuration is a whole copy of the certificate's configuration in which only Validity (iff the certificate has none and the profile has one) and Extensions are replaced"})
}

func stripPos(s string) string { return s }

// expectSet: got must equal want as sets.
func expectSet(r *Rep, key, pos string, got []string, why string, want ...string) bool {
	g := append([]string{}, got...)
	w := append([]string{}, want...)
	sort.Strings(g)
	sort.Strings(w)
	ok := len(g) == len(w)
	for i := 0; ok && i < len(g); i++ {
		if g[i] != w[i] {
			ok = false
		}
	}
	return r.Check(ok, key, pos, why+": "+strings.Join(w, " , "), strings.Join(g, " , "))
}

// fieldPath renders the FieldAddr chain of an address (root description, dotted field path).
func fieldPathOf(addr ssa.Value) (root ssa.Value, path string) {
	cur := addr
	var names []string
	for {
		fa, ok := cur.(*ssa.FieldAddr)
		if !ok {
			break
		}
		names = append([]string{fieldOfAddr(fa).Name()}, names...)
		cur = fa.X
	}
	return cur, strings.Join(names, ".")
}

// storesInto lists stores in fn whose address is a field path through a struct of type ownerSuffix.
type fstore struct {
	st    *ssa.Store
	field string // dotted path below the owner
	root  ssa.Value
	v     ssa.Value // the value that reaches the field when the store assigns a whole literal (nil: st.Val)
	whole bool      // a whole-literal store that is also listed field by field
}

// val: the value stored into the field.
func (f fstore) val() ssa.Value {
	if f.v != nil {
		return f.v
	}
	return f.st.Val
}

// literalFields: when v is a struct literal - built in place, or returned by a loop-free module helper that only fills
// a literal from its parameters - the values of its fields, expressed in the frame of the function that uses v.
func literalFields(c *Ctx, v ssa.Value) map[string]ssa.Value {
	fieldsOfAlloc := func(al *ssa.Alloc, mapParam func(ssa.Value) ssa.Value) map[string]ssa.Value {
		out := map[string]ssa.Value{}
		if al.Referrers() == nil {
			return nil
		}
		for _, u := range *al.Referrers() {
			switch x := u.(type) {
			case *ssa.FieldAddr:
				if x.Referrers() == nil {
					continue
				}
				for _, uu := range *x.Referrers() {
					st, ok := uu.(*ssa.Store)
					if !ok || st.Addr != ssa.Value(x) {
						return nil // address taken otherwise: not a plain literal
					}
					if _, dup := out[fieldOfAddr(x).Name()]; dup {
						return nil
					}
					out[fieldOfAddr(x).Name()] = mapParam(st.Val)
				}
			case *ssa.UnOp, *ssa.DebugRef:
			case *ssa.Store:
				if x.Addr == ssa.Value(al) {
					return nil // assigned as a whole somewhere
				}
			default:
				return nil
			}
		}
		return out
	}
	ident := func(x ssa.Value) ssa.Value { return x }
	switch x := v.(type) {
	case *ssa.UnOp:
		// a literal built in place, or a local variable that is only ever filled field by field and read as a whole
		if al, ok := x.X.(*ssa.Alloc); ok && x.Op == token.MUL {
			return fieldsOfAlloc(al, ident)
		}
	case *ssa.Call:
		g := x.Call.StaticCallee()
		if g == nil || !c.InModule(g) || g.Blocks == nil || len(g.Blocks) != 1 || g.Signature.Results().Len() != 1 {
			return nil
		}
		rets := returnsOf(g)
		if len(rets) != 1 {
			return nil
		}
		ld, ok := retResults(rets[0])[0].(*ssa.UnOp)
		if !ok || ld.Op != token.MUL {
			return nil
		}
		al, ok := ld.X.(*ssa.Alloc)
		if !ok {
			return nil
		}
		okAll := true
		m := fieldsOfAlloc(al, func(v ssa.Value) ssa.Value {
			switch y := v.(type) {
			case *ssa.Parameter:
				for i, q := range g.Params {
					if q == y && i < len(x.Call.Args) {
						return x.Call.Args[i]
					}
				}
			case *ssa.Const:
				return y
			case *ssa.UnOp:
				if _, isG := y.X.(*ssa.Global); isG {
					return y
				}
			}
			okAll = false
			return v
		})
		if !okAll {
			return nil
		}
		return m
	}
	return nil
}

func storesIntoType(c *Ctx, fn *ssa.Function, ownerSuffix string) []fstore {
	var out []fstore
	for _, b := range fn.Blocks {
		for _, ins := range b.Instrs {
			st, ok := ins.(*ssa.Store)
			if !ok {
				continue
			}
			// find the FieldAddr in the chain whose base has the owner type
			cur := st.Addr
			var names []string
			for {
				fa, ok := cur.(*ssa.FieldAddr)
				if !ok {
					break
				}
				names = append([]string{fieldOfAddr(fa).Name()}, names...)
				if strings.HasSuffix(ownerName(c, fa.X.Type()), ownerSuffix) {
					path := strings.Join(names, ".")
					// a whole literal assigned to a struct-typed field: one store per field of the literal
					if lf := literalFields(c, st.Val); len(lf) > 0 {
						var fnames []string
						for n := range lf {
							fnames = append(fnames, n)
						}
						sort.Strings(fnames)
						out = append(out, fstore{st, path, fa.X, nil, true})
						for _, n := range fnames {
							out = append(out, fstore{st, path + "." + n, fa.X, lf[n], false})
						}
						break
					}
					out = append(out, fstore{st, path, fa.X, nil, false})
					break
				}
				cur = fa.X
			}
			// whole-struct store
			if len(names) == 0 {
				if pt, ok := st.Addr.Type().Underlying().(*types.Pointer); ok && isNamedStruct(pt.Elem()) && strings.HasSuffix(ownerName(c, pt.Elem()), ownerSuffix) {
					_, isParamSpill := st.Val.(*ssa.Parameter)
					al, isLocal := st.Addr.(*ssa.Alloc)
					if !isParamSpill && !(isLocal && !al.Heap) { // copies into plain local variables write no shared object
						out = append(out, fstore{st, "", st.Addr, nil, false})
					}
				}
			}
		}
	}
	return out
}

func ruleProvIssuer(c *Ctx, r *Rep) {
	pv := c.newProv()
	type site struct {
		fn *ssa.Function
		fs fstore
	}
	byFn := map[*ssa.Function][]fstore{}
	for _, fn := range c.Funcs {
		for _, fs := range storesIntoType(c, fn, "cert.IssuerContext") {
			byFn[fn] = append(byFn[fn], fs)
		}
	}
	// drivers: the functions that build a certificate body from an entity's configuration and have it signed. The
	// issuer context is checked where it is used (there), whichever helper assembled it.
	type driverCalls struct{ body, sign *ssa.Call }
	drivers := map[*ssa.Function]driverCalls{}
	helperOf := map[*ssa.Function]*ssa.Function{} // module functions called (≤2 deep) from a driver
	for _, fn := range c.Funcs {
		var d driverCalls
		for _, ci := range callsIn(fn) {
			if f := ci.Common().StaticCallee(); f != nil && c.InModule(f) {
				res := f.Signature.Results()
				if res.Len() == 2 && strings.HasSuffix(typeShort(c, res.At(0).Type()), "cert.CertificateContext") && isErrorType(res.At(1).Type()) {
					d.body, _ = ci.(*ssa.Call)
				}
				if res.Len() == 2 && strings.HasSuffix(typeShort(c, res.At(0).Type()), "cert.Certificate") && isErrorType(res.At(1).Type()) {
					d.sign, _ = ci.(*ssa.Call)
				}
			}
		}
		if d.body != nil && d.sign != nil {
			drivers[fn] = d
			pv.Opaque(d.body.Call.StaticCallee(), d.sign.Call.StaticCallee()) // described as calls, whatever their shape
			if _, ok := byFn[fn]; !ok {
				byFn[fn] = nil
			}
			for _, ci := range callsIn(fn) {
				if f := ci.Common().StaticCallee(); f != nil && c.InModule(f) && f.Blocks != nil {
					helperOf[f] = fn
					for _, ci2 := range callsIn(f) {
						if g := ci2.Common().StaticCallee(); g != nil && c.InModule(g) && g.Blocks != nil {
							if _, seen := helperOf[g]; !seen {
								helperOf[g] = fn
							}
						}
					}
				}
			}
		}
	}
	var fns []*ssa.Function
	for f := range byFn {
		fns = append(fns, f)
	}
	sort.Slice(fns, func(i, j int) bool { return c.FuncKey(fns[i]) < c.FuncKey(fns[j]) })
	seenConfigured := false
	returnsIssuerCtx := func(fn *ssa.Function) bool {
		res := fn.Signature.Results()
		for i := 0; i < res.Len(); i++ {
			if strings.HasSuffix(typeShort(c, res.At(i).Type()), "cert.IssuerContext") {
				return true
			}
		}
		return false
	}
	for _, fn := range fns {
		fk := c.FuncKey(fn)
		// classify the writer
		d, isDriver := drivers[fn]
		switch {
		case isDriver:
			bodyCall, signCall := d.body, d.sign
			// the entity's own configuration: what is handed to the body builder
			cfgO := pv.Origins(bodyCall.Call.Args[0])
			if len(cfgO) != 1 {
				r.Undecided("shape:"+fk, c.FnPos(fn), "the entity's configuration handed to the body builder has several origins")
				continue
			}
			// own configuration is fetched for the function's alias parameter
			const getCfg = "I:db.Database.GetConfig("
			if !r.Check(strings.HasPrefix(cfgO[0], getCfg) && strings.HasSuffix(cfgO[0], "#0"), "own-config|"+fk, c.Pos(bodyCall.Pos()), "the configuration handed on is GetConfig(alias)", cfgO[0]) {
				continue
			}
			// the stored artifact of the configured issuer, looked up in the same database
			backend := cfgO[0][len(getCfg):]
			depth := 0
			for i, ch := range backend {
				if ch == '(' {
					depth++
				} else if ch == ')' {
					depth--
				} else if ch == '|' && depth == 0 {
					backend = backend[:i]
					break
				}
			}
			issuerBase := "I:db.Database.GetBuildArtifact(" + backend + "|" + cfgO[0] + ".Issuer)#0"
			// the issuer context handed to signing: the value whose address is stored into <ctx>.Issuer before the signing call
			var ctxAlloc *ssa.Alloc
			attached := false
			for _, b := range fn.Blocks {
				for _, ins := range b.Instrs {
					if st, ok := ins.(*ssa.Store); ok {
						if fa, ok := st.Addr.(*ssa.FieldAddr); ok && fieldOfAddr(fa).Name() == "Issuer" && strings.HasSuffix(ownerName(c, fa.X.Type()), "cert.CertificateContext") {
							if al, ok := st.Val.(*ssa.Alloc); ok {
								ctxAlloc = al
								attached = instrDominates(st, signCall)
								// attached to the context that is signed
								ao, so := pv.Origins(fa.X), pv.Origins(signCall.Call.Args[0])
								r.Check(strings.Join(ao, ",") == strings.Join(so, ","), "issuer-attached-to-signed-context|"+fk, c.Pos(st.Pos()), "the issuer context is attached to the context that is signed", strings.Join(ao, ","))
							}
						}
					}
				}
			}
			r.Check(ctxAlloc != nil && attached, "issuer-attached-before-signing|"+fk, c.Pos(signCall.Pos()), "ctx.Issuer = &issuerCtx dominates the signing call", sprintf("%v", attached))
			if ctxAlloc == nil {
				continue
			}
			// its three fields, over both branches (configured issuer / self-signed), flow-insensitively
			self := ""
			if bo := pv.Origins(bodyCall); len(bo) == 1 {
				self = bo[0] + "#0"
			}
			want := map[string][2]string{
				"IssuerDn":     {issuerBase + ".Certificate.TBSCertificate.Subject", self + ".TbsCertificate.Subject"},
				"PublicKeyRaw": {issuerBase + ".Certificate.TBSCertificate.PublicKey.PublicKey.Bytes", self + ".TbsCertificate.PublicKey.PublicKey.Bytes"},
				"PrivateKey":   {issuerBase + ".PrivateKey", self + ".PrivateKey"},
			}
			ist := ctxAlloc.Type().Underlying().(*types.Pointer).Elem().Underlying().(*types.Struct)
			for i := 0; i < ist.NumFields(); i++ {
				f := ist.Field(i)
				w, known := want[f.Name()]
				if !known {
					r.Infof("issuer context field %s is not covered by the rule", f.Name())
					continue
				}
				o := pv.loadFrom(ctxAlloc, []*types.Var{f}, 0)
				for _, x := range o {
					if strings.HasPrefix(x, issuerBase) {
						seenConfigured = true
					}
				}
				expectSet(r, "issuer-context|"+fk+"|"+f.Name(), c.Pos(ctxAlloc.Pos()), o, "configured issuer: from the issuer's stored artifact GetBuildArtifact(<own config>.Issuer) (its Subject, not its Issuer); self-signed: from the entity's own context built just before", w[0], w[1])
			}
			r.Check(seenConfigured, "issuer-artifact-lookup|"+fk, c.FnPos(fn), "GetBuildArtifact(<own config>.Issuer)", issuerBase)
		case helperOf[fn] != nil && returnsIssuerCtx(fn) && !(fn.Signature.Results().Len() == 1 && len(fn.Params) == 1):
			// a helper of a driver that assembles the context: its result is checked where the driver uses it
			// (the helper is inlined into the driver's provenance), provided it can be inlined
			if hasLoop(fn) {
				r.Undecided("shape:"+fk, c.FnPos(fn), "issuer context assembled in a helper with a loop: cannot be followed to its use")
			} else {
				r.Ok("helper|"+fk, c.FnPos(fn), "assembles the issuer context for "+c.FuncKey(helperOf[fn])+"; checked at its use there", "inlined")
			}
		case fn.Signature.Results().Len() == 1 && strings.HasSuffix(typeShort(c, fn.Signature.Results().At(0).Type()), "cert.IssuerContext") && len(fn.Params) == 1:
			// converters (AsIssuer and helpers): every field derives from the single parameter; what they are applied to is
			// checked at the driver through inlining. The own-context converter additionally must read Subject, not Issuer.
			prm := "P(" + fk + "." + fn.Params[0].Name() + ")"
			for _, fs := range byFn[fn] {
				o := pv.Origins(fs.val())
				ok := len(o) >= 1
				for _, x := range o {
					if !strings.HasPrefix(x, prm) {
						ok = false
					}
				}
				r.Check(ok, "converter|"+fk+"|"+fs.field, c.Pos(fs.st.Pos()), "derived from the converter's argument only", strings.Join(o, " , "))
				if strings.HasSuffix(typeShort(c, fn.Params[0].Type()), "cert.CertificateContext") && fs.field == "IssuerDn" {
					expectSet(r, "own-context|"+fk+"|IssuerDn", c.Pos(fs.st.Pos()), o, "a context acting as its own issuer is named by its subject", prm+".TbsCertificate.Subject")
				}
			}
		case returnsIssuerCtx(fn) && !hasLoop(fn) && func() bool {
			// a plain assembler, however deep below the driver: every field is one of its parameters (or derived from one);
			// what it is applied to is checked where the driver uses the result, through inlining
			for _, fs := range byFn[fn] {
				o := pv.Origins(fs.val())
				if len(o) == 0 {
					return false
				}
				for _, x := range o {
					if !strings.HasPrefix(x, "P("+fk+".") {
						return false
					}
				}
			}
			return len(byFn[fn]) > 0
		}():
			r.Ok("assembler|"+fk, c.FnPos(fn), "fills the issuer context from its parameters only; checked at its use", "inlined")
		default:
			// constructors of a fresh context: the placeholder issuer is the context itself (self-signed default)
			subj := ""
			for _, fs := range storesIntoType(c, fn, "cert.TbsCertificate") {
				if fs.field == "Subject" {
					subj += strings.Join(pv.Origins(fs.val()), ",") + ","
				}
			}
			isCtor := false
			for _, ret := range returnsOf(fn) {
				if strings.HasSuffix(typeShort(c, retResults(ret)[0].Type()), "cert.CertificateContext") {
					isCtor = true
				}
			}
			if !isCtor {
				for _, fs := range byFn[fn] {
					r.Bad("unexpected-writer|"+fk+"|"+fs.field, c.Pos(fs.st.Pos()), "issuer context fields are written only where the issuer is resolved", "written here")
				}
				continue
			}
			for _, fs := range byFn[fn] {
				switch fs.field {
				case "IssuerDn":
					o := pv.Origins(fs.val())
					ok := true
					for _, x := range o {
						if !strings.Contains(subj, x+",") {
							ok = false
						}
					}
					r.Check(ok, "placeholder|"+fk+"|IssuerDn", c.Pos(fs.st.Pos()), "a new context's placeholder issuer name is its own subject", strings.Join(o, " , "))
				case "PrivateKey":
					expectSet(r, "placeholder|"+fk+"|PrivateKey", c.Pos(fs.st.Pos()), pv.Origins(fs.val()), "no key yet (signing refuses a nil key)", "K(nil)")
				}
			}
		}
	}
	r.Check(seenConfigured, "configured-issuer-writer", "", "a function resolves the configured issuer from the database", sprintf("%v", seenConfigured))
	// SetIssuer-like methods: storing the context and the TBS issuer from the same argument
	for _, fn := range c.Funcs {
		if len(fn.Params) == 2 && strings.HasSuffix(typeShort(c, fn.Params[1].Type()), "cert.IssuerContext") {
			for _, fs := range storesIntoType(c, fn, "cert.TbsCertificate") {
				if fs.field == "Issuer" {
					expectSet(r, "set-issuer|"+c.FuncKey(fn), c.Pos(fs.st.Pos()), pv.Origins(fs.val()), "TBS issuer = the given context's name", "P("+c.FuncKey(fn)+"."+fn.Params[1].Name()+").IssuerDn")
				}
			}
		}
	}
}

func ruleProvSign(c *Ctx, r *Rep) {
	fn, why := c.signFunc()
	if fn == nil {
		r.Undecided("anchor:sign-function", "", why)
		return
	}
	pv := c.newProv()
	fk := c.FuncKey(fn)
	recv := "P(" + fk + "." + fn.Params[0].Name() + ")"
	var algParam *ssa.Parameter
	for _, p := range fn.Params {
		if c.isModNamed("SignatureAlgorithm")(p.Type()) {
			algParam = p
		}
	}
	tab := c.resolveAlgFunc()
	if algParam == nil || tab == nil {
		r.Undecided("shape:"+fk, c.FnPos(fn), "no SignatureAlgorithm parameter / no algorithm table")
		return
	}
	// the table call(s): argument must be the alg parameter
	var tabCalls []*ssa.Call
	for _, ci := range callsIn(fn) {
		if ci.Common().StaticCallee() == tab {
			tabCalls = append(tabCalls, ci.(*ssa.Call))
			r.Check(ci.Common().Args[0] == ssa.Value(algParam), "table-argument|"+fk, c.Pos(ci.Pos()), "algorithm table applied to the alg parameter", ci.Common().Args[0].String())
		}
	}
	if len(tabCalls) == 0 {
		r.Bad("table-call|"+fk, c.FnPos(fn), "the signing function consults the algorithm table", "no call")
		return
	}
	fromTable := func(v ssa.Value, what string) bool {
		col, _ := c.algCol(tab, v)
		return col == what
	}
	// the TBS marshal
	var marshal *ssa.Call
	for _, ci := range callsIn(fn) {
		if calleeFullName(ci) == "encoding/asn1.Marshal" {
			marshal = ci.(*ssa.Call)
		}
	}
	if marshal == nil {
		r.Bad("tbs-marshal|"+fk, c.FnPos(fn), "asn1.Marshal of the TBSCertificate", "none")
		return
	}
	out := "new(cert.Certificate)@" + fk
	tbsOK := false
	if u, ok := unwrapIface(marshal.Call.Args[0]).(*ssa.UnOp); ok {
		if fa, ok := u.X.(*ssa.FieldAddr); ok && fieldOfAddr(fa).Name() == "TBSCertificate" {
			if al, ok := fa.X.(*ssa.Alloc); ok && strings.HasSuffix(ownerName(c, al.Type()), "cert.Certificate") {
				for _, ret := range returnsOf(fn) {
					if retResults(ret)[0] == ssa.Value(al) {
						tbsOK = true
					}
				}
			}
		}
	}
	r.Check(tbsOK, "tbs-marshal|"+fk, c.Pos(marshal.Pos()), "the bytes to sign are asn1.Marshal(out.TBSCertificate) of the certificate that is returned", marshal.Call.Args[0].String())
	var tbsBytes ssa.Value
	for _, ref := range *marshal.Referrers() {
		if ex, ok := ref.(*ssa.Extract); ok && ex.Index == 0 {
			tbsBytes = ex
		}
	}
	// hash.Write(b) and Sum(nil)
	var write, sum *ssa.Call
	for _, ci := range callsIn(fn) {
		cc := ci.Common()
		if cc.IsInvoke() && typeIs(cc.Value.Type(), "hash", "Hash") {
			switch cc.Method.Name() {
			case "Write":
				write = ci.(*ssa.Call)
			case "Sum":
				sum = ci.(*ssa.Call)
			}
		}
	}
	if write == nil || sum == nil {
		r.Bad("digest|"+fk, c.FnPos(fn), "hash.Write(tbs) followed by hash.Sum(nil)", "not found")
		return
	}
	r.Check(fromTable(write.Call.Value, "hash") && write.Call.Value == sum.Call.Value, "digest-hash|"+fk, c.Pos(sum.Pos()), "Write and Sum on the hash returned by the algorithm table", write.Call.Value.String())
	r.Check(write.Call.Args[0] == tbsBytes, "digest-input|"+fk, c.Pos(write.Pos()), "the hash is fed exactly the marshalled TBS bytes", strings.Join(pv.Origins(write.Call.Args[0]), ","))
	sumArgNil := false
	if k, ok := sum.Call.Args[0].(*ssa.Const); ok && k.Value == nil {
		sumArgNil = true
	}
	r.Check(sumArgNil && instrDominates(write, sum), "digest-sum|"+fk, c.Pos(sum.Pos()), "digest = Sum(nil) after the Write", sprintf("Sum(%s)", sum.Call.Args[0]))
	// signing calls: in the signing function or in a helper it calls (arguments mapped back through the call)
	pv.inFrames(fn, 1, func(f *ssa.Function) bool { return f.Pkg != fn.Pkg || f == tab }, func(fr frame) {
		toRoot := func(v ssa.Value) ssa.Value {
			if prm, ok := v.(*ssa.Parameter); ok && fr.site != nil {
				for i, q := range fr.fn.Params {
					if q == prm && i < len(fr.site.Common().Args) {
						return fr.site.Common().Args[i]
					}
				}
			}
			return v
		}
		for _, ci := range callsIn(fr.fn) {
			name := calleeFullName(ci)
			var keyArg, digestArg ssa.Value
			keyType := ""
			switch name {
			case "crypto/ecdsa.SignASN1":
				keyArg, digestArg, keyType = ci.Common().Args[1], ci.Common().Args[2], "*crypto/ecdsa.PrivateKey"
			case "crypto/rsa.SignPKCS1v15":
				keyArg, digestArg, keyType = ci.Common().Args[1], ci.Common().Args[3], "*crypto/rsa.PrivateKey"
				r.Check(fromTable(toRoot(ci.Common().Args[2]), "hashid"), "rsa-hash-id|"+fk, c.Pos(ci.Pos()), "the hash identifier given to RSA comes from the same table", ci.Common().Args[2].String())
			default:
				continue
			}
			short := name[strings.LastIndex(name, ".")+1:]
			expectSet(r, "signing-key|"+short, c.Pos(ci.Pos()), pv.here(keyArg), "the ISSUER context's private key, type-asserted", recv+".Issuer.PrivateKey.("+keyType+")")
			r.Check(toRoot(digestArg) == ssa.Value(sum), "signing-digest|"+short, c.Pos(ci.Pos()), "signs the digest computed above", digestArg.String())
			// comma-ok guard
			ex, _ := keyArg.(*ssa.Extract)
			guardOK := false
			if ex != nil {
				if ta, ok := ex.Tuple.(*ssa.TypeAssert); ok && ta.CommaOk {
					for _, g := range guardsOf(ci.Block()) {
						if gx, ok := g.Cond.(*ssa.Extract); ok && gx.Tuple == ssa.Value(ta) && gx.Index == 1 && g.Truth {
							// the !ok edge returns a non-nil error
							other := g.If.Block().Succs[1]
							errOK := true
							for b := range regionBlocks(other) {
								if ret, isRet := b.Instrs[len(b.Instrs)-1].(*ssa.Return); isRet {
									if !returnsNonNilError(ret) {
										errOK = false
									}
								} else {
									errOK = false
								}
							}
							guardOK = errOK
						}
					}
				}
			}
			// a helper's error must be returned by the signing function
			if guardOK && fr.site != nil {
				ev, _ := errValueOf(fr.site)
				if ev == nil {
					guardOK = false
				} else if okp, _ := propagates(c, ev, fr.site); !okp {
					guardOK = false
				}
			}
			r.Check(guardOK, "key-type-guard|"+short, c.Pos(ci.Pos()), "comma-ok assertion; a key of the wrong type returns an error (run fails)", sprintf("%v", guardOK))
		}
	})
	// TBS issuer store precedes the marshal; no TBS store after it
	issuerStored := false
	for _, fs := range storesIntoType(c, fn, "cert.TbsCertificate") {
		if fs.field == "Issuer" {
			o := pv.Origins(fs.val())
			if expectSet(r, "tbs-issuer|"+fk, c.Pos(fs.st.Pos()), o, "the certificate's issuer name is the issuer context's name", recv+".Issuer.IssuerDn") && instrDominates(fs.st, marshal) {
				issuerStored = true
			}
		}
		if canReachInstr(marshal, fs.st) {
			r.Bad("tbs-store-after-marshal|"+fk+"|"+fs.field, c.Pos(fs.st.Pos()), "nothing is written into the TBSCertificate after it was marshalled for signing", "store reachable after asn1.Marshal")
		}
	}
	r.Check(issuerStored, "tbs-issuer-before-marshal|"+fk, c.Pos(marshal.Pos()), "the issuer name store dominates the marshalling", sprintf("%v", issuerStored))
	// outer algorithm and signature value
	for _, fs := range storesIntoType(c, fn, "cert.Certificate") {
		switch {
		case fs.field == "SignatureAlgorithm.Algorithm":
			r.Check(fromTable(fs.val(), "oid"), "outer-oid|"+fk, c.Pos(fs.st.Pos()), "outer algorithm OID from the algorithm table", fs.val().String())
		case fs.field == "SignatureAlgorithm" && !fs.whole:
			r.Bad("outer-oid|"+fk, c.Pos(fs.st.Pos()), "outer algorithm identifier assembled from the algorithm table's OID", "assigned as a whole from "+fs.val().String())
		case fs.field == "SignatureValue":
			o := pv.Origins(fs.val())
			ok := len(o) == 1 && strings.Contains(o[0], "Bytes=crypto/ecdsa.SignASN1(") && strings.Contains(o[0], "crypto/rsa.SignPKCS1v15(")
			r.Check(ok, "signature-value|"+fk, c.Pos(fs.st.Pos()), "signatureValue bytes = the signature just computed", strings.Join(o, ","))
		}
	}
	// inner algorithm: sigAlgOids[alg], kept when preset
	for _, fs := range storesIntoType(c, fn, "cert.TbsCertificate") {
		if fs.field != "SignatureAlgorithm.Algorithm" {
			if fs.field == "SignatureAlgorithm" && !fs.whole {
				r.Bad("inner-oid|"+fk, c.Pos(fs.st.Pos()), "inner algorithm = table[alg] for the same alg parameter", "assigned as a whole from "+fs.val().String())
			}
			continue
		}
		okIdx := false
		if lk, ok := fs.val().(*ssa.Lookup); ok && lk.Index == ssa.Value(algParam) {
			okIdx = true
		}
		if fromTable(fs.val(), "oid") {
			okIdx = true // the OID the algorithm table function answered for the alg parameter (table-argument obligation)
		}
		r.Check(okIdx, "inner-oid|"+fk, c.Pos(fs.st.Pos()), "inner algorithm = table[alg] for the same alg parameter", sprintf("%v", okIdx))
		// guarded by Algorithm == nil (a manipulation preset is kept)
		kept := false
		for _, g := range guardsOf(fs.st.Block()) {
			if bin, ok := g.Cond.(*ssa.BinOp); ok && bin.Op == token.EQL && g.Truth {
				if f := fieldLoad(bin.X); f != nil && f.Name() == "Algorithm" {
					kept = true
				}
			}
		}
		r.Check(kept, "inner-preset-kept|"+fk, c.Pos(fs.st.Pos()), "the inner algorithm is only filled in when no manipulation preset it", sprintf("%v", kept))
	}
	// result
	for _, ret := range returnsOf(fn) {
		rr := retResults(ret)
		if k, ok := rr[0].(*ssa.Const); ok && k.Value == nil {
			continue
		}
		expectSet(r, "returns-signed|"+fk, c.Pos(ret.Pos()), pv.Origins(rr[0]), "the returned certificate is the one whose TBS was signed", out)
	}
	// callers pass the configured signature algorithm unchanged
	for _, f2 := range c.Funcs {
		for _, ci := range callsIn(f2) {
			if ci.Common().StaticCallee() != fn {
				continue
			}
			ao := pv.Origins(ci.Common().Args[1])
			ok := len(ao) == 1 && strings.HasPrefix(ao[0], "P(") && strings.HasSuffix(ao[0], ".SignatureAlgorithm")
			r.Check(ok, "algorithm-as-configured|"+c.FuncKey(f2), c.Pos(ci.Pos()), "the signing function is called with the configuration's SignatureAlgorithm itself (a mismatch with the key must surface as an error)", strings.Join(ao, " , "))
		}
	}
	// nobody else writes into a Certificate's TBS
	for _, f2 := range c.Funcs {
		if f2 == fn {
			continue
		}
		for _, b := range f2.Blocks {
			for _, ins := range b.Instrs {
				st, ok := ins.(*ssa.Store)
				if !ok {
					continue
				}
				cur := st.Addr
				for {
					fa, ok := cur.(*ssa.FieldAddr)
					if !ok {
						break
					}
					if fieldOfAddr(fa).Name() == "TBSCertificate" && strings.HasSuffix(ownerName(c, fa.X.Type()), "cert.Certificate") {
						r.Bad("tbs-store-outside-sign|"+c.FuncKey(f2), c.Pos(st.Pos()), "the signed part of a certificate is written only by the signing function", "store into Certificate.TBSCertificate")
					}
					cur = fa.X
				}
			}
		}
	}
}

func ruleSigAlgParams(c *Ctx, r *Rep) {
	fn, why := c.signFunc()
	if fn == nil {
		r.Undecided("anchor:sign-function", "", why)
		return
	}
	roles, _, why := c.keyTypeRoles()
	if roles == nil {
		r.Undecided("anchor:key-kind-roles", "", why)
		return
	}
	tab := c.resolveAlgFunc()
	fk := c.FuncKey(fn)
	var vals []ssa.Value
	var poss []token.Pos
	seenSt := map[string]bool{}
	for _, owner := range []string{"cert.Certificate", "cert.TbsCertificate"} {
		for _, fs := range storesIntoType(c, fn, owner) {
			if !strings.HasSuffix(fs.field, "SignatureAlgorithm.Parameters") {
				continue
			}
			k := sprintf("%p|%s", fs.st, fs.field[strings.LastIndex(fs.field, "SignatureAlgorithm"):])
			if seenSt[k] {
				continue // the same store seen through both owner types
			}
			seenSt[k] = true
			vals = append(vals, fs.val())
			poss = append(poss, fs.st.Pos())
		}
	}
	if !r.Check(len(vals) == 2, "parameter-sinks|"+fk, c.FnPos(fn), "Parameters is stored for the inner and the outer identifier", sprintf("%d stores", len(vals))) {
		return
	}
	r.Check(vals[0] == vals[1], "same-parameters|"+fk, c.Pos(poss[1]), "inner and outer identifier get the same Parameters value", sprintf("%s / %s", vals[0], vals[1]))
	for i, v := range vals {
		key := sprintf("null-iff-rsa|%s#%d", fk, i)
		phi, ok := v.(*ssa.Phi)
		if !ok || len(phi.Edges) != 2 {
			r.Undecided("shape:"+key, c.Pos(poss[i]), "Parameters is not a two-way choice on the key kind: "+v.String())
			continue
		}
		okRule, how := false, ""
		for e, val := range phi.Edges {
			other := phi.Edges[1-e]
			pred := phi.Block().Preds[e]
			if !isLoadOfGlobalNamed(val, "encoding/asn1", "NullRawValue") {
				continue
			}
			if k, isK := other.(*ssa.Const); !isK || k.Value != nil {
				how = "the alternative to NULL is not the absent (zero) value"
				continue
			}
			// pred must be reached exactly when keyKind == rsa
			for _, g := range guardsOf(pred) {
				bin, isBin := g.Cond.(*ssa.BinOp)
				if !isBin || bin.Op != token.EQL || !g.Truth {
					continue
				}
				k, isK := bin.Y.(*ssa.Const)
				if !isK {
					continue
				}
				if col, _ := c.algCol(tab, bin.X); col == "key" && roles[k.Int64()] == "rsa" {
					// and the other edge comes straight from the test's false edge
					if phi.Block().Preds[1-e] == g.If.Block() {
						okRule = true
					} else {
						how = "the non-RSA edge does not come straight from the key-kind test"
					}
				}
			}
			if !okRule && how == "" {
				how = "NULL is not selected by `table key kind == RSA`"
			}
		}
		r.Check(okRule, key, c.Pos(poss[i]), "asn1.NullRawValue iff the algorithm table says RSA (RFC 3279/4055), absent for ECDSA (RFC 5758)", how)
	}
}

func ruleProvKeyID(c *Ctx, r *Rep) {
	ev := c.evaluator()
	pv := c.newProv()
	cases := []struct{ oid, name, wantSuffix string }{
		{"2.5.29.14", "subjectKeyIdentifier", ".TbsCertificate.PublicKey.PublicKey.Bytes"},
		{"2.5.29.35", "authorityKeyIdentifier", ".Issuer.PublicKeyRaw"},
	}
	for _, cs := range cases {
		n := 0
		for _, fn := range constructorsStoring(c, ev, cs.oid) {
			// only the hashing constructors: those that hash, themselves or through a module helper func([]byte) []byte
			type digest struct {
				write, sum, newHash *ssa.Call
				input               []string  // what is hashed, in the constructor's frame
				result              ssa.Value // the digest, in the constructor's frame
			}
			find := func(f *ssa.Function) *digest {
				d := &digest{}
				for _, ci := range callsIn(f) {
					cc := ci.Common()
					if cc.IsInvoke() && typeIs(cc.Value.Type(), "hash", "Hash") {
						if cc.Method.Name() == "Write" {
							d.write, _ = ci.(*ssa.Call)
						} else if cc.Method.Name() == "Sum" {
							d.sum, _ = ci.(*ssa.Call)
						}
					}
					if calleeFullName(ci) == "(crypto.Hash).New" {
						d.newHash, _ = ci.(*ssa.Call)
					}
				}
				if d.write == nil && d.sum == nil {
					return nil
				}
				return d
			}
			// the one-call form: sha1.Sum(bits) (an array, sliced) - in the constructor or in a helper func([]byte) []byte
			oneCall := func(f *ssa.Function) *ssa.Call {
				for _, ci := range callsIn(f) {
					switch calleeFullName(ci) {
					case "crypto/sha1.Sum", "crypto/sha256.Sum256", "crypto/sha256.Sum224", "crypto/sha512.Sum512", "crypto/sha512.Sum384", "crypto/md5.Sum":
						if call, ok := ci.(*ssa.Call); ok {
							return call
						}
					}
				}
				return nil
			}
			if find(fn) == nil {
				var sumCall *ssa.Call
				var input []string
				if sc := oneCall(fn); sc != nil {
					sumCall, input = sc, pv.Origins(sc.Call.Args[0])
				} else {
					for _, ci := range callsIn(fn) {
						g := ci.Common().StaticCallee()
						if g == nil || !c.InModule(g) || g.Blocks == nil || len(g.Params) != 1 {
							continue
						}
						if sc := oneCall(g); sc != nil && sc.Call.Args[0] == ssa.Value(g.Params[0]) {
							sumCall, input = sc, pv.Origins(ci.Common().Args[0])
						}
					}
				}
				if sumCall != nil {
					n++
					fk := c.FuncKey(fn)
					hname := calleeFullName(sumCall)
					r.Check(hname == "crypto/sha1.Sum", "keyid-hash|"+cs.name+"|"+fk, c.Pos(sumCall.Pos()), "SHA-1 (RFC 5280 4.2.1.2 method 1)", hname)
					ok := len(input) == 1 && strings.HasPrefix(input[0], "P("+fk+".") && strings.HasSuffix(input[0], cs.wantSuffix)
					r.Check(ok, "keyid-input|"+cs.name+"|"+fk, c.Pos(sumCall.Pos()), "hash input = <context>"+cs.wantSuffix, strings.Join(input, ","))
					reaches := false
					// the digest as a slice: sum := sha1.Sum(x); sum[:]
					var digestSlice ssa.Value
					for _, ref := range *sumCall.Referrers() {
						if st, ok := ref.(*ssa.Store); ok && st.Val == ssa.Value(sumCall) {
							if al, ok := st.Addr.(*ssa.Alloc); ok {
								for _, r2 := range *al.Referrers() {
									if sl, ok := r2.(*ssa.Slice); ok && sl.Low == nil && sl.High == nil {
										digestSlice = sl
									}
								}
							}
						}
					}
					for _, ms := range marshalSitesOf(c, fn) {
						mo := strings.Join(pv.Origins(ms.arg), ",")
						if strings.Contains(mo, hname+"(") && !strings.Contains(mo, "+(") {
							reaches = true
						}
						if digestSlice != nil && ms.arg == digestSlice {
							reaches = true
						}
						// inside a literal: Marshal(T{KeyIdentifier: <digest>})
						for _, fv := range literalFields(c, ms.arg) {
							if digestSlice != nil && fv == digestSlice {
								reaches = true
							}
							if call, ok := fv.(*ssa.Call); ok && digestSlice != nil && call.Call.StaticCallee() == sumCall.Parent() && sumCall.Parent() != fn {
								all := true
								for _, ret := range returnsOf(sumCall.Parent()) {
									if retResults(ret)[0] != digestSlice {
										all = false
									}
								}
								if all {
									reaches = true
								}
							}
						}
						// through the helper: it returns the slice, the constructor marshals the call
						if call, ok := ms.arg.(*ssa.Call); ok && digestSlice != nil && call.Call.StaticCallee() == sumCall.Parent() {
							all := true
							for _, ret := range returnsOf(sumCall.Parent()) {
								if retResults(ret)[0] != digestSlice {
									all = false
								}
							}
							if all {
								reaches = true
							}
						}
					}
					r.Check(reaches, "keyid-value|"+cs.name+"|"+fk, c.FnPos(fn), "the marshalled identifier is the digest itself", sprintf("%v", reaches))
					continue
				}
			}
			d := find(fn)
			if d != nil && d.write != nil && d.sum != nil {
				d.input = pv.Origins(d.write.Call.Args[0])
				d.result = d.sum
			}
			if d == nil {
				for _, ci := range callsIn(fn) {
					g := ci.Common().StaticCallee()
					if g == nil || !c.InModule(g) || g.Blocks == nil || len(g.Params) != 1 || g.Signature.Results().Len() != 1 {
						continue
					}
					hd := find(g)
					if hd == nil {
						continue
					}
					d = hd
					if hd.write != nil && hd.sum != nil && hd.write.Call.Args[0] == ssa.Value(g.Params[0]) {
						// the helper returns its digest
						retOK := true
						for _, ret := range returnsOf(g) {
							if retResults(ret)[0] != ssa.Value(hd.sum) {
								retOK = false
							}
						}
						if retOK {
							d.input = pv.Origins(ci.Common().Args[0])
							d.result = ci.Value()
						}
					}
				}
			}
			if d == nil {
				continue
			}
			n++
			fk := c.FuncKey(fn)
			write, sum, newHash := d.write, d.sum, d.newHash
			if write == nil || sum == nil || newHash == nil || d.result == nil {
				r.Bad("keyid-shape|"+fk, c.FnPos(fn), "crypto.SHA1.New(), Write(key bits), Sum(nil)", "incomplete")
				continue
			}
			hname := ""
			if k, ok := newHash.Call.Args[0].(*ssa.Const); ok {
				hname = c.constName(newHash.Call.Args[0].Type(), k.Value)
			}
			r.Check(hname == "crypto.SHA1", "keyid-hash|"+cs.name+"|"+fk, c.Pos(newHash.Pos()), "SHA-1 (RFC 5280 4.2.1.2 method 1)", hname)
			o := d.input
			ok := len(o) == 1 && strings.HasPrefix(o[0], "P("+fk+".") && strings.HasSuffix(o[0], cs.wantSuffix)
			r.Check(ok, "keyid-input|"+cs.name+"|"+fk, c.Pos(write.Pos()), "hash input = <context>"+cs.wantSuffix, strings.Join(o, ","))
			sumNil := false
			if k, isK := sum.Call.Args[0].(*ssa.Const); isK && k.Value == nil {
				sumNil = true
			}
			r.Check(write.Call.Value == sum.Call.Value && ssa.Value(newHash) == write.Call.Value && instrDominates(write, sum) && sumNil, "keyid-flow|"+cs.name+"|"+fk, c.Pos(sum.Pos()), "one hash: New, Write, Sum(nil)", "ok")
			// the digest reaches the marshalled value unmodified
			reaches := false
			for _, ms := range marshalSitesOf(c, fn) {
				if ms.arg == d.result {
					reaches = true
				}
				mo := pv.Origins(ms.arg)
				so := pv.Origins(d.result)
				if len(mo) == 1 && len(so) == 1 && mo[0] == so[0] {
					reaches = true
				}
				// inside a literal: the field holds the digest and nothing else (not the digest on one way and something
				// else on another)
				for _, fv := range literalFields(c, ms.arg) {
					if fo := pv.Origins(fv); len(fo) == 1 && len(so) == 1 && fo[0] == so[0] {
						reaches = true
					}
				}
			}
			r.Check(reaches, "keyid-value|"+cs.name+"|"+fk, c.FnPos(fn), "the marshalled identifier is the digest itself", sprintf("%v", reaches))
		}
		if n == 0 {
			r.Bad("keyid-constructor|"+cs.name, "", "a hashing constructor for "+cs.name, "none found")
		}
	}
}

func ruleProvValidity(c *Ctx, r *Rep) {
	pv := c.newProv()
	// constructor: stores into TbsCertificate.Validity.NotBefore/NotAfter
	var ctor *ssa.Function
	for _, fn := range c.Funcs {
		for _, fs := range storesIntoType(c, fn, "cert.TbsCertificate") {
			if fs.field != "Validity.NotBefore" && fs.field != "Validity.NotAfter" {
				continue
			}
			ctor = fn
			o := pv.Origins(fs.val())
			ok := len(o) == 1 && strings.HasPrefix(o[0], "(time.Time).UTC(P(") && strings.HasSuffix(o[0], "))")
			r.Check(ok, "utc|"+c.FuncKey(fn)+"|"+fs.field, c.Pos(fs.st.Pos()), "value converted with time.Time.UTC()", strings.Join(o, ","))
		}
	}
	if ctor == nil {
		r.Undecided("anchor:validity-stores", "", "no store into TbsCertificate.Validity")
		return
	}
	// which parameter feeds which bound
	bound := map[string]int{}
	for _, fs := range storesIntoType(c, ctor, "cert.TbsCertificate") {
		if call, ok := fs.val().(*ssa.Call); ok && len(call.Call.Args) == 1 {
			for i, p := range ctor.Params {
				if call.Call.Args[0] == ssa.Value(p) {
					bound[fs.field] = i
				}
			}
		}
	}
	// callers pass Validity.From / Validity.Until of the configuration
	n := 0
	for _, fn := range c.Funcs {
		for _, ci := range callsIn(fn) {
			if ci.Common().StaticCallee() != ctor {
				continue
			}
			n++
			for field, want := range map[string]string{"Validity.NotBefore": ".Validity.From", "Validity.NotAfter": ".Validity.Until"} {
				i, ok := bound[field]
				if !ok {
					r.Bad("caller|"+c.FuncKey(fn)+"|"+field, c.Pos(ci.Pos()), "a parameter feeds "+field, "none")
					continue
				}
				o := pv.Origins(ci.Common().Args[i])
				ok2 := len(o) == 1 && strings.HasPrefix(o[0], "P(") && strings.HasSuffix(o[0], want)
				r.Check(ok2, "caller|"+c.FuncKey(fn)+"|"+field, c.Pos(ci.Pos()), field+" <- <configuration>"+want, strings.Join(o, ","))
			}
		}
	}
	if n == 0 {
		r.Undecided("floor:validity-callers", "", "the context constructor has no module caller")
	}
}

// textPreserving: library functions that select or decode a part of a string without rewriting the rest of it.
var textPreserving = map[string]bool{
	"strings.TrimSpace": true, "strings.Split": true, "strings.SplitN": true, "strings.Cut": true, "strings.TrimPrefix": true,
	"strings.TrimSuffix": true, "strings.Trim": true, "strings.TrimLeft": true, "strings.TrimRight": true, "strings.Index": true,
	"strings.ReplaceAll": true, "encoding/hex.DecodeString": true, "encoding/asn1.Unmarshal": true, "strings.Count": true,
	"(*regexp.Regexp).MatchString": true, "(*strings.Builder).String": true, "(*strings.Builder).WriteString": true,
	"(*strings.Builder).WriteByte": true, "(*strings.Builder).WriteRune": true,
}

var reCallName = regexp.MustCompile(`((?:\(\*?[A-Za-z0-9_/.]+\)\.)?[A-Za-z0-9_/]+(?:\.[A-Za-z0-9_]+)+)\(`)

// rewritingCalls lists the functions named in an origin that are not text-preserving; module functions are looked into.
func rewritingCalls(c *Ctx, pv *prov, origin string, depth int, seen map[string]bool) []string {
	var out []string
	for _, m := range reCallName.FindAllStringSubmatch(origin, -1) {
		name := m[1]
		if textPreserving[name] || seen[name] {
			continue
		}
		seen[name] = true
		// a module function: what does it return?
		var mf *ssa.Function
		for _, f := range c.Funcs {
			if shortName(c.Mod+"/"+strings.TrimPrefix(c.FuncKey(f), "")) == name || c.FuncKey(f) == name || strings.HasSuffix(name, "."+f.Name()) && strings.HasPrefix(c.FuncKey(f), name[:strings.Index(name, ".")+1]) {
				mf = f
			}
		}
		if mf != nil && depth < 3 {
			for _, ret := range returnsOf(mf) {
				if returnsNonNilError(ret) {
					continue
				}
				for _, o := range pv.Origins(retResults(ret)[0]) {
					out = append(out, rewritingCalls(c, pv, o, depth+1, seen)...)
				}
			}
			continue
		}
		out = append(out, name)
	}
	return out
}

func ruleProvSubject(c *Ctx, r *Rep) {
	pv := c.newProv()
	// the text of a subject attribute value is a part of what was written: nothing on the way from the subject string to
	// the attribute value rewrites it (case, inner white space, normalisation)
	for _, fn := range c.Funcs {
		nVal := 0
		for _, b := range fn.Blocks {
			for _, ins := range b.Instrs {
				st, ok := ins.(*ssa.Store)
				if !ok {
					continue
				}
				fa, ok := st.Addr.(*ssa.FieldAddr)
				if !ok || fieldOfAddr(fa).Name() != "Value" || !typeIs(fa.X.Type().Underlying().(*types.Pointer).Elem(), "crypto/x509/pkix", "AttributeTypeAndValue") {
					continue
				}
				nVal++
				var bad []string
				for _, o := range pv.Origins(st.Val) {
					if !strings.Contains(o, "P(") {
						continue // constants (default subject)
					}
					bad = append(bad, rewritingCalls(c, pv, o, 0, map[string]bool{})...)
				}
				r.Check(len(bad) == 0, sprintf("subject-value-text|%s#%d", c.FuncKey(fn), nVal), c.Pos(st.Pos()), "the value is a part of the subject string as written (split, trimmed at the ends, or hex-decoded): never rewritten", strings.Join(uniq(bad), ", "))
			}
		}
	}
	body := c.Func("generator", "BuildCertBody")
	if body == nil {
		r.Undecided("anchor:BuildCertBody", "", "not found")
		return
	}
	fk := c.FuncKey(body)
	cfg := "P(" + fk + "." + body.Params[0].Name() + ")"
	// subject handed to the context constructor
	for _, ci := range callsIn(body) {
		f := ci.Common().StaticCallee()
		if f == nil || !c.InModule(f) || len(ci.Common().Args) < 1 {
			continue
		}
		if typeIs(ci.Common().Args[0].Type(), "crypto/x509/pkix", "RDNSequence") {
			expectSet(r, "subject|"+fk, c.Pos(ci.Pos()), pv.Origins(ci.Common().Args[0]), "the context's subject is the configuration's subject", cfg+".Subject")
			// and the constructor stores it as the TBS subject
			ok := false
			for _, fs := range storesIntoType(c, f, "cert.TbsCertificate") {
				if fs.field != "Subject" {
					continue
				}
				if fs.val() == ssa.Value(f.Params[0]) {
					ok = true
				}
				// the argument, or the default subject when none is given (a phi of the two)
				for _, pe := range phiEdges(fs.val(), nil) {
					if pe.Val == ssa.Value(f.Params[0]) {
						ok = true
					}
				}
			}
			r.Check(ok, "subject-stored|"+c.FuncKey(f), c.FnPos(f), "the constructor stores its subject argument as the TBS subject", sprintf("%v", ok))
		}
	}
	// serial and unique ids
	for _, b := range body.Blocks {
		for _, ins := range b.Instrs {
			st, ok := ins.(*ssa.Store)
			if !ok {
				continue
			}
			fa, ok := st.Addr.(*ssa.FieldAddr)
			if !ok {
				continue
			}
			name := fieldOfAddr(fa).Name()
			switch name {
			case "SerialNumber":
				o := pv.Origins(st.Val)
				expectSet(r, "serial|"+fk, c.Pos(st.Pos()), o, "configured serial", "math/big.NewInt("+cfg+".SerialNumber)")
				guarded := false
				for _, g := range guardsOf(b) {
					if bin, ok := g.Cond.(*ssa.BinOp); ok && bin.Op == token.NEQ && g.Truth {
						if f := fieldLoad(bin.X); f != nil && f.Name() == "SerialNumber" {
							if k, ok := bin.Y.(*ssa.Const); ok && k.Int64() == 0 {
								guarded = true
							}
						}
					}
				}
				r.Check(guarded, "serial-guard|"+fk, c.Pos(st.Pos()), "only a non-zero configured serial replaces the freshly drawn one", sprintf("%v", guarded))
			case "IssuerUniqueId", "SubjectUniqueId":
				expectSet(r, "unique-id|"+fk+"|"+name, c.Pos(st.Pos()), pv.Origins(st.Val), "like-named configuration field", cfg+"."+name)
			}
		}
	}
	// the YAML layer: initCertificate fills the like-named fields from the like-named strings
	init := c.Func("generator/config/v1", "initCertificate")
	if init == nil {
		r.Undecided("anchor:initCertificate", "", "not found")
		return
	}
	ik := c.FuncKey(init)
	yaml := "P(" + ik + "." + init.Params[0].Name() + ")"
	for _, fs := range storesIntoType(c, init, "config.CertificateContent") {
		switch fs.field {
		case "SerialNumber", "Profile", "Alias", "Issuer":
			expectSet(r, "yaml|"+fs.field, c.Pos(fs.st.Pos()), pv.Origins(fs.val()), "like-named YAML field", yaml+"."+fs.field)
		case "Subject":
			ok := false
			if ex, isEx := fs.val().(*ssa.Extract); isEx && ex.Index == 0 {
				if call, isCall := ex.Tuple.(*ssa.Call); isCall && call.Call.StaticCallee() != nil && typeIs(call.Call.StaticCallee().Signature.Results().At(0).Type(), "crypto/x509/pkix", "RDNSequence") {
					ao := pv.Origins(call.Call.Args[0])
					ok = len(ao) == 1 && ao[0] == yaml+".Subject"
				}
			}
			r.Check(ok, "yaml|Subject", c.Pos(fs.st.Pos()), "the subject parser applied to <yaml>.Subject", fs.val().String())
		case "IssuerUniqueId.Bytes", "SubjectUniqueId.Bytes":
			name := strings.TrimSuffix(fs.field, ".Bytes")
			o := pv.Origins(fs.val())
			ok := false
			for _, x := range o {
				if strings.Contains(x, yaml+"."+name+"|") || strings.Contains(x, yaml+"."+name+")") {
					ok = true
				}
			}
			for _, x := range o {
				if strings.Contains(x, yaml+"."+otherUID(name)) {
					ok = false
				}
			}
			r.Check(ok, "yaml|"+fs.field, c.Pos(fs.st.Pos()), "decoded from <yaml>."+name+" only", strings.Join(o, ","))
		case "IssuerUniqueId", "SubjectUniqueId":
			// the whole BIT STRING from a helper applied to the like-named YAML string
			if fs.whole {
				continue // listed again field by field
			}
			o := pv.Contents(fs.val())
			ok := false
			for _, x := range o {
				if strings.Contains(x, yaml+"."+fs.field) {
					ok = true
				}
			}
			for _, x := range o {
				if strings.Contains(x, yaml+"."+otherUID(fs.field)) {
					ok = false
				}
			}
			r.Check(ok, "yaml|"+fs.field, c.Pos(fs.st.Pos()), "decoded from <yaml>."+fs.field+" only", strings.Join(o, ","))
			// a unique identifier is carried whole: the helper that wraps the bytes says 8 bits per byte, it does not trim
			// (trailing zero bits belong to a named-bit list, not to an identifier)
			{
				v := fs.val()
				if ex, isEx := v.(*ssa.Extract); isEx {
					v = ex.Tuple
				}
				if call, isCall := v.(*ssa.Call); isCall {
					var scan func(h *ssa.Function, depth int) (found, whole bool)
					scan = func(h *ssa.Function, depth int) (bool, bool) {
						if h == nil || !c.InModule(h) || h.Blocks == nil || depth > 2 {
							return false, false
						}
						found, whole := false, true
						for _, b := range h.Blocks {
							for _, ins := range b.Instrs {
								st, ok := ins.(*ssa.Store)
								if !ok {
									continue
								}
								fa, ok := st.Addr.(*ssa.FieldAddr)
								if !ok || fieldOfAddr(fa).Name() != "BitLength" || !strings.HasSuffix(ownerName(c, fa.X.Type()), "asn1.BitString") {
									continue
								}
								found = true
								okLen := false
								if bin, isBin := st.Val.(*ssa.BinOp); isBin && bin.Op == token.MUL {
									for _, pair := range [][2]ssa.Value{{bin.X, bin.Y}, {bin.Y, bin.X}} {
										if _, isLen := lenOperand(pair[0]); isLen {
											if k, isK := pair[1].(*ssa.Const); isK && k.Value != nil && k.Int64() == 8 {
												okLen = true
											}
										}
									}
								}
								if !okLen {
									whole = false
								}
							}
						}
						if !found {
							for _, ci := range callsIn(h) {
								if f2, w2 := scan(ci.Common().StaticCallee(), depth+1); f2 {
									return true, w2
								}
							}
						}
						return found, whole
					}
					if found, whole := scan(call.Call.StaticCallee(), 0); found {
						r.Check(whole, "yaml|"+fs.field+".BitLength", c.Pos(fs.st.Pos()), "BitLength = len(bytes) * 8 in the helper that wraps the identifier", sprintf("%v", whole))
					}
				}
			}
		case "IssuerUniqueId.BitLength", "SubjectUniqueId.BitLength":
			// 8 * len(b) of the same bytes
			ok := false
			if bin, isBin := fs.val().(*ssa.BinOp); isBin && bin.Op == token.MUL {
				if k, isK := bin.Y.(*ssa.Const); isK && k.Int64() == 8 {
					if call, isCall := bin.X.(*ssa.Call); isCall {
						if bi, isB := call.Call.Value.(*ssa.Builtin); isB && bi.Name() == "len" {
							ok = true
						}
					}
				}
			}
			r.Check(ok, "yaml|"+fs.field, c.Pos(fs.st.Pos()), "BitLength = len(bytes) * 8", fs.val().String())
		}
	}
	requireObligations(r, c.FnPos(init), "subject|", "subject-stored|", "serial|", "unique-id|*|IssuerUniqueId", "unique-id|*|SubjectUniqueId",
		"yaml|SerialNumber", "yaml|Subject", "yaml|Alias", "yaml|Issuer", "yaml|Profile", "=yaml|IssuerUniqueId OR =yaml|IssuerUniqueId.Bytes", "=yaml|SubjectUniqueId OR =yaml|SubjectUniqueId.Bytes")
}

// requireObligations: each of the named flows was found at all (a flow that is not there produces no obligation to fail).
func requireObligations(r *Rep, pos string, subs ...string) {
	for _, sub := range subs {
		found := false
		for _, alt := range strings.Split(sub, " OR ") {
			pre, suf, wild := alt, "", false
			if i := strings.Index(alt, "*"); i >= 0 {
				pre, suf, wild = alt[:i], alt[i+1:], true
			}
			exact := strings.HasPrefix(alt, "=")
			for _, o := range r.Obs {
				switch {
				case exact:
					found = found || o.Key == alt[1:]
				case wild:
					found = found || strings.HasPrefix(o.Key, pre) && strings.HasSuffix(o.Key, suf)
				default:
					found = found || strings.Contains(o.Key, alt)
				}
			}
		}
		if !found {
			r.Bad("present|"+sub, pos, "the flow exists ("+sub+")", "no such store found")
		}
	}
}

func otherUID(n string) string {
	if n == "IssuerUniqueId" {
		return "SubjectUniqueId"
	}
	return "IssuerUniqueId"
}

func ruleProvManip(c *Ctx, r *Rep) {
	pv := c.newProv()
	// (1) YAML keys -> Manipulations fields: the method with a *CertificateContent parameter storing into .Manipulations
	var apply *ssa.Function
	for _, fn := range c.Funcs {
		for _, fs := range storesIntoType(c, fn, "config.CertificateContent") {
			if strings.HasPrefix(fs.field, "Manipulations.") && fn.Signature.Recv() != nil {
				apply = fn
			}
		}
	}
	if apply == nil {
		r.Undecided("anchor:manipulation-parser", "", "no method stores into CertificateContent.Manipulations")
		return
	}
	ak := c.FuncKey(apply)
	recvT := apply.Params[0].Type()
	st, _ := derefStruct(recvT)
	jsonOf := map[string]string{} // Go field -> yaml key
	if st != nil {
		for i := 0; i < st.NumFields(); i++ {
			jsonOf[st.Field(i).Name()] = jsonName(st.Tag(i), st.Field(i).Name())
		}
	}
	wantKey := map[string]string{
		"Manipulations.Version":               ".version",
		"Manipulations.SignatureAlgorithm":    ".signatureAlgorithm",
		"Manipulations.SignatureValue":        ".signatureValue",
		"Manipulations.TbsSignature":          ".tbs.signature",
		"Manipulations.TbsPublicKeyAlgorithm": ".tbs.subjectPublicKey.algorithm",
		"Manipulations.TbsPublicKey":          ".tbs.subjectPublicKey.subjectPublicKey",
	}
	seen := map[string]bool{}
	reYaml := regexp.MustCompile(`P\(` + regexp.QuoteMeta(ak) + `\.[A-Za-z0-9_]+\)\.([A-Za-z0-9_]+)`)
	for _, fs := range storesIntoType(c, apply, "config.CertificateContent") {
		wk, ok := wantKey[fs.field]
		if !ok {
			continue
		}
		seen[fs.field] = true
		o := pv.Contents(fs.val())
		srcFields := map[string]bool{}
		for _, x := range o {
			for _, m := range reYaml.FindAllStringSubmatch(x, -1) {
				srcFields[jsonOf[m[1]]] = true
			}
		}
		r.Check(len(srcFields) == 1 && srcFields[wk], "yaml-key|"+fs.field, c.Pos(fs.st.Pos()), "filled from YAML key "+wk+" only", fmtSet(srcFields))
		// applied exactly when the key is given: the store lies behind a presence test of that key's field (non-empty
		// string, non-nil pointer), taken on the present side
		{
			present, how := false, "no presence test of the key on the way"
			for _, g := range guardsOf(fs.st.Block()) {
				var x ssa.Value
				var absent, isTest bool
				if v, empty, ok := emptyTestOf(g.Cond, g.Truth); ok {
					x, absent, isTest = v, empty, true
				} else if v, isNil, ok := nilTestOf(g.Cond, g.Truth); ok && !isErrorType(v.Type()) {
					x, absent, isTest = v, isNil, true
				}
				if !isTest {
					continue
				}
				for _, xo := range pv.Origins(x) {
					for _, m := range reYaml.FindAllStringSubmatch(xo, -1) {
						if jsonOf[m[1]] == wk {
							if absent {
								how = "behind the test that the key is absent"
							} else {
								present, how = true, "so"
							}
						}
					}
				}
			}
			r.Check(present, "yaml-when-given|"+fs.field, c.Pos(fs.st.Pos()), "applied behind a test that YAML key "+wk+" is given", how)
		}
		// kinds: OIDs through OidFromString, bytes through the raw reader with BitLength 8*len
		joined := strings.Join(o, ",")
		switch {
		case strings.HasSuffix(fs.field, "Version"):
		case strings.Contains(fs.field, "Algorithm") || fs.field == "Manipulations.TbsSignature":
			r.Check(strings.Contains(joined, "Algorithm=cert.OidFromString("), "yaml-kind|"+fs.field, c.Pos(fs.st.Pos()), "AlgorithmIdentifier{Algorithm: OidFromString(key)}", joined)
		default:
			r.Check(strings.Contains(joined, "Bytes=") && strings.Contains(joined, "BitLength=*("), "yaml-kind|"+fs.field, c.Pos(fs.st.Pos()), "BitString{Bytes: raw, BitLength: len*8}", joined)
		}
	}
	for f := range wantKey {
		if !seen[f] {
			r.Bad("yaml-key|"+f, c.FnPos(apply), "manipulation field is filled from its YAML key", "never stored")
		}
	}
	// (2) TBS manipulations in the body builder, before signing
	body := c.Func("generator", "BuildCertBody")
	signer := c.Func("generator", "SignCertBody")
	if body == nil || signer == nil {
		r.Undecided("anchor:BuildCertBody/SignCertBody", "", "not found")
		return
	}
	bk := c.FuncKey(body)
	cfg := "P(" + bk + "." + body.Params[0].Name() + ")"
	wantTbs := map[string]string{
		"Version":             cfg + ".Manipulations.Version",
		"SignatureAlgorithm":  cfg + ".Manipulations.TbsSignature",
		"PublicKey.Algorithm": cfg + ".Manipulations.TbsPublicKeyAlgorithm",
		"PublicKey.PublicKey": cfg + ".Manipulations.TbsPublicKey",
	}
	seenT := map[string]bool{}
	pv.inFrames(body, 2, nil, func(fr frame) {
		// a manipulated field keeps the manipulation: nothing stored into the same field afterwards (a snapshot of the
		// genuine value written back while the other half of a structure is manipulated) replaces it
		{
			all := storesIntoType(c, fr.fn, "cert.TbsCertificate")
			for _, m := range all {
				if _, ok := wantTbs[m.field]; !ok || m.whole {
					continue
				}
				if o := pv.here(m.val()); !(len(o) >= 1 && strings.Contains(strings.Join(o, ","), ".Manipulations.")) {
					continue
				}
				for _, o2 := range all {
					if o2.field != m.field || o2.whole || o2.st == m.st {
						continue
					}
					if strings.Contains(strings.Join(pv.here(o2.val()), ","), ".Manipulations.") {
						continue
					}
					if reachableFromInstr(m.st, o2.st) {
						r.Bad("manipulation-survives|"+m.field, c.Pos(o2.st.Pos()), "no later store replaces a manipulated TBS field", "a store of "+strings.Join(head(pv.here(o2.val()), 2), ",")+" can follow the manipulation")
					}
				}
			}
		}
		for _, fs := range storesIntoType(c, fr.fn, "cert.TbsCertificate") {
			w, ok := wantTbs[fs.field]
			if !ok {
				continue // serial, unique ids, request key: PROV-SUBJECT / PROV-KEY
			}
			if o := pv.here(fs.val()); len(o) == 1 && !strings.Contains(o[0], ".Manipulations.") {
				continue // e.g. PublicKey from the request
			}
			seenT[fs.field] = true
			expectSet(r, "tbs-manipulation|"+fs.field, c.Pos(fs.st.Pos()), pv.here(fs.val()), "TBS field <- its manipulation", w)
			guarded := false
			for _, g := range guardsOf(fs.st.Block()) {
				if bin, ok := g.Cond.(*ssa.BinOp); ok && bin.Op == token.NEQ && g.Truth {
					if k, isK := bin.Y.(*ssa.Const); isK && k.Value == nil {
						go2 := pv.here(bin.X)
						if len(go2) == 1 && go2[0] == w {
							guarded = true
						}
					}
				}
			}
			r.Check(guarded, "tbs-manipulation-guard|"+fs.field, c.Pos(fs.st.Pos()), "applied only when that manipulation is configured (!= nil)", sprintf("%v", guarded))
		}
	})
	for f := range wantTbs {
		if !seenT[f] {
			r.Bad("tbs-manipulation|"+f, c.FnPos(body), "manipulation applied to TBS field "+f, "never stored")
		}
	}
	// (2b) between the manipulations and the encoding of the body nothing writes a manipulable field again: the signing
	// function calls no function of the module that stores into one (a key setter called "if the key is still missing"
	// would undo a manipulation to an empty key)
	if sf, _ := c.signFunc(); sf != nil {
		var writes func(f *ssa.Function, depth int, seen map[*ssa.Function]bool) string
		writes = func(f *ssa.Function, depth int, seen map[*ssa.Function]bool) string {
			if f == nil || seen[f] || depth > 2 || !c.InModule(f) || f.Blocks == nil {
				return ""
			}
			seen[f] = true
			for _, fs := range storesIntoType(c, f, "cert.TbsCertificate") {
				if fs.whole {
					continue
				}
				for field := range wantTbs {
					if fs.field == field || strings.HasPrefix(fs.field, field+".") || strings.HasPrefix(field, fs.field+".") {
						return c.FuncKey(f) + " stores into " + fs.field
					}
				}
			}
			for _, ci := range callsIn(f) {
				if w := writes(ci.Common().StaticCallee(), depth+1, seen); w != "" {
					return w
				}
			}
			return ""
		}
		n := 0
		for _, ci := range callsIn(sf) {
			g := ci.Common().StaticCallee()
			if g == nil || !c.InModule(g) || g == sf {
				continue
			}
			n++
			w := writes(g, 0, map[*ssa.Function]bool{})
			r.Check(w == "", sprintf("sign-calls-no-tbs-writer|%s#%d", c.FuncKey(sf), n), c.Pos(ci.Pos()), "the signing function calls nothing that stores into a field a manipulation may have set", w)
		}
		// the same in the body builder: once the manipulations are applied (in place, or by a helper), the builder
		// neither stores another value into such a field nor calls a function that does (the key is installed first)
		var sites []ssa.Instruction
		helpers := map[*ssa.Function]bool{}
		manipStore := func(f *ssa.Function) []ssa.Instruction {
			var out []ssa.Instruction
			for _, fs := range storesIntoType(c, f, "cert.TbsCertificate") {
				if _, ok := wantTbs[fs.field]; !ok || fs.whole {
					continue
				}
				v := fs.val()
				if strings.Contains(strings.Join(pv.Origins(v), ","), "Manipulations") || strings.Contains(strings.Join(pv.Origins(v), ","), "config.Manipulations") {
					out = append(out, fs.st)
				}
			}
			return out
		}
		sites = append(sites, manipStore(body)...)
		for _, ci := range callsIn(body) {
			g := ci.Common().StaticCallee()
			if g == nil || !c.InModule(g) || g.Blocks == nil {
				continue
			}
			takesManip := false
			for _, prm := range g.Params {
				if strings.HasSuffix(typeShort(c, prm.Type()), "config.Manipulations") || strings.HasSuffix(typeShort(c, prm.Type()), "config.CertificateContent") {
					takesManip = true
				}
			}
			if !takesManip {
				continue
			}
			for _, fs := range storesIntoType(c, g, "cert.TbsCertificate") {
				if _, ok := wantTbs[fs.field]; ok && !fs.whole {
					if o := strings.Join(pv.Origins(fs.val()), ","); strings.Contains(o, "P("+c.FuncKey(g)+".") {
						helpers[g] = true
						sites = append(sites, ci)
					}
				}
			}
		}
		k := 0
		reported := map[ssa.Instruction]bool{}
		for _, site := range sites {
			for _, ci := range callsIn(body) {
				g := ci.Common().StaticCallee()
				if g == nil || !c.InModule(g) || helpers[g] || ssa.Instruction(ci) == site || reported[ci] || !reachableFromInstr(site, ci) {
					continue
				}
				reported[ci] = true
				if w := writes(g, 0, map[*ssa.Function]bool{}); w != "" {
					k++
					r.Bad(sprintf("manipulation-survives|call#%d", k), c.Pos(ci.Pos()), "after the manipulations are applied the body builder calls nothing that stores into a manipulable field", w)
				}
			}
		}
	}
	// (3) outer manipulations after signing
	sk := c.FuncKey(signer)
	scfg := "P(" + sk + "." + signer.Params[1].Name() + ")"
	var signCall *ssa.Call
	for _, ci := range callsIn(signer) {
		if f, _ := c.signFunc(); f != nil && ci.Common().StaticCallee() == f {
			signCall = ci.(*ssa.Call)
		}
	}
	if signCall == nil {
		r.Bad("outer-manipulation|sign-call", c.FnPos(signer), "SignCertBody calls the signing function", "no call")
		return
	}
	expectSet(r, "sign-algorithm-argument|"+sk, c.Pos(signCall.Pos()), pv.Origins(signCall.Call.Args[1]), "signs with the configured signature algorithm", scfg+".SignatureAlgorithm")
	wantOuter := map[string]string{
		"SignatureAlgorithm": scfg + ".Manipulations.SignatureAlgorithm",
		"SignatureValue":     scfg + ".Manipulations.SignatureValue",
	}
	seenO := map[string]bool{}
	pv.inFrames(signer, 2, func(f *ssa.Function) bool { sf, _ := c.signFunc(); return f == sf }, func(fr frame) {
		for _, fs := range storesIntoType(c, fr.fn, "cert.Certificate") {
			w, ok := wantOuter[fs.field]
			if !ok {
				r.Bad("outer-manipulation|unexpected|"+fs.field, c.Pos(fs.st.Pos()), "only the two outer fields are written after signing", fs.field)
				continue
			}
			seenO[fs.field] = true
			expectSet(r, "outer-manipulation|"+fs.field, c.Pos(fs.st.Pos()), pv.here(fs.val()), "outer field <- its manipulation", w)
			after := false
			if fr.site == nil {
				after = instrDominates(signCall, fs.st)
			} else {
				// in a helper: the helper is called after the signing call, on the certificate it returned
				after = instrDominates(signCall, fr.site)
				signed := false
				for _, a := range fr.site.Common().Args {
					if ex, ok := a.(*ssa.Extract); ok && ex.Tuple == ssa.Value(signCall) && ex.Index == 0 {
						signed = true
					}
				}
				after = after && signed
			}
			r.Check(after, "outer-manipulation-after-sign|"+fs.field, c.Pos(fs.st.Pos()), "applied to the certificate returned by the signing call", "ok")
		}
	})
	for f := range wantOuter {
		if !seenO[f] {
			r.Bad("outer-manipulation|"+f, c.FnPos(signer), "manipulation applied to outer field "+f, "never stored")
		}
	}
	// (4) in the generation driver the body is built before it is signed
	for fn, cis := range c.funcsCalling(c.modPkg("generator") + ".SignCertBody") {
		for _, ci := range cis {
			dom := false
			for _, ci2 := range callsIn(fn) {
				if ci2.Common().StaticCallee() == body && instrDominates(ci2, ci) {
					dom = true
				}
			}
			r.Check(dom, "body-before-sign|"+c.FuncKey(fn), c.Pos(ci.Pos()), "BuildCertBody dominates SignCertBody (TBS manipulations are under the signature)", sprintf("%v", dom))
		}
	}
}

func ruleProvKey(c *Ctx, r *Rep) {
	pv := c.newProv()
	body := c.Func("generator", "BuildCertBody")
	if body == nil {
		r.Undecided("anchor:BuildCertBody", "", "not found")
		return
	}
	bk := c.FuncKey(body)
	pv.Opaque(body)
	prk, req := body.Params[1], body.Params[2]
	// guards of the three key sources
	type want struct{ prkNil, reqNil *bool }
	T, F := true, false
	prkO, reqO := "P("+bk+"."+prk.Name()+")", "P("+bk+"."+req.Name()+")"
	check := func(key string, ins ssa.Instruction, site ssa.CallInstruction, w want) {
		var gotPrk, gotReq *bool
		gs := guardsOf(ins.Block())
		if site != nil {
			gs = append(gs, guardsOf(site.Block())...)
		}
		for _, g := range gs {
			bin, ok := g.Cond.(*ssa.BinOp)
			if !ok {
				continue
			}
			k, isK := bin.Y.(*ssa.Const)
			if !isK || k.Value != nil {
				continue
			}
			isNil := (bin.Op == token.EQL) == g.Truth
			v := isNil
			xo := pv.here(bin.X)
			if len(xo) != 1 {
				continue
			}
			switch xo[0] {
			case prkO:
				gotPrk = &v
			case reqO:
				gotReq = &v
			}
		}
		eq := func(a, b *bool) bool { return (a == nil && b == nil) || (a != nil && b != nil && *a == *b) }
		show := func(p *bool) string {
			if p == nil {
				return "any"
			}
			if *p {
				return "nil"
			}
			return "set"
		}
		r.Check(eq(gotPrk, w.prkNil) && eq(gotReq, w.reqNil), key, c.Pos(ins.Pos()), "reached exactly when key is "+show(w.prkNil)+" and request is "+show(w.reqNil), "key "+show(gotPrk)+", request "+show(gotReq))
	}
	n := 0
	samePkg := func(f *ssa.Function) bool { return f.Pkg != body.Pkg } // helpers of the body builder live in its package
	pv.inFrames(body, 2, samePkg, func(fr frame) {
		for _, ci := range callsIn(fr.fn) {
			f := ci.Common().StaticCallee()
			if f == nil {
				continue
			}
			switch f.Name() {
			case "GeneratePrivateKey":
				n++
				check("generate-only-without-key-and-request|"+bk, ci, fr.site, want{&T, &T})
				expectSet(r, "generate-algorithm|"+bk, c.Pos(ci.Pos()), pv.here(ci.Common().Args[1]), "generated with the configured key algorithm", "P("+bk+"."+body.Params[0].Name()+").KeyAlgorithm")
			case "SetPrivateKey":
				n++
				check("reuse-existing-key|"+bk, ci, fr.site, want{&F, nil})
				ao := pv.here(ci.Common().Args[1])
				r.Check(len(ao) == 1 && ao[0] == prkO, "reuse-existing-key-argument|"+bk, c.Pos(ci.Pos()), "the stored key itself", strings.Join(ao, ","))
			}
		}
		for _, b := range fr.fn.Blocks {
			for _, ins := range b.Instrs {
				st, ok := ins.(*ssa.Store)
				if !ok {
					continue
				}
				if fa, ok := st.Addr.(*ssa.FieldAddr); ok && fieldOfAddr(fa).Name() == "PublicKey" && strings.HasSuffix(ownerName(c, fa.X.Type()), "TbsCertificate") {
					o := pv.here(st.Val)
					if len(o) == 1 && strings.HasSuffix(o[0], ".TbsCsr.PublicKey") {
						n++
						check("request-key-only-without-key|"+bk, st, fr.site, want{&T, &F})
						expectSet(r, "request-key|"+bk, c.Pos(st.Pos()), o, "the request's public key", reqO+".TbsCsr.PublicKey")
					}
				}
			}
		}
	})
	if n < 3 {
		r.Undecided("floor:key-sources|"+bk, c.FnPos(body), sprintf("%d of the three key sources found (generate, reuse, request)", n))
	}
	// SetPrivateKey stores its argument and derives the SPKI from it
	if sp := c.Method("generator/cert", "CertificateContext", "SetPrivateKey"); sp != nil {
		sk := c.FuncKey(sp)
		okStore := false
		for _, b := range sp.Blocks {
			for _, ins := range b.Instrs {
				if st, ok := ins.(*ssa.Store); ok {
					if fa, ok := st.Addr.(*ssa.FieldAddr); ok && fieldOfAddr(fa).Name() == "PrivateKey" && st.Val == ssa.Value(sp.Params[1]) {
						okStore = true
					}
				}
			}
		}
		r.Check(okStore, "set-key-stores-argument|"+sk, c.FnPos(sp), "ctx.PrivateKey = the key given", sprintf("%v", okStore))
		for _, fs := range storesIntoType(c, sp, "cert.TbsCertificate") {
			if fs.field == "PublicKey.PublicKey.Bytes" {
				o := strings.Join(pv.Origins(fs.val()), ",")
				r.Check(strings.Contains(o, "P("+sk+"."+sp.Params[1].Name()+")"), "spki-from-same-key|"+sk, c.Pos(fs.st.Pos()), "subjectPublicKey bits derived from the key given", o)
			}
		}
	} else {
		r.Undecided("anchor:SetPrivateKey", "", "not found")
	}
	// the generation driver passes the entity's own stored key and request, and returns them
	for fn, cis := range c.funcsCalling(c.modPkg("generator") + ".BuildCertBody") {
		fk := c.FuncKey(fn)
		for _, ci := range cis {
			cfgO := pv.Origins(ci.Common().Args[0])
			okCfg := len(cfgO) == 1 && strings.HasPrefix(cfgO[0], "I:db.Database.GetConfig(") && strings.HasSuffix(cfgO[0], ")#0")
			r.Check(okCfg, "driver-config-unaltered|"+fk, c.Pos(ci.Pos()), "the body is built from the stored configuration itself (key algorithm, signature algorithm and everything else as configured)", strings.Join(head(cfgO, 3), " , "))
			if len(cfgO) != 1 {
				continue
			}
			// the configuration handed to the signing step is the one the body was built from (the subject's own
			// signature algorithm, not the issuer's or a default)
			for _, sci := range callsIn(fn) {
				if sf := sci.Common().StaticCallee(); sf != nil && sf == c.Func("generator", "SignCertBody") && len(sci.Common().Args) >= 2 {
					so := pv.Origins(sci.Common().Args[1])
					r.Check(len(so) == 1 && so[0] == cfgO[0], "driver-signs-with-same-config|"+fk, c.Pos(sci.Pos()), "the signing step receives the configuration the body was built from: "+cfgO[0], strings.Join(head(so, 3), " , "))
				}
			}
			own := strings.Replace(cfgO[0], "GetConfig(", "GetBuildArtifact(", 1)
			for i, part := range []string{"PrivateKey", "Request"} {
				o := pv.Origins(ci.Common().Args[i+1])
				ok := len(o) >= 1
				for _, x := range o {
					if x != own+"."+part && !strings.HasPrefix(x, "new(db.BuildArtifact)@") && x != "zero(complit)."+part { // an empty artifact made on the spot (here or in the helper that fetches) has no such part
						ok = false
					}
				}
				r.Check(ok, "driver-passes-stored|"+fk+"|"+part, c.Pos(ci.Pos()), part+" of GetBuildArtifact(<same alias as the configuration>)", strings.Join(o, " , "))
			}
			// returned artifact
			for _, ret := range returnsOf(fn) {
				rr := retResults(ret)
				al, ok := rr[0].(*ssa.Alloc)
				if !ok {
					continue
				}
				if v := storedTo(al, "Request"); v != nil {
					o := pv.Origins(v)
					ok := len(o) >= 1
					for _, x := range o {
						if x != own+".Request" && !strings.HasPrefix(x, "new(db.BuildArtifact)@") && x != "zero(complit).Request" {
							ok = false
						}
					}
					r.Check(ok, "driver-returns-request|"+fk, c.Pos(ret.Pos()), "the incoming request stays in the artifact", strings.Join(o, " , "))
				} else {
					r.Bad("driver-returns-request|"+fk, c.Pos(ret.Pos()), "the incoming request stays in the artifact", "Request not set")
				}
				if v := storedTo(al, "PrivateKey"); v != nil {
					o := strings.Join(pv.Origins(v), ",")
					bo := strings.Join(pv.Origins(ci.(*ssa.Call)), ",")
					r.Check(o == bo+"#0.PrivateKey" || (strings.Contains(o, "CertificateContext") && strings.HasSuffix(o, ".PrivateKey")), "driver-returns-key|"+fk, c.Pos(ret.Pos()), "the context's private key (reused or generated)", o)
				} else {
					r.Bad("driver-returns-key|"+fk, c.Pos(ret.Pos()), "the context's private key", "PrivateKey not set")
				}
			}
		}
	}
	// export writes each part iff present
	for _, fn := range c.Funcs {
		writers := 0
		for _, ci := range callsIn(fn) {
			f := ci.Common().StaticCallee()
			if f == nil || !c.InModule(f) || !(f.Name() == "WritePem" || f.Name() == "WritePrivateKeyToPem") {
				continue
			}
			writers++
			// guarded by the corresponding part != nil
			part := ""
			for _, g := range guardsOf(ci.Block()) {
				if bin, ok := g.Cond.(*ssa.BinOp); ok && bin.Op == token.NEQ && g.Truth {
					if pl, ok := partLoadOf(bin.X); ok {
						part = pl.field.Name()
					} else if f := fieldLoad(bin.X); f != nil {
						part = f.Name()
					}
				}
			}
			wantPart := map[string]string{"WritePrivateKeyToPem": "PrivateKey"}[f.Name()]
			if wantPart == "" {
				if strings.Contains(c.FuncKey(f), "CertificateRequest") {
					wantPart = "Request"
				} else {
					wantPart = "Certificate"
				}
			}
			r.Check(part == wantPart, "export-iff-present|"+c.FuncKey(fn)+"|"+wantPart, c.Pos(ci.Pos()), "written only when that part is present (no key is invented for a request-only entity)", "guard on "+part)
		}
		_ = writers
	}
}

func ruleProvRaw(c *Ctx, r *Rep) {
	pv := c.newProv()
	// the raw reader: func(string) ([]byte, error) calling base64 decoding
	var fn *ssa.Function
	for _, f := range c.Funcs {
		if f.Parent() != nil || len(f.Params) != 1 || !isString(f.Params[0].Type()) {
			continue
		}
		res := f.Signature.Results()
		if res.Len() != 2 || !isErrorType(res.At(1).Type()) {
			continue
		}
		if sl, ok := res.At(0).Type().Underlying().(*types.Slice); !ok || !types.Identical(sl.Elem(), types.Typ[types.Byte]) {
			continue
		}
		for _, ci := range callsIn(f) {
			if strings.Contains(calleeFullName(ci), "encoding/base64") {
				fn = f
			}
		}
	}
	if fn == nil {
		r.Undecided("anchor:raw-reader", "", "no func(string) ([]byte, error) using encoding/base64")
		return
	}
	fk := c.FuncKey(fn)
	s := "P(" + fk + "." + fn.Params[0].Name() + ")"
	ev := c.evaluator()
	nOK := 0
	for _, ret := range returnsOf(fn) {
		rr := retResults(ret)
		if k, ok := rr[0].(*ssa.Const); ok && k.Value == nil {
			continue
		}
		o := pv.Origins(rr[0])
		// which prefix guards this return?
		guard := ""
		for _, g := range guardsOf(ret.Block()) {
			switch x := g.Cond.(type) {
			case *ssa.Call:
				if calleeFullName(x) == "strings.HasPrefix" && g.Truth && x.Call.Args[0] == ssa.Value(fn.Params[0]) {
					if d := c.describe(ev, x.Call.Args[1], 0); d.IsConst() {
						guard, _ = d.Str()
					}
				}
			case *ssa.BinOp:
				if x.Op == token.EQL && g.Truth && x.X == ssa.Value(fn.Params[0]) {
					if d := c.describe(ev, x.Y, 0); d.IsConst() {
						guard, _ = d.Str()
					}
				}
			case *ssa.Extract:
				// rest, found := strings.CutPrefix(s, prefix)
				if call, ok := x.Tuple.(*ssa.Call); ok && x.Index == 1 && g.Truth && calleeFullName(call) == "strings.CutPrefix" && call.Call.Args[0] == ssa.Value(fn.Params[0]) {
					if d := c.describe(ev, call.Call.Args[1], 0); d.IsConst() {
						guard, _ = d.Str()
					}
				}
			}
			if guard != "" {
				break
			}
		}
		joined := strings.Join(o, ",")
		switch guard {
		case "!binary:":
			want := "(*encoding/base64.Encoding).DecodeString(G(encoding/base64.StdEncoding)|strings.TrimPrefix(" + s + "|K(\"!binary:\")))#0"
			wantCut := "(*encoding/base64.Encoding).DecodeString(G(encoding/base64.StdEncoding)|strings.CutPrefix(" + s + "|K(\"!binary:\"))#0)#0"
			if len(o) == 1 && o[0] == wantCut {
				want = wantCut
			}
			if expectSet(r, "binary|"+fk, c.Pos(ret.Pos()), o, "StdEncoding.DecodeString of everything after the prefix", want) {
				nOK++
			}
		case "!empty":
			r.Check(joined == "make([]byte)" || joined == "new([0]byte)@"+fk+"[:]", "empty|"+fk, c.Pos(ret.Pos()), "an empty byte string that is not nil (a nil value in an optional certificate field means absent)", joined)
			nOK++
		case "!null":
			r.Check(joined == "G(encoding/asn1.NullBytes)", "null|"+fk, c.Pos(ret.Pos()), "asn1.NullBytes (05 00)", joined)
			nOK++
		default:
			r.Bad("raw-command|"+fk, c.Pos(ret.Pos()), "a value returned under one of the three raw commands", "guard "+guard+": "+joined)
		}
	}
	// errors of the decoder are returned
	for _, ci := range callsIn(fn) {
		if strings.Contains(calleeFullName(ci), "DecodeString") {
			e, _ := errValueOf(ci)
			if e == nil {
				r.Bad("binary-error|"+fk, c.Pos(ci.Pos()), "malformed base64 is an error", "discarded")
				continue
			}
			ok, how := propagates(c, e, ci)
			r.Check(ok, "binary-error|"+fk, c.Pos(ci.Pos()), "malformed base64 is an error", how)
		}
	}
	if nOK < 3 {
		r.Undecided("floor:raw-commands|"+fk, c.FnPos(fn), sprintf("%d of the three raw commands recognised", nOK))
	}
	// what the reader hands back stays what it is: on its way into the configuration an empty value is not turned into
	// nil (the unique ids are optional fields: nil means absent)
	for _, f2 := range c.Funcs {
		for _, ci := range callsIn(f2) {
			if ci.Common().StaticCallee() != fn {
				continue
			}
			call, ok := ci.(*ssa.Call)
			if !ok {
				continue
			}
			key := "result-kept|" + c.FuncKey(f2) + "|" + strings.Join(pv.Origins(call.Call.Args[0]), ",")
			bad := ""
			seen := map[ssa.Value]bool{}
			var walk func(v ssa.Value, depth int)
			walk = func(v ssa.Value, depth int) {
				if v == nil || seen[v] || depth > 6 || v.Referrers() == nil {
					return
				}
				seen[v] = true
				for _, u := range *v.Referrers() {
					switch x := u.(type) {
					case *ssa.Extract:
						if x.Index == 0 || v != ssa.Value(call) {
							walk(x, depth)
						}
					case *ssa.Phi:
						walk(x, depth)
					case *ssa.Slice:
						walk(x, depth)
					case *ssa.ChangeType:
						walk(x, depth)
					case *ssa.Store:
						if al, ok := x.Addr.(*ssa.Alloc); ok && x.Val == v && al.Referrers() != nil {
							for _, au := range *al.Referrers() {
								if ld, ok := au.(*ssa.UnOp); ok && ld.Op == token.MUL {
									walk(ld, depth)
								}
							}
						}
					case *ssa.Return:
						idx := -1
						for i, res := range x.Results {
							if res == v {
								idx = i
							}
						}
						for _, caller := range c.Funcs {
							for _, cj := range callsIn(caller) {
								if cj.Common().StaticCallee() != x.Parent() || cj.Value() == nil {
									continue
								}
								if x.Parent().Signature.Results().Len() == 1 {
									walk(cj.Value(), depth+1)
								} else if cj.Value().Referrers() != nil {
									for _, eu := range *cj.Value().Referrers() {
										if ex, ok := eu.(*ssa.Extract); ok && ex.Index == idx {
											walk(ex, depth+1)
										}
									}
								}
							}
						}
					case *ssa.Call:
						if bi, ok := x.Call.Value.(*ssa.Builtin); ok && bi.Name() == "append" {
							if len(x.Call.Args) == 2 && x.Call.Args[1] == v && x.Call.Args[0] != v {
								if k, isK := x.Call.Args[0].(*ssa.Const); isK && k.Value == nil {
									bad = sprintf("%s: append(nil, value...) yields nil for an empty value", c.Pos(x.Pos()))
								} else {
									walk(x, depth)
								}
							}
							continue
						}
						callee := x.Call.StaticCallee()
						if callee == nil {
							continue
						}
						switch calleeFullName(x) {
						case "bytes.Clone", "slices.Clone":
							walk(x, depth)
							continue
						}
						if c.InModule(callee) && callee.Blocks != nil {
							for i, a := range x.Call.Args {
								if a == v && i < len(callee.Params) {
									walk(callee.Params[i], depth+1)
								}
							}
						}
					}
				}
			}
			walk(call, 0)
			r.Check(bad == "", key, c.Pos(call.Pos()), "the value read is handed on as it is (copies keep an empty value non-nil)", bad)
		}
	}
}

func ruleFillBytes(c *Ctx, r *Rep) {
	pv := c.newProv()
	n := 0
	// a coordinate or scalar of a key is never written with big.Int.Bytes(): that drops leading zero octets, and the
	// point or key is one octet short once in 256 keys. FillBytes into the curve's width, or the library's Marshal.
	{
		k := 0
		for fn, cis := range c.funcsCalling("(*math/big.Int).Bytes") {
			for _, ci := range cis {
				o := strings.Join(pv.Origins(ci.Common().Args[0]), ",")
				keyPart := false
				for _, suf := range []string{".X", ".Y", ".D"} {
					for _, x := range strings.Split(o, ",") {
						if strings.HasSuffix(x, suf) && (strings.Contains(x, "PublicKey") || strings.Contains(x, "PrivateKey") || strings.Contains(x, "ecdsa")) {
							keyPart = true
						}
					}
				}
				if !keyPart {
					// by type: a field X, Y or D of an ecdsa key
					if ld, ok := ci.Common().Args[0].(*ssa.UnOp); ok && ld.Op == token.MUL {
						if fa, ok := ld.X.(*ssa.FieldAddr); ok {
							owner := ownerName(c, fa.X.Type())
							name := fieldOfAddr(fa).Name()
							if (name == "X" || name == "Y" || name == "D") && (strings.Contains(owner, "ecdsa.") || strings.Contains(owner, "elliptic.")) {
								keyPart = true
							}
						}
					}
				}
				if !keyPart {
					continue
				}
				k++
				r.Check(false, sprintf("fixed-width|%s#%d", c.FuncKey(fn), k), c.Pos(ci.Pos()), "key coordinates and scalars are written at the curve's fixed width (FillBytes, elliptic.Marshal)", "big.Int.Bytes() of "+o)
			}
		}
	}
	for fn, cis := range c.funcsCalling("(*math/big.Int).FillBytes") {
		for _, ci := range cis {
			n++
			fk := c.FuncKey(fn)
			// buffer = make([]byte, ceil(N.BitLen()/8)): the length expression (through helpers) is evaluated for every bit
			// length up to 1100 and compared with (x+7)/8
			ms, ok := ci.Common().Args[1].(*ssa.MakeSlice)
			sized := false
			if ok {
				var leaf *ssa.Call
				var leafOf ssa.Value
				var find func(v ssa.Value, bind map[*ssa.Parameter]ssa.Value, d int)
				find = func(v ssa.Value, bind map[*ssa.Parameter]ssa.Value, d int) {
					if d > 8 || v == nil {
						return
					}
					switch x := v.(type) {
					case *ssa.BinOp:
						find(x.X, bind, d+1)
						find(x.Y, bind, d+1)
					case *ssa.Convert:
						find(x.X, bind, d+1)
					case *ssa.Parameter:
						if a, ok := bind[x]; ok {
							find(a, nil, d+1)
						}
					case *ssa.Call:
						if calleeFullName(x) == "(*math/big.Int).BitLen" {
							leaf = x
							leafOf = x.Call.Args[0]
							if prm, isP := leafOf.(*ssa.Parameter); isP {
								if a, ok := bind[prm]; ok {
									leafOf = a // inside a helper: the number is what the caller handed in
								}
							}
							return
						}
						if g := x.Call.StaticCallee(); g != nil && c.InModule(g) && len(g.Blocks) == 1 {
							b2 := map[*ssa.Parameter]ssa.Value{}
							for i, q := range g.Params {
								if i < len(x.Call.Args) {
									b2[q] = x.Call.Args[i]
								}
							}
							if rets := returnsOf(g); len(rets) == 1 {
								find(retResults(rets[0])[0], b2, d+1)
							}
							// the leaf may be in the argument
							for _, a := range x.Call.Args {
								find(a, bind, d+1)
							}
						}
					}
				}
				find(ms.Len, nil, 0)
				if leaf != nil {
					o := strings.Join(pv.Origins(leafOf), ",")
					if strings.HasSuffix(o, ".N") {
						sized = true
						for x := int64(0); x <= 1100 && sized; x++ {
							got, okE := evalIntExpr(c, ms.Len, map[ssa.Value]int64{leaf: x}, nil, 0)
							if !okE || got != (x+7)/8 {
								sized = false
							}
						}
					}
				}
			}
			r.Check(sized, "scalar-width|"+fk, c.Pos(ci.Pos()), "buffer of (N.BitLen()+7)/8 bytes", sprintf("%v", sized))
			o := strings.Join(pv.Origins(ci.Common().Args[0]), ",")
			r.Check(strings.HasSuffix(o, ".D"), "scalar-source|"+fk, c.Pos(ci.Pos()), "the private scalar D", o)
			// the result is what is stored as the key bytes
			stored := false
			call := ci.(*ssa.Call)
			for _, ref := range *call.Referrers() {
				if st, ok := ref.(*ssa.Store); ok {
					if fa, ok := st.Addr.(*ssa.FieldAddr); ok && fieldOfAddr(fa).Name() == "PrivateKey" {
						stored = true
					}
				}
			}
			r.Check(stored, "scalar-stored|"+fk, c.Pos(ci.Pos()), "privateKey OCTET STRING = the fixed-width scalar (not D.Bytes())", sprintf("%v", stored))
		}
	}
	if n == 0 {
		r.Bad("scalar-fixed-width", "", "the EC private scalar is written with FillBytes", "no FillBytes call")
	}
	// reader: rejects k >= N exactly
	found := false
	for _, fn := range c.Funcs {
		for _, ci := range callsIn(fn) {
			if calleeFullName(ci) != "(*math/big.Int).Cmp" {
				continue
			}
			o1 := strings.Join(pv.Origins(ci.Common().Args[1]), ",")
			if !strings.Contains(o1, ".N") {
				continue
			}
			found = true
			fk := c.FuncKey(fn)
			r.Check(strings.HasSuffix(o1, ".N"), "range-bound|"+fk, c.Pos(ci.Pos()), "compared with the curve order N itself", o1)
			exact := !strings.Contains(o1, "Sub(") && !strings.Contains(o1, "Add(") && !strings.Contains(o1, "-(") && !strings.Contains(o1, "+(")
			r.Check(exact, "range-bound-unmodified|"+fk, c.Pos(ci.Pos()), "N is not adjusted (valid scalars are 1..N-1)", o1)
			// used as Cmp(...) >= 0 leading to an error
			call := ci.(*ssa.Call)
			okCmp := false
			for _, ref := range *call.Referrers() {
				bin, ok := ref.(*ssa.BinOp)
				if !ok {
					continue
				}
				k, isK := bin.Y.(*ssa.Const)
				if !isK || k.Value == nil {
					continue
				}
				// the comparison in any spelling (>= 0, > -1, < 0, == -1 negated …): decided by its value at -1, 0 and 1
				at := func(v int64) (bool, bool) {
					return cmpUnder(c, bin, map[ssa.Value]int64{ssa.Value(call): v})
				}
				lo, ok1 := at(-1)
				eq, ok2 := at(0)
				hi, ok3 := at(1)
				if !ok1 || !ok2 || !ok3 {
					continue
				}
				var outOfRangeOnTrue bool
				switch {
				case !lo && eq && hi:
					outOfRangeOnTrue = true // cmp >= 0
				case lo && !eq && !hi:
					outOfRangeOnTrue = false // cmp < 0
				default:
					continue
				}
				// the side on which the scalar is out of range leads straight to an error
				for _, r2 := range *bin.Referrers() {
					iff, isIf := r2.(*ssa.If)
					if !isIf {
						continue
					}
					idx := 1
					if outOfRangeOnTrue {
						idx = 0
					}
					if ret := exitAfter(iff.Block().Succs[idx]); ret != nil && returnsNonNilError(ret) {
						if other := exitAfter(iff.Block().Succs[1-idx]); other == nil || !returnsNonNilError(other) {
							okCmp = true
						}
					}
				}
			}
			r.Check(okCmp, "range-test|"+fk, c.Pos(ci.Pos()), "rejected iff k.Cmp(N) >= 0", sprintf("%v", okCmp))
			// what else the reader rejects: only what the reference reader (crypto/x509) rejects - a decoding error, a
			// wrong version, an unknown curve, a scalar out of range, non-zero padding. A key gopki can write (or any key
			// another tool wrote validly) must not be refused: a refused key counts as missing and is replaced.
			var other []string
			nRej := 0
			for _, ret := range returnsOf(fn) {
				if !returnsNonNilError(ret) {
					continue
				}
				gs := guardsOf(ret.Block())
				if len(gs) == 0 {
					continue
				}
				nRej++
				cond := gs[0].Cond
				for {
					if u, ok := cond.(*ssa.UnOp); ok && u.Op == token.NOT {
						cond = u.X
						continue
					}
					break
				}
				cause := ""
				if bin, ok := cond.(*ssa.BinOp); ok {
					if k, isK := bin.Y.(*ssa.Const); isK && k.Value == nil && isErrorType(bin.X.Type()) {
						cause = "an error handed on"
					} else if f := fieldLoad(bin.X); f != nil && f.Name() == "Version" {
						cause = "version"
					} else if cc, ok := bin.X.(*ssa.Call); ok && calleeFullName(cc) == "(*math/big.Int).Cmp" {
						cause = "scalar range"
					} else if u, ok := bin.X.(*ssa.UnOp); ok && u.Op == token.MUL {
						if ia, ok := u.X.(*ssa.IndexAddr); ok {
							if k, isK := ia.Index.(*ssa.Const); isK && k.Int64() == 0 {
								cause = "padding byte"
							}
						}
					}
				}
				if cause == "" {
					// a refinement of the message inside the region where decoding already failed
					for _, g := range gs {
						if x, isNil, ok := nilTestOf(g.Cond, g.Truth); ok && isErrorType(x.Type()) && !isNil {
							cause = "an error handed on"
						}
					}
				}
				if cause == "" {
					other = append(other, c.Pos(ret.Pos())+": "+cond.String())
				}
			}
			r.Check(len(other) == 0 && nRej >= 3, "reader-rejections|"+fk, c.FnPos(fn), "the EC key reader refuses only: undecodable input, wrong version, unknown curve, scalar out of range, non-zero padding", strings.Join(other, "; "))
		}
	}
	if !found {
		r.Bad("range-test", "", "the EC key reader compares the scalar with the curve order", "no such comparison")
	}
}

func ruleRawDN(c *Ctx, r *Rep) {
	// the issuer name travels as a decoded RDNSequence: TbsCertificate.Subject (decoded on import) -> IssuerContext.IssuerDn -> TbsCertificate.Issuer (re-encoded)
	tbs := c.NamedType("generator/cert", "TbsCertificate")
	ic := c.NamedType("generator/cert", "IssuerContext")
	if tbs == nil || ic == nil {
		r.Undecided("anchor:types", "", "TbsCertificate / IssuerContext not found")
		return
	}
	var subj, dn *types.Var
	st := tbs.Underlying().(*types.Struct)
	for i := 0; i < st.NumFields(); i++ {
		if st.Field(i).Name() == "Subject" {
			subj = st.Field(i)
		}
	}
	ist := ic.Underlying().(*types.Struct)
	for i := 0; i < ist.NumFields(); i++ {
		if typeIs(ist.Field(i).Type(), "crypto/x509/pkix", "RDNSequence") {
			dn = ist.Field(i)
		}
	}
	if subj == nil || dn == nil {
		r.Undecided("anchor:fields", "", "Subject / issuer name field not found")
		return
	}
	// as long as names are carried decoded, at least the names gopki writes itself must survive decoding and
	// re-encoding unchanged: attribute values are Go strings (encoding/asn1 picks PrintableString or UTF8String from the
	// content, again after the round trip) or byte strings - never a value with a string type of its own choosing
	for _, fn := range c.Funcs {
		for _, b := range fn.Blocks {
			for _, ins := range b.Instrs {
				st, ok := ins.(*ssa.Store)
				if !ok {
					continue
				}
				fa, ok := st.Addr.(*ssa.FieldAddr)
				if !ok || fieldOfAddr(fa).Name() != "Value" || !typeIs(fa.X.Type().Underlying().(*types.Pointer).Elem(), "crypto/x509/pkix", "AttributeTypeAndValue") {
					continue
				}
				for _, t := range dynamicKinds(c, st.Val, 0) {
					okKind := t == "string" || t == "[]byte" || t == "[]uint8" || t == "nil"
					r.Check(okKind, "attribute-value-kind|"+c.FuncKey(fn)+"|"+t, c.Pos(st.Pos()), "subject attribute values are strings or byte strings (their encoding is reproduced when an issuer's name is decoded and re-encoded)", t)
				}
			}
		}
	}
	key := "cert.TbsCertificate." + subj.Name() + ":" + typeShort(c, subj.Type()) + "→cert.IssuerContext." + dn.Name()
	decoded := typeIs(subj.Type(), "crypto/x509/pkix", "RDNSequence")
	if decoded {
		r.Bad(key, c.Pos(subj.Pos()), "the issuer certificate's subject is carried as raw DER (asn1.RawValue) so that issuer and subject are byte-identical", "carried as pkix.RDNSequence: an imported issuer whose subject uses e.g. UTF8String for an ASCII value is re-encoded as PrintableString")
	} else {
		r.Ok(key, c.Pos(subj.Pos()), "raw subject bytes", typeShort(c, subj.Type()))
	}
}

func ruleMergeCopy(c *Ctx, r *Rep) {
	merge := c.Func("generator/config", "Merge")
	if merge == nil {
		r.Undecided("anchor:Merge", "", "not found")
		return
	}
	pv := c.newProv()
	fk := c.FuncKey(merge)
	var contentP, profileP *ssa.Parameter
	for _, p := range merge.Params {
		if strings.HasSuffix(typeShort(c, p.Type()), "CertificateContent") {
			contentP = p
		}
		if strings.HasSuffix(typeShort(c, p.Type()), "CertificateProfile") {
			profileP = p
		}
	}
	if contentP == nil || profileP == nil {
		r.Undecided("shape:"+fk, c.FnPos(merge), "parameters not recognised")
		return
	}
	content := "P(" + fk + "." + contentP.Name() + ")"
	profile := "P(" + fk + "." + profileP.Name() + ")"
	// the returned value
	var out *ssa.Alloc
	for _, ret := range returnsOf(merge) {
		if al, ok := retResults(ret)[0].(*ssa.Alloc); ok {
			out = al
		}
	}
	if out == nil {
		r.Undecided("shape:"+fk, c.FnPos(merge), "result is not a local copy")
		return
	}
	ct := contentP.Type().Underlying().(*types.Struct)
	for i := 0; i < ct.NumFields(); i++ {
		f := ct.Field(i)
		o := pv.loadFrom(out, []*types.Var{f}, 0)
		key := "result-field|" + f.Name()
		switch f.Name() {
		case "Extensions":
			ok := true
			for _, x := range o {
				if x == content+".Extensions" {
					continue // initial copy, replaced below
				}
				if !strings.HasPrefix(x, "make(") && !strings.HasPrefix(x, "elem:") {
					ok = false
				}
			}
			r.Check(ok && len(o) > 1, key, c.FnPos(merge), "a freshly made list of profile and certificate extensions", strings.Join(head(o, 4), " , "))
		case "Validity":
			expectSet(r, key, c.FnPos(merge), o, "the certificate's validity, or the profile's", content+".Validity", profile+".Validity")
		default:
			src := content + "." + f.Name()
			if _, isSlice := f.Type().Underlying().(*types.Slice); isSlice {
				// the same slice, or a copy of its elements
				ok, has := true, false
				for _, x := range o {
					switch {
					case x == src || x == "elem:"+src:
						has = true
					case x == "K(nil)" || strings.HasPrefix(x, "make("):
					default:
						ok = false
					}
				}
				r.Check(ok && has, key, c.FnPos(merge), "the certificate's "+f.Name()+" (or a copy of its elements)", strings.Join(o, " , "))
				break
			}
			expectSet(r, key, c.FnPos(merge), o, "copied from the certificate's configuration", src)
		}
	}
	// guard of the validity inheritance
	for _, fs := range storesIntoType(c, merge, "config.CertificateContent") {
		if fs.field != "Validity" {
			continue
		}
		var conds []string
		for _, g := range guardsOf(fs.st.Block()) {
			f := fieldLoad(g.Cond)
			if f == nil {
				conds = append(conds, "?")
				continue
			}
			root := "?"
			if u, ok := g.Cond.(*ssa.UnOp); ok {
				if al := allocRoot(u.X); al != nil {
					if al == out {
						root = "content" // the result starts as a copy of the certificate's configuration
					} else {
						for _, ref := range *al.Referrers() {
							if st, ok := ref.(*ssa.Store); ok && st.Addr == ssa.Value(al) {
								if st.Val == ssa.Value(profileP) {
									root = "profile"
								} else if st.Val == ssa.Value(contentP) {
									root = "content"
								}
							}
						}
					}
				}
			}
			conds = append(conds, sprintf("%s.%s=%v", root, f.Name(), g.Truth))
		}
		sort.Strings(conds)
		got := strings.Join(conds, " ∧ ")
		r.Check(got == "content.IsSet=false ∧ profile.IsSet=true", "validity-inheritance-guard", c.Pos(fs.st.Pos()), "inherit iff the certificate has no validity of its own and the profile has one", got)
	}
}

func isNamedStruct(t types.Type) bool {
	n, ok := t.(*types.Named)
	if !ok {
		return false
	}
	_, ok = n.Underlying().(*types.Struct)
	return ok
}

// dynamicKinds: the concrete types an interface-typed value can hold: through phis, conversions and the results of
// module functions.
func dynamicKinds(c *Ctx, v ssa.Value, depth int) []string {
	if depth > 6 {
		return []string{typeShort(c, v.Type())}
	}
	var out []string
	for _, pe := range phiEdges(v, nil) {
		x := pe.Val
		switch y := x.(type) {
		case *ssa.MakeInterface:
			out = append(out, dynamicKinds(c, y.X, depth+1)...)
			continue
		case *ssa.ChangeInterface:
			out = append(out, dynamicKinds(c, y.X, depth+1)...)
			continue
		case *ssa.Const:
			if y.Value == nil {
				out = append(out, "nil")
				continue
			}
		case *ssa.Extract:
			if call, ok := y.Tuple.(*ssa.Call); ok {
				if g := call.Call.StaticCallee(); g != nil && c.InModule(g) && g.Blocks != nil {
					if _, isIface := y.Type().Underlying().(*types.Interface); isIface {
						for _, ret := range returnsOf(g) {
							rr := retResults(ret)
							if returnsNonNilError(ret) || y.Index >= len(rr) {
								continue
							}
							out = append(out, dynamicKinds(c, rr[y.Index], depth+1)...)
						}
						continue
					}
				}
			}
		case *ssa.Call:
			if g := y.Call.StaticCallee(); g != nil && c.InModule(g) && g.Blocks != nil {
				if _, isIface := y.Type().Underlying().(*types.Interface); isIface {
					for _, ret := range returnsOf(g) {
						out = append(out, dynamicKinds(c, retResults(ret)[0], depth+1)...)
					}
					continue
				}
			}
		case *ssa.UnOp:
			// a local `var value any` assigned on several paths
			if al, ok := y.X.(*ssa.Alloc); ok && y.Op == token.MUL && al.Referrers() != nil {
				if _, isIface := y.Type().Underlying().(*types.Interface); isIface {
					for _, u := range *al.Referrers() {
						if st, ok := u.(*ssa.Store); ok && st.Addr == ssa.Value(al) {
							out = append(out, dynamicKinds(c, st.Val, depth+1)...)
						}
					}
					continue
				}
			}
		}
		out = append(out, typeShort(c, x.Type()))
	}
	return uniq(out)
}

// evalIntExpr evaluates an integer expression over constants, the given leaf values and single-expression module helpers.
func evalIntExpr(c *Ctx, v ssa.Value, leaves map[ssa.Value]int64, bind map[*ssa.Parameter]ssa.Value, d int) (int64, bool) {
	if d > 12 {
		return 0, false
	}
	if x, ok := leaves[v]; ok {
		return x, true
	}
	switch x := v.(type) {
	case *ssa.Const:
		if x.Value != nil && x.Value.Kind() == constant.Int {
			return x.Int64(), true
		}
	case *ssa.Convert:
		return evalIntExpr(c, x.X, leaves, bind, d+1)
	case *ssa.Parameter:
		if a, ok := bind[x]; ok {
			return evalIntExpr(c, a, leaves, nil, d+1)
		}
	case *ssa.BinOp:
		a, ok1 := evalIntExpr(c, x.X, leaves, bind, d+1)
		b, ok2 := evalIntExpr(c, x.Y, leaves, bind, d+1)
		if !ok1 || !ok2 {
			return 0, false
		}
		switch x.Op {
		case token.ADD:
			return a + b, true
		case token.SUB:
			return a - b, true
		case token.MUL:
			return a * b, true
		case token.QUO:
			if b == 0 {
				return 0, false
			}
			return a / b, true
		case token.REM:
			if b == 0 {
				return 0, false
			}
			return a % b, true
		case token.SHR:
			return a >> uint(b), true
		case token.SHL:
			return a << uint(b), true
		case token.AND:
			return a & b, true
		case token.OR:
			return a | b, true
		case token.XOR:
			return a ^ b, true
		case token.AND_NOT:
			return a &^ b, true
		}
	case *ssa.Call:
		if g := x.Call.StaticCallee(); g != nil && c.InModule(g) && len(g.Blocks) == 1 {
			if rets := returnsOf(g); len(rets) == 1 && len(retResults(rets[0])) == 1 {
				b2 := map[*ssa.Parameter]ssa.Value{}
				for i, q := range g.Params {
					if i < len(x.Call.Args) {
						b2[q] = x.Call.Args[i]
					}
				}
				// arguments are evaluated in the caller's frame first
				l2 := map[ssa.Value]int64{}
				for k, val := range leaves {
					l2[k] = val
				}
				for q, a := range b2 {
					if val, ok := evalIntExpr(c, a, leaves, bind, d+1); ok {
						l2[q] = val
					}
				}
				return evalIntExpr(c, retResults(rets[0])[0], l2, nil, d+1)
			}
		}
	}
	return 0, false
}
