package main

import (
	"go/token"
	"go/types"
	"sort"
	"strings"

	"golang.org/x/tools/go/ssa"
)

func init() {
	register(&Rule{Name: "PURE", Floor: 7, Run: rulePure, Fixture: "fixture.mutateCaller",
		Doc: "validation, merging, hashing and every extension config's Builder/Oid leave the memory of the configuration they are given untouched: no store, map update, append, copy or mutating call through a slice/map/pointer that came in with an argument"})
	register(&Rule{Name: "LINT-REUSE", Floor: 0, Run: ruleLintReuse, Fixture: "fixture.reuseSlice",
		Doc: "a slice that has been handed on (stored into a struct, slice element or interface) is not truncated with s[:0] and appended to again, and a bytes.Buffer's Bytes() are not kept while the buffer is reset or written again: later writes would overwrite what was handed on"})
}

// refKind: types through which memory is shared.
func refKind(t types.Type) bool {
	switch t.Underlying().(type) {
	case *types.Pointer, *types.Slice, *types.Map, *types.Chan, *types.Interface, *types.Signature:
		return true
	}
	return false
}

// carriesRefs: a struct/array value that contains shared memory somewhere.
func carriesRefs(t types.Type, depth int) bool {
	if depth > 6 {
		return true
	}
	switch u := t.Underlying().(type) {
	case *types.Struct:
		for i := 0; i < u.NumFields(); i++ {
			if refKind(u.Field(i).Type()) || carriesRefs(u.Field(i).Type(), depth+1) {
				return true
			}
		}
	case *types.Array:
		return refKind(u.Elem()) || carriesRefs(u.Elem(), depth+1)
	}
	return false
}

// readOnlyLib: library callees that do not write through their arguments.
func readOnlyLib(name string) bool {
	if hasPrefixAny(name, "fmt.", "log.", "(*log.Logger).", "strings.", "strconv.", "errors.", "unicode", "(reflect.Value).", "reflect.ValueOf", "reflect.TypeOf", "(reflect.Type).", "(*reflect.rtype).",
		"encoding/hex.", "encoding/base64.", "(*encoding/base64.Encoding).", "regexp.", "(*regexp.Regexp).", "math/bits.", "(time.Time).", "time.", "crypto.", "(crypto.Hash).",
		"(hash.Hash).", "crypto/sha1.", "(*bytes.Buffer).Write", "(*strings.Builder).Write", "(*math/big.Int).") {
		return true
	}
	switch name {
	case "encoding/json.Marshal", "encoding/json.MarshalIndent", "(*encoding/json.Encoder).Encode", "reflect.DeepEqual", "bytes.Compare", "bytes.HasPrefix", "bytes.HasSuffix", "bytes.Clone", "slices.Clone", "slices.Contains", "slices.Index", "slices.Equal",
		"encoding/asn1.Marshal", "encoding/asn1.MarshalWithParams", "bytes.Equal", "bytes.Index", "bytes.IndexByte", "bytes.IndexRune", "bytes.Contains",
		"(encoding/asn1.ObjectIdentifier).Equal", "(encoding/asn1.ObjectIdentifier).String", "(crypto/x509/pkix.RDNSequence).String", "(error).Error",
		"(encoding/asn1.BitString).At", "crypto/x509.MarshalPKCS1PublicKey", "crypto/x509.MarshalPKCS1PrivateKey", "crypto/elliptic.Marshal",
		"(crypto/elliptic.Curve).Params", "(crypto/elliptic.Curve).IsOnCurve", "github.com/keybase/go-crypto/openpgp/ecdh.Marshal", "github.com/ghodss/yaml.Marshal":
		return true
	}
	return false
}

type purity struct {
	c    *Ctx
	memo map[string][]string // fn key + mask -> mutations
	busy map[string]bool
}

// mutations lists writes to caller memory in fn, given which parameters carry caller memory.
func (p *purity) mutations(fn *ssa.Function, taintedParams map[int]bool, depth int) []string {
	c := p.c
	var mk []string
	for i := range fn.Params {
		if taintedParams[i] {
			mk = append(mk, sprintf("%d", i))
		}
	}
	key := c.FuncKey(fn) + "#" + strings.Join(mk, ",")
	if res, ok := p.memo[key]; ok {
		return res
	}
	if p.busy[key] || depth > 8 {
		return nil
	}
	p.busy[key] = true
	defer delete(p.busy, key)

	tainted := map[ssa.Value]bool{} // reference values sharing memory with the caller
	carrier := map[ssa.Value]bool{} // struct/array values (or local copies of them) containing such references
	spill := map[ssa.Value]bool{}   // local allocs holding a carrier copy
	for i, prm := range fn.Params {
		if !taintedParams[i] {
			continue
		}
		if refKind(prm.Type()) {
			tainted[prm] = true
		} else if carriesRefs(prm.Type(), 0) {
			carrier[prm] = true
		}
	}
	for _, fv := range fn.FreeVars {
		// closures: free variables captured from a function whose receiver/params carry caller memory are handled
		// by analysing the closure with all free variables tainted when the parent was tainted
		if taintedParams[-1] {
			tainted[fv] = true
		}
	}
	isShared := func(v ssa.Value) bool { return tainted[v] || carrier[v] }
	changed := true
	mark := func(m map[ssa.Value]bool, v ssa.Value) {
		if !m[v] {
			m[v] = true
			changed = true
		}
	}
	classify := func(v ssa.Value) {
		if refKind(v.Type()) {
			mark(tainted, v)
		} else if carriesRefs(v.Type(), 0) {
			mark(carrier, v)
		}
	}
	for iter := 0; changed && iter < 50; iter++ {
		changed = false
		for _, b := range fn.Blocks {
			for _, ins := range b.Instrs {
				switch x := ins.(type) {
				case *ssa.Store:
					// spilling a carrier/tainted value into a local makes loads from that local shared again
					if isShared(x.Val) {
						if root := allocRoot(x.Addr); root != nil {
							mark(spill, root)
						}
					}
				case *ssa.UnOp:
					if x.Op != token.MUL {
						continue
					}
					if tainted[x.X] { // deref of caller pointer
						classify(x)
					} else if root := allocRoot(x.X); root != nil && spill[root] {
						classify(x)
					} else if fa, ok := x.X.(*ssa.FieldAddr); ok && tainted[fa.X] {
						classify(x)
					} else if ia, ok := x.X.(*ssa.IndexAddr); ok && tainted[ia.X] {
						classify(x)
					}
				case *ssa.Field:
					if carrier[x.X] {
						classify(x)
					}
				case *ssa.Index:
					if carrier[x.X] || tainted[x.X] {
						classify(x)
					}
				case *ssa.Lookup:
					if tainted[x.X] {
						classify(x)
					}
				case *ssa.Slice:
					if tainted[x.X] {
						mark(tainted, x)
					} else if root := allocRoot(x.X); root != nil && spill[root] {
						mark(tainted, x)
					}
				case *ssa.Phi:
					for _, e := range x.Edges {
						if tainted[e] {
							mark(tainted, x)
						}
						if carrier[e] {
							mark(carrier, x)
						}
					}
				case *ssa.ChangeType:
					if tainted[x.X] {
						mark(tainted, x)
					}
					if carrier[x.X] {
						mark(carrier, x)
					}
				case *ssa.MakeInterface:
					if isShared(x.X) {
						mark(tainted, x)
					}
				case *ssa.ChangeInterface:
					if tainted[x.X] {
						mark(tainted, x)
					}
				case *ssa.TypeAssert:
					if tainted[x.X] {
						classify(x)
						if x.CommaOk {
							mark(carrier, x) // tuple
						}
					}
				case *ssa.Extract:
					if carrier[x.Tuple] || tainted[x.Tuple] {
						classify(x)
					}
				case *ssa.Next:
					if tainted[x.Iter] {
						mark(carrier, x)
					}
				case *ssa.Range:
					if tainted[x.X] {
						mark(tainted, x)
					}
				case *ssa.FieldAddr:
					if tainted[x.X] {
						mark(tainted, x) // address inside caller memory
					}
				case *ssa.IndexAddr:
					if tainted[x.X] {
						mark(tainted, x)
					}
				}
			}
		}
	}
	var out []string
	add := func(pos token.Pos, what string) {
		out = append(out, what+" at "+c.Pos(pos))
	}
	for _, b := range fn.Blocks {
		for _, ins := range b.Instrs {
			switch x := ins.(type) {
			case *ssa.Store:
				if tainted[x.Addr] {
					add(x.Pos(), "store through "+describeAddr(x.Addr))
				}
			case *ssa.MapUpdate:
				if tainted[x.Map] {
					add(x.Pos(), "map update")
				}
			case ssa.CallInstruction:
				cc := x.Common()
				if bi, ok := cc.Value.(*ssa.Builtin); ok {
					switch bi.Name() {
					case "append":
						if len(cc.Args) > 0 && tainted[cc.Args[0]] {
							add(ins.Pos(), "append to a slice that shares the caller's backing array")
						}
					case "copy", "delete", "clear":
						if len(cc.Args) > 0 && tainted[cc.Args[0]] {
							add(ins.Pos(), bi.Name()+" into caller memory")
						}
					}
					continue
				}
				// which arguments are shared?
				var sharedArgs []int
				for i, a := range cc.Args {
					if isShared(a) {
						sharedArgs = append(sharedArgs, i)
					}
				}
				recvShared := cc.IsInvoke() && isShared(cc.Value)
				if len(sharedArgs) == 0 && !recvShared {
					// closures created here capture shared values?
					continue
				}
				var targets []*ssa.Function
				if cc.IsInvoke() {
					if iface, ok := cc.Value.Type().Underlying().(*types.Interface); ok {
						for _, e := range c.Graph().Out[fn] {
							if e.Site == ins {
								targets = append(targets, e.Callee)
							}
						}
						_ = iface
					}
					if len(targets) == 0 {
						name := calleeFullName(x)
						if !readOnlyLib(name) && !strings.HasSuffix(name, ".Error") && !strings.HasSuffix(name, ".String") {
							add(ins.Pos(), "caller memory passed to "+name+", not known to be read-only")
						}
						continue
					}
					for _, t := range targets {
						tp := map[int]bool{0: recvShared}
						for _, i := range sharedArgs {
							tp[i+1] = true
						}
						for _, m := range p.mutations(t, tp, depth+1) {
							out = append(out, "via "+c.FuncKey(t)+": "+m)
						}
					}
					continue
				}
				callee := cc.StaticCallee()
				if callee == nil {
					if mc, ok := cc.Value.(*ssa.MakeClosure); ok {
						callee = mc.Fn.(*ssa.Function)
					}
				}
				if callee == nil {
					// a function-typed parameter: the functions the module's call sites hand in for it
					if prm, ok := cc.Value.(*ssa.Parameter); ok {
						if ts := c.funcArgTargets()[prm]; len(ts) > 0 {
							for _, t := range ts {
								tp := map[int]bool{}
								for _, i := range sharedArgs {
									tp[i] = true
								}
								for _, m := range p.mutations(t, tp, depth+1) {
									out = append(out, "via "+c.FuncKey(t)+": "+m)
								}
							}
							continue
						}
					}
					add(ins.Pos(), "caller memory passed to a dynamic call")
					continue
				}
				if c.InModule(callee) && callee.Blocks != nil {
					tp := map[int]bool{}
					for _, i := range sharedArgs {
						tp[i] = true
					}
					for _, m := range p.mutations(callee, tp, depth+1) {
						out = append(out, "via "+c.FuncKey(callee)+": "+m)
					}
					continue
				}
				name := calleeFullName(x)
				if !readOnlyLib(name) {
					add(ins.Pos(), "caller memory passed to "+name+", not known to be read-only")
				}
			case *ssa.MakeClosure:
				// a closure capturing shared values: analyse its body with the bindings tainted
				f := x.Fn.(*ssa.Function)
				anyShared := false
				for _, bnd := range x.Bindings {
					if isShared(bnd) {
						anyShared = true
					} else if root := allocRoot(bnd); root != nil && spill[root] {
						anyShared = true
					}
				}
				if anyShared {
					for _, m := range p.mutations(f, map[int]bool{-1: true}, depth+1) {
						out = append(out, "via closure "+c.FuncKey(f)+": "+m)
					}
				}
			}
		}
	}
	sort.Strings(out)
	p.memo[key] = out
	return out
}

func allocRoot(v ssa.Value) *ssa.Alloc {
	for i := 0; i < 8; i++ {
		switch x := v.(type) {
		case *ssa.Alloc:
			return x
		case *ssa.FieldAddr:
			v = x.X
		case *ssa.IndexAddr:
			v = x.X
		default:
			return nil
		}
	}
	return nil
}

func describeAddr(v ssa.Value) string {
	switch x := v.(type) {
	case *ssa.IndexAddr:
		return "an element of a caller-owned slice"
	case *ssa.FieldAddr:
		return "field " + fieldOfAddr(x).Name() + " of caller-owned memory"
	}
	return "a caller-owned pointer"
}

func rulePure(c *Ctx, r *Rep) {
	p := &purity{c: c, memo: map[string][]string{}, busy: map[string]bool{}}
	type root struct {
		fn   *ssa.Function
		why  string
		mask map[int]bool
	}
	var roots []root
	all := func(fn *ssa.Function) map[int]bool {
		m := map[int]bool{}
		for i := range fn.Params {
			m[i] = true
		}
		return m
	}
	if c.Mod != modPath {
		// fixture: every top-level function
		for _, fn := range c.Funcs {
			if fn.Parent() == nil && fn.Name() != "init" {
				roots = append(roots, root{fn, "fixture", all(fn)})
			}
		}
	} else {
		for _, nm := range []struct{ pkg, name, why string }{
			{"generator/config", "Validate", "validating a subject must not change it (C03, C09)"},
			{"generator/config", "Merge", "merging has no effect on the profile or the configuration it was given (C08)"},
			{"generator", "BuildCertBody", "building a certificate body must not change the stored configuration"},
			{"generator", "SignCertBody", "signing must not change the stored configuration"},
		} {
			fn := c.Func(nm.pkg, nm.name)
			if fn == nil {
				r.Undecided("anchor:"+nm.name, "", "function not found")
				continue
			}
			m := all(fn)
			if nm.name == "SignCertBody" {
				m = map[int]bool{1: true} // the context (param 0) is the thing being built
			}
			roots = append(roots, root{fn, nm.why, m})
		}
		if fn := c.Method("generator/config", "CertificateContent", "HashSum"); fn != nil {
			roots = append(roots, root{fn, "hashing must not change the configuration (C13)", all(fn)})
		} else {
			r.Undecided("anchor:HashSum", "", "method not found")
		}
		if iface := c.extConfigIface(); iface != nil {
			for _, t := range c.implementations(iface) {
				for _, m := range []string{"Builder", "Oid"} {
					fn := c.methodOf(t, m)
					if fn != nil && fn.Blocks != nil && fn.Synthetic == "" {
						roots = append(roots, root{fn, "building an extension must not change the stored configuration (the hash is computed from it afterwards: C10, C13)", all(fn)})
					}
				}
			}
		}
	}
	sort.Slice(roots, func(i, j int) bool { return c.FuncKey(roots[i].fn) < c.FuncKey(roots[j].fn) })
	for _, rt := range roots {
		muts := p.mutations(rt.fn, rt.mask, 0)
		key := "no-mutation|" + c.FuncKey(rt.fn)
		if len(muts) == 0 {
			r.Ok(key, c.FnPos(rt.fn), rt.why, "no write to caller memory on any path (module callees followed)")
		} else {
			r.Bad(key, c.FnPos(rt.fn), rt.why, strings.Join(head(muts, 3), "; "))
		}
	}
}

// ---- LINT-REUSE ----

func ruleLintReuse(c *Ctx, r *Rep) {
	pv := c.newProv()
	n := 0
	for _, fn := range c.Funcs {
		// (a) x[:0] of a slice that is also handed on
		for _, b := range fn.Blocks {
			for _, ins := range b.Instrs {
				sl, ok := ins.(*ssa.Slice)
				if !ok || sl.High == nil {
					continue
				}
				k, ok := sl.High.(*ssa.Const)
				if !ok || k.Int64() != 0 {
					continue
				}
				if _, isSlice := sl.X.Type().Underlying().(*types.Slice); !isSlice {
					continue
				}
				n++
				// does the truncated slice (or what is appended to it) get stored, while its operand carries an earlier iteration's value?
				fromEarlier := false
				if phi, ok := sl.X.(*ssa.Phi); ok {
					for _, e := range phi.Edges {
						if derivesFrom(e, sl, map[ssa.Value]bool{}) {
							fromEarlier = true
						}
					}
				}
				// (a') filtering in place: y := x[:0]; y = append(y, …) overwrites x's elements - fine when x is given up for y,
				// wrong when x itself is read again afterwards (handed to a call, ranged over, indexed)
				appended := false
				var appendCalls []*ssa.Call
				var seenV = map[ssa.Value]bool{}
				var follow func(v ssa.Value)
				follow = func(v ssa.Value) {
					if seenV[v] || v.Referrers() == nil {
						return
					}
					seenV[v] = true
					for _, ref := range *v.Referrers() {
						switch u := ref.(type) {
						case *ssa.Call:
							if bi, isB := u.Call.Value.(*ssa.Builtin); isB && bi.Name() == "append" && len(u.Call.Args) > 0 && u.Call.Args[0] == v {
								appended = true
								appendCalls = append(appendCalls, u)
								follow(u)
							}
						case *ssa.Phi:
							follow(u)
						}
					}
				}
				follow(sl)
				if appended {
					usedAfter := ""
					for _, ref := range *sl.X.Referrers() {
						if ref == ssa.Instruction(sl) {
							continue
						}
						ci, isCall := ref.(ssa.CallInstruction)
						if !isCall {
							continue
						}
						if bi, isB := ci.Common().Value.(*ssa.Builtin); isB && (bi.Name() == "len" || bi.Name() == "cap") {
							continue
						}
						// a call that receives x and can run after an append
						for _, ac := range appendCalls {
							if reachableFromInstr(ac, ci) {
								usedAfter = calleeFullName(ci) + " at " + c.Pos(ci.Pos())
							}
						}
					}
					// the list filtered in place is one the function was handed (a parameter, the receiver, or a field of
					// one): the caller's elements are overwritten
					if usedAfter == "" {
						for _, o := range pv.Origins(sl.X) {
							if strings.HasPrefix(o, "P(") {
								usedAfter = "the list belongs to the caller: " + o
							}
						}
					}
					r.Check(usedAfter == "", "filter-in-place|"+c.FuncKey(fn), c.Pos(sl.Pos()), "a slice whose elements are overwritten by appends to its [:0] prefix is not handed on afterwards", usedAfter)
				}
				handedOn := escapesByStore(sl, map[ssa.Value]bool{})
				key := "truncate-reuse|" + c.FuncKey(fn)
				if fromEarlier && handedOn {
					r.Bad(key, c.Pos(sl.Pos()), "a fresh slice per iteration (make / nil)", "s = s[:0] reuses the backing array of a slice that was stored in an earlier iteration: later appends overwrite it")
				} else {
					r.Ok(key, c.Pos(sl.Pos()), "truncated slice is not shared with an earlier result", "ok")
				}
			}
		}
		// (b) Buffer.Bytes() kept across Reset/Write
		for _, ci := range callsIn(fn) {
			if calleeFullName(ci) != "(*bytes.Buffer).Bytes" {
				continue
			}
			call, ok := ci.(*ssa.Call)
			if !ok {
				continue
			}
			buf := ci.Common().Args[0]
			if !storedIntoAggregate(call) {
				continue
			}
			// is the buffer mutated after this point?
			mutatedLater := false
			for _, ci2 := range callsIn(fn) {
				name := calleeFullName(ci2)
				if (name == "(*bytes.Buffer).Reset" || strings.HasPrefix(name, "(*bytes.Buffer).Write") || name == "(*bytes.Buffer).Truncate") && ci2.Common().Args[0] == buf && canReachInstr(ci, ci2) {
					mutatedLater = true
				}
			}
			n++
			key := "buffer-bytes-kept|" + c.FuncKey(fn)
			if mutatedLater {
				r.Bad(key, c.Pos(ci.Pos()), "a copy of the bytes (or marshal them at once)", "Bytes() of a buffer is stored while the buffer is reset or written again later: the stored bytes are overwritten")
			} else {
				r.Ok(key, c.Pos(ci.Pos()), "buffer not modified after its bytes were handed on", "ok")
			}
		}
	}
	// (c) the same across calls: a module function that writes into a *bytes.Buffer it is given and hands back Bytes()
	// of it; a caller that keeps the result of one call while it calls such a function again with the same buffer
	type bufFn struct{ param, result int }
	bufFns := map[*ssa.Function]bufFn{}
	for _, f := range c.Funcs {
		for i, p := range f.Params {
			if typeShort(c, p.Type()) != "*bytes.Buffer" {
				continue
			}
			resIdx := -1
			for _, ret := range returnsOf(f) {
				for k, rv := range retResults(ret) {
					if call, ok := rv.(*ssa.Call); ok && calleeFullName(call) == "(*bytes.Buffer).Bytes" && call.Call.Args[0] == ssa.Value(p) {
						resIdx = k
					}
				}
			}
			if resIdx < 0 {
				continue
			}
			writes := false
			if p.Referrers() != nil {
				for _, u := range *p.Referrers() {
					switch x := u.(type) {
					case *ssa.Call:
						name := calleeFullName(x)
						if name == "(*bytes.Buffer).Bytes" || name == "(*bytes.Buffer).Len" || name == "(*bytes.Buffer).String" || name == "(*bytes.Buffer).Cap" {
							continue
						}
						writes = true
					case *ssa.MakeInterface, *ssa.ChangeInterface:
						writes = true // handed on as an io.Writer
					}
				}
			}
			if writes {
				bufFns[f] = bufFn{i, resIdx}
			}
		}
	}
	for _, fn := range c.Funcs {
		var calls []*ssa.Call
		for _, ci := range callsIn(fn) {
			if call, ok := ci.(*ssa.Call); ok {
				if _, is := bufFns[call.Call.StaticCallee()]; is {
					calls = append(calls, call)
				}
			}
		}
		for _, c1 := range calls {
			b1 := bufFns[c1.Call.StaticCallee()]
			var kept ssa.Value = c1
			if c1.Call.Signature().Results().Len() > 1 {
				kept = nil
				if c1.Referrers() != nil {
					for _, u := range *c1.Referrers() {
						if ex, ok := u.(*ssa.Extract); ok && ex.Index == b1.result {
							kept = ex
						}
					}
				}
			}
			if kept == nil || kept.Referrers() == nil {
				continue
			}
			n++
			bad := ""
			for _, c2 := range calls {
				if c2 == c1 && !inLoop(c1.Block()) {
					continue
				}
				b2 := bufFns[c2.Call.StaticCallee()]
				if c2.Call.Args[b2.param] != c1.Call.Args[b1.param] || !canReachInstr(c1, c2) {
					continue
				}
				for _, u := range *kept.Referrers() {
					if _, dbg := u.(*ssa.DebugRef); dbg {
						continue
					}
					if canReachInstr(c2, u) && (c2 != c1 || u.Block() != c1.Block()) {
						bad = c.Pos(c2.Pos())
					}
				}
			}
			key := "buffer-bytes-kept-across-call|" + c.FuncKey(fn) + "|" + c.Pos(c1.Pos())
			if bad != "" {
				r.Bad("buffer-bytes-kept-across-call|"+c.FuncKey(fn), c.Pos(c1.Pos()), "a copy of the bytes, or a buffer per value", "the bytes handed back by "+c.FuncKey(c1.Call.StaticCallee())+" alias the buffer, which the call at "+bad+" overwrites while they are still used")
			} else {
				r.Ok(key, c.Pos(c1.Pos()), "result not used after the buffer is written again", "ok")
			}
		}
	}
	r.Infof("%d truncate/buffer-bytes sites examined", n)
	// (a'') the same for any shortened view: append(x[:k], …) writes into x behind position k. Where x itself is handed
	// to a call afterwards (the bytes that are about to be hashed), that call sees the overwritten elements.
	for _, fn := range c.Funcs {
		m := 0
		for _, b := range fn.Blocks {
			for _, ins := range b.Instrs {
				sl, ok := ins.(*ssa.Slice)
				if !ok || sl.High == nil || sl.Max != nil {
					continue
				}
				if k, isK := sl.High.(*ssa.Const); isK && k.Value != nil && k.Int64() == 0 {
					continue // the [:0] form is decided above
				}
				if _, isSlice := sl.X.Type().Underlying().(*types.Slice); !isSlice {
					continue
				}
				var appendCalls []*ssa.Call
				for _, ref := range *sl.Referrers() {
					if call, ok := ref.(*ssa.Call); ok {
						if bi, isB := call.Call.Value.(*ssa.Builtin); isB && bi.Name() == "append" && len(call.Call.Args) > 0 && call.Call.Args[0] == ssa.Value(sl) {
							appendCalls = append(appendCalls, call)
						}
					}
				}
				if len(appendCalls) == 0 {
					continue
				}
				m++
				usedAfter := ""
				for _, ref := range *sl.X.Referrers() {
					if ref == ssa.Instruction(sl) {
						continue
					}
					ci, isCall := ref.(ssa.CallInstruction)
					if !isCall {
						continue
					}
					if bi, isB := ci.Common().Value.(*ssa.Builtin); isB && (bi.Name() == "len" || bi.Name() == "cap") {
						continue
					}
					for _, ac := range appendCalls {
						if ssa.Instruction(ac) != ref && reachableFromInstr(ac, ci) {
							usedAfter = calleeFullName(ci) + " at " + c.Pos(ci.Pos())
						}
					}
				}
				r.Check(usedAfter == "", sprintf("append-into-view|%s#%d", c.FuncKey(fn), m), c.Pos(sl.Pos()), "a list is not handed on after an append to a shortened view of it has overwritten its elements", usedAfter)
			}
		}
	}

}

// derivesFrom: v is computed from target (through append, phi, slice).
func derivesFrom(v, target ssa.Value, seen map[ssa.Value]bool) bool {
	if v == target {
		return true
	}
	if seen[v] {
		return false
	}
	seen[v] = true
	switch x := v.(type) {
	case *ssa.Phi:
		for _, e := range x.Edges {
			if derivesFrom(e, target, seen) {
				return true
			}
		}
	case *ssa.Slice:
		return derivesFrom(x.X, target, seen)
	case *ssa.Call:
		if bi, ok := x.Call.Value.(*ssa.Builtin); ok && bi.Name() == "append" {
			return derivesFrom(x.Call.Args[0], target, seen)
		}
	}
	return false
}

// escapesByStore: v (or an append result / phi of it) is stored into memory or boxed.
func escapesByStore(v ssa.Value, seen map[ssa.Value]bool) bool {
	if seen[v] {
		return false
	}
	seen[v] = true
	refs := v.Referrers()
	if refs == nil {
		return false
	}
	for _, ref := range *refs {
		switch x := ref.(type) {
		case *ssa.Store:
			if x.Val == v {
				if _, isAlloc := x.Addr.(*ssa.Alloc); isAlloc {
					// a plain local variable: follow its loads
					continue
				}
				return true
			}
		case *ssa.MakeInterface:
			return true
		case *ssa.Phi:
			if escapesByStore(x, seen) {
				return true
			}
		case *ssa.Call:
			if bi, ok := x.Call.Value.(*ssa.Builtin); ok && bi.Name() == "append" && x.Call.Args[0] == v {
				if escapesByStore(x, seen) {
					return true
				}
			}
		case *ssa.Slice:
			if escapesByStore(x, seen) {
				return true
			}
		}
	}
	return false
}

// storedIntoAggregate: the call's result is stored into a struct field / slice element (not just passed on as an argument or returned).
func storedIntoAggregate(v ssa.Value) bool {
	for _, ref := range *v.Referrers() {
		if st, ok := ref.(*ssa.Store); ok && st.Val == v {
			switch a := st.Addr.(type) {
			case *ssa.FieldAddr:
				// a composite literal that is marshalled right away does not keep the bytes; one that is appended/stored does
				if al, ok := a.X.(*ssa.Alloc); ok {
					if aggregateEscapes(al) {
						return true
					}
					continue
				}
				return true
			case *ssa.IndexAddr:
				return true
			}
		}
	}
	return false
}

// aggregateEscapes: the local composite is loaded and the loaded value stored/appended somewhere (kept), rather than only passed to a call.
func aggregateEscapes(al *ssa.Alloc) bool {
	for _, ref := range *al.Referrers() {
		u, ok := ref.(*ssa.UnOp)
		if !ok || u.Op != token.MUL {
			continue
		}
		for _, rr := range *u.Referrers() {
			switch x := rr.(type) {
			case *ssa.Store:
				if x.Val == ssa.Value(u) {
					return true
				}
			case *ssa.MakeInterface:
				// boxed for a call such as asn1.Marshal: consumed immediately unless the interface itself is stored
				for _, r3 := range *x.Referrers() {
					if st, ok := r3.(*ssa.Store); ok && st.Val == ssa.Value(x) {
						if _, isVar := st.Addr.(*ssa.IndexAddr); isVar {
							// varargs backing array of a call: consumed by the call
							continue
						}
						return true
					}
				}
			}
		}
	}
	return false
}

func init() {
	register(&Rule{Name: "STATELESS", Floor: 2, Run: ruleStateless, Fixture: "fixture.keepsTable",
		Doc: "validation, merging, hashing, subject parsing, the extension constructors and the regeneration decision are functions of their arguments (and of the database they are handed): no function they can reach in the module writes a package-level variable, or reads one that anything outside package initialisation writes (the logging package's verbosity excepted) — a result must not depend on which certificates were processed before"})
}

// globalRoot: the package-level variable whose memory an address or value belongs to.
func globalRoot(v ssa.Value) *ssa.Global {
	for i := 0; i < 12 && v != nil; i++ {
		switch x := v.(type) {
		case *ssa.Global:
			return x
		case *ssa.FieldAddr:
			v = x.X
		case *ssa.IndexAddr:
			v = x.X
		case *ssa.Field:
			v = x.X
		case *ssa.Index:
			v = x.X
		case *ssa.Slice:
			v = x.X
		case *ssa.UnOp:
			if x.Op != token.MUL {
				return nil
			}
			v = x.X
		case *ssa.Lookup:
			v = x.X
		case *ssa.ChangeType:
			v = x.X
		default:
			return nil
		}
	}
	return nil
}

func isInitFunc(fn *ssa.Function) bool {
	for fn.Parent() != nil {
		fn = fn.Parent()
	}
	return fn.Signature.Recv() == nil && (fn.Name() == "init" || strings.HasPrefix(fn.Name(), "init#"))
}

// globalWrites lists the package-level variables a function writes (stores, map updates, appends back into them).
func globalWrites(fn *ssa.Function) map[*ssa.Global]token.Pos {
	out := map[*ssa.Global]token.Pos{}
	for _, b := range fn.Blocks {
		for _, ins := range b.Instrs {
			switch x := ins.(type) {
			case *ssa.Store:
				if g := globalRoot(x.Addr); g != nil {
					out[g] = x.Pos()
				}
			case *ssa.MapUpdate:
				if g := globalRoot(x.Map); g != nil {
					out[g] = x.Pos()
				}
			case *ssa.Call:
				if bi, ok := x.Call.Value.(*ssa.Builtin); ok && (bi.Name() == "copy" || bi.Name() == "clear" || bi.Name() == "delete") && len(x.Call.Args) > 0 {
					if g := globalRoot(x.Call.Args[0]); g != nil {
						out[g] = x.Pos()
					}
				}
				// a container kept in a package-level variable and changed through its methods (sync.Map.Store, …)
				if f := x.Call.StaticCallee(); f != nil && f.Signature.Recv() != nil && len(x.Call.Args) > 0 {
					if g, isG := x.Call.Args[0].(*ssa.Global); isG {
						switch f.Name() {
						case "Load", "Range", "Len", "String", "Lock", "Unlock", "RLock", "RUnlock", "MatchString", "FindStringSubmatch", "FindAllStringSubmatch", "Match", "FindString", "NumSubexp", "SubexpNames", "Validate", "ValidateInterface":
						default:
							if _, isPtr := f.Signature.Recv().Type().(*types.Pointer); isPtr && (f.Pkg == nil || f.Pkg.Pkg.Path() == "sync" || f.Pkg.Pkg.Path() == "sync/atomic" || f.Pkg.Pkg.Path() == "container/list") {
								out[g] = x.Pos()
							}
						}
					}
				}
			}
		}
	}
	return out
}

func ruleStateless(c *Ctx, r *Rep) {
	var roots []*ssa.Function
	if c.Mod != modPath {
		for _, fn := range c.Funcs {
			if fn.Parent() == nil && !isInitFunc(fn) && fn.Name() == "keepsTable" {
				roots = append(roots, fn)
			}
		}
	} else {
		for _, nm := range []struct{ pkg, name string }{
			{"generator/config", "Validate"},
			{"generator/config", "Merge"},
			{"generator/config", "ParseRDNSequence"},
			{"generator/cert", "ReadPem"},
			{"generator/cert", "ParsePKCS8PrivateKey"},
			{"generator/cert", "MarshalPKCS8PrivateKey"},
		} {
			fn := c.Func(nm.pkg, nm.name)
			if fn == nil {
				r.Undecided("anchor:"+nm.name, "", "function not found")
				continue
			}
			roots = append(roots, fn)
		}
		if fn := c.Method("generator/config", "CertificateContent", "HashSum"); fn != nil {
			roots = append(roots, fn)
		} else {
			r.Undecided("anchor:HashSum", "", "method not found")
		}
		// the extension constructors: what an extension encodes to depends on what it was given, not on which
		// extensions were built before it in this process (an encoding kept in a package-level cache under a key
		// that does not tell two contents apart hands the second certificate the bytes of the first)
		nCons := 0
		for _, fn := range c.Funcs {
			if fn.Parent() != nil || fn.Blocks == nil || fn.Object() == nil || !fn.Object().Exported() || fn.Signature.Recv() != nil || !strings.HasSuffix(fnPkgPath(fn), "generator/cert") {
				continue
			}
			res := fn.Signature.Results()
			for i := 0; i < res.Len(); i++ {
				if strings.HasSuffix(types.TypeString(res.At(i).Type(), nil), "crypto/x509/pkix.Extension") {
					roots = append(roots, fn)
					nCons++
					break
				}
			}
		}
		if nCons == 0 {
			r.Undecided("anchor:extension-constructors", "", "no exported function of generator/cert answers a pkix.Extension")
		}
		if fn := c.decisionFunc(); fn != nil {
			roots = append(roots, fn)
		} else {
			r.Undecided("anchor:decision-function", "", "not found")
		}
	}
	// package-level variables written after initialisation, anywhere in the module
	mutable := map[*ssa.Global]string{}
	for _, fn := range c.Funcs {
		if isInitFunc(fn) {
			continue
		}
		for g, pos := range globalWrites(fn) {
			if _, ok := mutable[g]; !ok {
				mutable[g] = c.FuncKey(fn) + " at " + c.Pos(pos)
			}
		}
	}
	for _, rt := range roots {
		fk := c.FuncKey(rt)
		reach := c.Graph().Reach(rt)
		var fns []*ssa.Function
		for f := range reach {
			fns = append(fns, f)
		}
		sort.Slice(fns, func(i, j int) bool { return c.FuncKey(fns[i]) < c.FuncKey(fns[j]) })
		var bad []string
		pos := c.FnPos(rt)
		for _, f := range fns {
			if !c.InModule(f) || f.Blocks == nil || (f.Pkg != nil && strings.HasSuffix(f.Pkg.Pkg.Path(), "/logging")) {
				continue
			}
			for g, p := range globalWrites(f) {
				if g.Pkg != nil && strings.HasSuffix(g.Pkg.Pkg.Path(), "/logging") {
					continue
				}
				bad = append(bad, sprintf("%s writes %s (%s)", c.FuncKey(f), g.Name(), c.Pos(p)))
				pos = c.Pos(p)
			}
			for _, b := range f.Blocks {
				for _, ins := range b.Instrs {
					ld, ok := ins.(*ssa.UnOp)
					if !ok || ld.Op != token.MUL {
						continue
					}
					g := globalRoot(ld.X)
					if g == nil || (g.Pkg != nil && strings.HasSuffix(g.Pkg.Pkg.Path(), "/logging")) {
						continue
					}
					if w, isMut := mutable[g]; isMut {
						bad = append(bad, sprintf("%s reads %s, which %s writes", c.FuncKey(f), g.Name(), w))
						pos = c.Pos(ld.Pos())
					}
				}
			}
		}
		bad = uniq(bad)
		r.Check(len(bad) == 0, "no-global-state|"+fk, pos, "no package-level variable written, none read that is written after initialisation (reachable module functions: "+sprintf("%d", len(fns))+")", strings.Join(head(bad, 4), "; "))
	}
	// the module never assigns to a package-level variable of another package (time.Local, a default of a library):
	// every function that reads it afterwards - date parsing, hashing, encoding - would silently change its answers
	var foreign []string
	fpos := ""
	for _, fn := range c.Funcs {
		for g, p := range globalWrites(fn) {
			if g.Pkg == nil || c.isModPath(g.Pkg.Pkg.Path()) {
				continue
			}
			foreign = append(foreign, sprintf("%s writes %s.%s (%s)", c.FuncKey(fn), g.Pkg.Pkg.Path(), g.Name(), c.Pos(p)))
			fpos = c.Pos(p)
		}
	}
	sort.Strings(foreign)
	r.Check(len(foreign) == 0, "no-foreign-global-write", fpos, "no package-level variable of the standard library or of a dependency is assigned", strings.Join(head(foreign, 3), "; "))
}

// reachableFromInstr: instruction b can execute after instruction a (same block later, or in a block reachable from a's).
func reachableFromInstr(a, b ssa.Instruction) bool {
	if a.Block() == b.Block() {
		for _, ins := range a.Block().Instrs {
			if ins == a {
				return true // a comes first
			}
			if ins == b {
				break
			}
		}
		// b precedes a in the block: reachable only round a loop
	}
	seen := map[*ssa.BasicBlock]bool{}
	stack := append([]*ssa.BasicBlock{}, a.Block().Succs...)
	for len(stack) > 0 {
		x := stack[len(stack)-1]
		stack = stack[:len(stack)-1]
		if seen[x] {
			continue
		}
		seen[x] = true
		if x == b.Block() {
			return true
		}
		stack = append(stack, x.Succs...)
	}
	return false
}
