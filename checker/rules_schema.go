package main

import (
	"encoding/json"
	"go/constant"
	"go/token"
	"go/types"
	"sort"
	"strings"

	"golang.org/x/tools/go/ssa"
)

func init() {
	register(&Rule{Name: "SCHEMA-TAGS", Floor: 60, Run: ruleSchemaTags,
		Doc: "every property a JSON schema admits (certificate.json, profile.json and everything they reference) has a like-named json field of the matching kind in the Go struct that document is unmarshalled into, so no accepted configuration value is silently dropped"})
	register(&Rule{Name: "SCHEMA-ENUM", Floor: 4, Run: ruleSchemaEnum,
		Doc: "every value a schema enum admits for a general-name type or RDN attribute either has a table entry / case, or takes a path that returns an error"})
	register(&Rule{Name: "HASH-SHAPE", Floor: 40, Run: ruleHashShape,
		Doc: "every field reachable from the hashed configuration value is visible to encoding/json (exported, not json:\"-\", marshalable kind), and no two extension kinds admit an identical JSON encoding"})
}

// ---- schema loading ----

type schemaSet struct {
	c     *Ctx
	files map[string]map[string]any
}

func (s *schemaSet) load(file string) (map[string]any, string) {
	if m, ok := s.files[file]; ok {
		return m, ""
	}
	b, _, err := s.c.EmbeddedFile("generator/config/v1", file)
	if err != nil {
		return nil, err.Error()
	}
	var m map[string]any
	if err := json.Unmarshal(b, &m); err != nil {
		return nil, file + ": " + err.Error()
	}
	s.files[file] = m
	return m, ""
}

// resolve follows $ref.
func (s *schemaSet) resolve(node map[string]any) (map[string]any, string, string) {
	if ref, ok := node["$ref"].(string); ok {
		m, why := s.load(ref)
		return m, ref, why
	}
	return node, "", ""
}

func schemaTypes(node map[string]any) []string {
	switch t := node["type"].(type) {
	case string:
		return []string{t}
	case []any:
		var out []string
		for _, x := range t {
			if s, ok := x.(string); ok {
				out = append(out, s)
			}
		}
		return out
	}
	return nil
}

// jsonFields lists the encoding/json-visible fields of a struct type: json name -> field (embedded untagged structs are flattened).
func jsonFields(st *types.Struct) map[string]*types.Var {
	out := map[string]*types.Var{}
	for i := 0; i < st.NumFields(); i++ {
		f := st.Field(i)
		tag := reflectTagGet(st.Tag(i), "json")
		name := strings.Split(tag, ",")[0]
		if name == "-" {
			continue
		}
		if f.Embedded() && name == "" {
			t := f.Type()
			if p, ok := t.(*types.Pointer); ok {
				t = p.Elem()
			}
			if inner, ok := t.Underlying().(*types.Struct); ok {
				for k, v := range jsonFields(inner) {
					if _, dup := out[k]; !dup {
						out[k] = v
					}
				}
				continue
			}
		}
		if !f.Exported() {
			continue
		}
		if name == "" {
			name = f.Name()
		}
		out[name] = f
	}
	return out
}

func derefStruct(t types.Type) (*types.Struct, bool) {
	if p, ok := t.Underlying().(*types.Pointer); ok {
		t = p.Elem()
	}
	st, ok := t.Underlying().(*types.Struct)
	return st, ok
}

func goKindMatches(t types.Type, schemaType string) bool {
	if p, ok := t.Underlying().(*types.Pointer); ok {
		t = p.Elem()
	}
	switch u := t.Underlying().(type) {
	case *types.Basic:
		switch schemaType {
		case "string":
			return u.Kind() == types.String
		case "integer":
			return u.Info()&types.IsInteger != 0
		case "number":
			return u.Info()&types.IsNumeric != 0
		case "boolean":
			return u.Kind() == types.Bool
		}
	case *types.Struct:
		return schemaType == "object"
	case *types.Slice:
		return schemaType == "array"
	case *types.Map:
		return schemaType == "object"
	}
	return false
}

type schemaWalker struct {
	c     *Ctx
	r     *Rep
	s     *schemaSet
	pairs int
}

// walk compares schema node (already resolved) with Go type t. path is the schema path for keys.
func (w *schemaWalker) walk(node map[string]any, file, path string, t types.Type, depth int) {
	if depth > 12 {
		return
	}
	resolved, ref, why := w.s.resolve(node)
	if why != "" {
		w.r.Undecided("schema:"+path, file, why)
		return
	}
	if ref != "" {
		file = ref
		node = resolved
	}
	ts := schemaTypes(node)
	// alternatives
	for _, alt := range []string{"oneOf", "anyOf", "allOf"} {
		if list, ok := node[alt].([]any); ok && node["properties"] == nil {
			for i, a := range list {
				if m, ok := a.(map[string]any); ok {
					if len(schemaTypes(m)) == 0 && m["properties"] == nil && m["$ref"] == nil && m["enum"] == nil {
						continue // pure "required" alternatives
					}
					w.walk(m, file, sprintf("%s/%s[%d]", path, alt, i), t, depth+1)
				}
			}
		}
	}
	main := ""
	for _, x := range ts {
		if x != "null" {
			main = x
		}
	}
	if main == "" {
		if node["properties"] != nil {
			main = "object"
		} else if node["enum"] != nil || node["pattern"] != nil {
			main = "string"
		} else {
			return
		}
	}
	key := "kind|" + path
	pos := w.c.typePosOf(t)
	if !w.r.Check(goKindMatches(t, main), key, pos, "Go kind for schema type "+main+" ("+file+")", typeShort(w.c, t)) {
		return
	}
	switch main {
	case "object":
		props, _ := node["properties"].(map[string]any)
		st, ok := derefStruct(t)
		if !ok {
			return
		}
		w.pairs++
		fields := jsonFields(st)
		var names []string
		for k := range props {
			names = append(names, k)
		}
		sort.Strings(names)
		for _, name := range names {
			f, ok := fields[name]
			fpos := pos
			if ok {
				fpos = w.c.Pos(f.Pos())
			}
			if !w.r.Check(ok, "property|"+path+"."+name, fpos, "a field with json name "+name+" in "+typeShort(w.c, t), sprintf("present=%v", ok)) {
				continue
			}
			if sub, ok := props[name].(map[string]any); ok {
				w.walk(sub, file, path+"."+name, f.Type(), depth+1)
			}
		}
		for name := range fields {
			if _, ok := props[name]; !ok {
				w.r.Infof("%s: Go field %s has no schema property under %s (never set from a validated document)", typeShort(w.c, t), name, path)
			}
		}
	case "array":
		if items, ok := node["items"].(map[string]any); ok {
			if sl, ok := t.Underlying().(*types.Slice); ok {
				w.walk(items, file, path+"[]", sl.Elem(), depth+1)
			}
		}
	}
}

func (c *Ctx) typePosOf(t types.Type) string {
	if p, ok := t.(*types.Pointer); ok {
		t = p.Elem()
	}
	if n, ok := t.(*types.Named); ok {
		return c.Pos(n.Obj().Pos())
	}
	return ""
}

// schemaRoots pairs main schema files with the Go types documents are unmarshalled into:
// in the function that calls (*jsonschema.Schema).Validate, each yaml.Unmarshal into a module struct
// is paired with the schema whose Validate call dominates it.
func schemaRoots(c *Ctx) (map[string]types.Type, string) {
	out := map[string]types.Type{}
	schemaFileOf := func(g *ssa.Global) string {
		// init: g = compileSchema(&schemaHierarchy{…, "<file>"})
		for _, fn := range c.Funcs {
			if !(fn.Name() == "init" || strings.HasPrefix(fn.Name(), "init#")) {
				continue
			}
			for _, b := range fn.Blocks {
				for _, ins := range b.Instrs {
					st, ok := ins.(*ssa.Store)
					if !ok || st.Addr != ssa.Value(g) {
						continue
					}
					ex, ok := st.Val.(*ssa.Extract)
					if !ok {
						continue
					}
					call, ok := ex.Tuple.(*ssa.Call)
					if !ok || len(call.Call.Args) == 0 {
						continue
					}
					al, ok := call.Call.Args[0].(*ssa.Alloc)
					if !ok {
						continue
					}
					for _, ref := range *al.Referrers() {
						if fa, ok := ref.(*ssa.FieldAddr); ok {
							for _, rr := range *fa.Referrers() {
								if s2, ok := rr.(*ssa.Store); ok {
									if k, ok := s2.Val.(*ssa.Const); ok && k.Value != nil && k.Value.Kind() == constant.String {
										return constant.StringVal(k.Value)
									}
								}
							}
						}
					}
				}
			}
		}
		return ""
	}
	for _, fn := range c.Funcs {
		var validates []*ssa.Call
		for _, ci := range callsIn(fn) {
			if strings.HasSuffix(calleeFullName(ci), "jsonschema.Schema).Validate") {
				validates = append(validates, ci.(*ssa.Call))
			}
		}
		if len(validates) == 0 {
			continue
		}
		for _, ci := range callsIn(fn) {
			if !strings.HasSuffix(calleeFullName(ci), "ghodss/yaml.Unmarshal") {
				continue
			}
			al, ok := unwrapIface(ci.Common().Args[1]).(*ssa.Alloc)
			if !ok {
				continue
			}
			t := al.Type().Underlying().(*types.Pointer).Elem()
			n, ok := t.(*types.Named)
			if !ok || !c.IsModObj(n.Obj()) {
				continue
			}
			// nearest dominating Validate
			var best *ssa.Call
			for _, v := range validates {
				if instrDominates(v, ci) && (best == nil || instrDominates(best, v)) {
					best = v
				}
			}
			if best == nil {
				return nil, "yaml.Unmarshal into " + n.Obj().Name() + " is not dominated by a schema validation"
			}
			u, ok := best.Call.Args[0].(*ssa.UnOp)
			if !ok {
				continue
			}
			g, ok := u.X.(*ssa.Global)
			if !ok {
				continue
			}
			if file := schemaFileOf(g); file != "" {
				out[file] = t
			}
		}
	}
	if len(out) < 2 {
		return out, sprintf("found %d schema/struct pairs, expected certificate.json and profile.json", len(out))
	}
	return out, ""
}

func ruleSchemaTags(c *Ctx, r *Rep) {
	roots, why := schemaRoots(c)
	if why != "" {
		r.Undecided("anchor:schema-roots", "", why)
		return
	}
	w := &schemaWalker{c: c, r: r, s: &schemaSet{c: c, files: map[string]map[string]any{}}}
	var files []string
	for f := range roots {
		files = append(files, f)
	}
	sort.Strings(files)
	for _, f := range files {
		m, why := w.s.load(f)
		if why != "" {
			r.Undecided("schema:"+f, "", why)
			continue
		}
		w.walk(m, f, strings.TrimSuffix(f, ".json"), roots[f], 0)
	}
	if w.pairs < 25 {
		r.Undecided("floor:schema-struct-pairs", "", sprintf("%d schema object / Go struct pairs compared, fewer than the 25 confirmed by hand", w.pairs))
	}
	r.Infof("%d schema object / Go struct pairs compared", w.pairs)
}

// defaultReturnsError: in fn, some block on which every string comparison of the label tag is false
// returns a non-nil error (or false for bool functions).
func defaultReturnsError(fn *ssa.Function) bool {
	res := fn.Signature.Results()
	errIdx := -1
	for i := 0; i < res.Len(); i++ {
		if isErrorType(res.At(i).Type()) {
			errIdx = i
		}
	}
	if errIdx < 0 {
		return false
	}
	// labels compared in fn
	nLabels := 0
	for _, b := range fn.Blocks {
		for _, ins := range b.Instrs {
			if bin, ok := ins.(*ssa.BinOp); ok && bin.Op.String() == "==" {
				if k, ok := bin.Y.(*ssa.Const); ok && k.Value != nil && k.Value.Kind() == constant.String {
					nLabels++
				}
			}
		}
	}
	for _, ret := range returnsOf(fn) {
		falseLabels := 0
		for _, g := range guardsOf(ret.Block()) {
			if bin, ok := g.Cond.(*ssa.BinOp); ok && bin.Op.String() == "==" && !g.Truth {
				if k, ok := bin.Y.(*ssa.Const); ok && k.Value != nil && k.Value.Kind() == constant.String {
					falseLabels++
				}
			}
		}
		if falseLabels < nLabels {
			continue
		}
		if k, ok := retResults(ret)[errIdx].(*ssa.Const); ok && k.Value == nil {
			continue
		}
		return true
	}
	return false
}

func ruleSchemaEnum(c *Ctx, r *Rep) {
	// general_name.json type enum vs. every general-name label table
	enum, why := schemaEnum(c, "general_name.json", "properties", "type", "enum")
	if why != "" {
		r.Undecided("anchor:general_name.json", "", why)
		return
	}
	tables := map[*ssa.Function]map[string]bool{}
	for _, fn := range c.Funcs {
		for _, b := range fn.Blocks {
			for _, ins := range b.Instrs {
				mi, ok := ins.(*ssa.MakeInterface)
				if !ok {
					continue
				}
				n, ok := mi.X.Type().(*types.Named)
				if !ok || !c.IsModObj(n.Obj()) {
					continue
				}
				if _, _, isGN := marshalTag(c, n); !isGN {
					continue
				}
				if label, _, ok := stringCaseLabel(b); ok {
					if tables[fn] == nil {
						tables[fn] = map[string]bool{}
					}
					tables[fn][label] = true
				}
			}
		}
	}
	mapMiss := map[*ssa.Function]bool{}
	for _, t := range c.gnMapTables() {
		if tables[t.fn] == nil {
			tables[t.fn] = map[string]bool{}
		}
		for l := range t.rows {
			tables[t.fn][l] = true
		}
		mapMiss[t.fn] = t.missIsError
	}
	var fns []*ssa.Function
	for f := range tables {
		fns = append(fns, f)
	}
	sort.Slice(fns, func(i, j int) bool { return c.FuncKey(fns[i]) < c.FuncKey(fns[j]) })
	for _, fn := range fns {
		defErr := defaultReturnsError(fn) || mapMiss[fn]
		for _, e := range enum {
			has := tables[fn][e]
			r.Check(has || defErr, "general-name|"+c.FuncKey(fn)+"|"+e, c.FnPos(fn), "a case for "+e+", or the default path returns an error", sprintf("case=%v default-error=%v", has, defErr))
		}
	}
	if len(fns) < 1 {
		r.Undecided("floor:label-tables", "", sprintf("%d general-name label tables found, expected at least 1", len(fns)))
	}
	// rdn-attribute.json enum vs. the short-name table: unknown names must produce an error from the lookup
	renum, why := schemaEnum(c, "rdn-attribute.json", "enum")
	if why != "" {
		r.Undecided("anchor:rdn-attribute.json", "", why)
		return
	}
	var lookup *ssa.Function
	for _, fn := range c.Funcs {
		if fn.Parent() != nil || len(fn.Params) != 1 || !isString(fn.Params[0].Type()) {
			continue
		}
		res := fn.Signature.Results()
		if res.Len() == 2 && isOID(res.At(0).Type()) && isErrorType(res.At(1).Type()) {
			for _, b := range fn.Blocks {
				for _, ins := range b.Instrs {
					if lk, ok := ins.(*ssa.Lookup); ok && lk.CommaOk && lk.Index == ssa.Value(fn.Params[0]) {
						lookup = fn
					}
				}
			}
		}
	}
	if lookup == nil {
		if lf := c.rdnLookupFunc(); lf != nil {
			// the lookup written another way: folded for a name no table has, it must answer with an error; and for every
			// name of the schema with an OID
			fo := c.newFolder()
			out, ok := fo.Fold(lf, []*fval{fconst(constant.MakeString("\x00no-such-attribute"))}, 0)
			if !ok {
				r.Undecided("shape:rdn-lookup|"+c.FuncKey(lf), c.FnPos(lf), "the lookup cannot be folded: "+fo.why)
				return
			}
			r.Check(len(out) == 2 && !out[1].isNil, "rdn-unknown-is-error", c.FnPos(lf), "a name the table does not have is answered with an error", sprintf("error is nil: %v", len(out) == 2 && out[1].isNil))
			for _, name := range renum {
				// a name the schema allows is answered one way or the other (an OID, or an error: never neither)
				fo := c.newFolder()
				out, ok := fo.Fold(lf, []*fval{fconst(constant.MakeString(name))}, 0)
				answered := ok && len(out) == 2 && (!out[1].isNil || out[0].isList && len(out[0].list) > 0)
				r.Check(answered, "rdn-enum|"+name, c.FnPos(lf), "a name the schema allows is answered with an OID or with an error", sprintf("folded: %v %s", ok, fo.why))
			}
			return
		}
		r.Undecided("anchor:rdn-lookup", "", "no func(string) (ObjectIdentifier, error) with a comma-ok table lookup")
		return
	}
	// the !ok edge returns a non-nil error
	okErr := false
	for _, ret := range returnsOf(lookup) {
		for _, g := range guardsOf(ret.Block()) {
			if ex, ok := g.Cond.(*ssa.Extract); ok && ex.Index == 1 && !g.Truth {
				if k, isK := retResults(ret)[1].(*ssa.Const); !(isK && k.Value == nil) {
					okErr = true
				}
			}
		}
	}
	r.Check(okErr, "rdn-lookup-miss-is-error|"+c.FuncKey(lookup), c.FnPos(lookup), "a short name missing from the table yields an error (the schema admits "+sprintf("%d", len(renum))+" names)", sprintf("%v", okErr))
}

// ---- HASH-SHAPE ----

// jsonAbstract describes the JSON values a Go type can marshal to, as a small set of shapes.
type jshape struct {
	kinds map[string]bool    // null, string, number, bool, array, object, any
	keys  map[string]*jshape // for object
	elem  *jshape            // for array
}

func (c *Ctx) jsonShapeOf(t types.Type, depth int) *jshape {
	s := &jshape{kinds: map[string]bool{}}
	if depth > 8 {
		s.kinds["any"] = true
		return s
	}
	if typeIs(t, "time", "Time") {
		s.kinds["string"] = true
		return s
	}
	if p, ok := t.(*types.Pointer); ok && typeIs(p.Elem(), "math/big", "Int") {
		s.kinds["number"] = true
		s.kinds["null"] = true
		return s
	}
	switch u := t.Underlying().(type) {
	case *types.Basic:
		switch {
		case u.Kind() == types.String:
			s.kinds["string"] = true
		case u.Kind() == types.Bool:
			s.kinds["bool"] = true
		case u.Info()&types.IsNumeric != 0:
			s.kinds["number"] = true
		default:
			s.kinds["any"] = true
		}
	case *types.Pointer:
		in := c.jsonShapeOf(u.Elem(), depth+1)
		in.kinds["null"] = true
		return in
	case *types.Slice:
		s.kinds["null"] = true
		if b, ok := u.Elem().Underlying().(*types.Basic); ok && b.Kind() == types.Byte {
			s.kinds["string"] = true // base64
		} else {
			s.kinds["array"] = true
			s.elem = c.jsonShapeOf(u.Elem(), depth+1)
		}
	case *types.Array:
		s.kinds["array"] = true
		s.elem = c.jsonShapeOf(u.Elem(), depth+1)
	case *types.Struct:
		s.kinds["object"] = true
		s.keys = map[string]*jshape{}
		for name, f := range jsonFields(u) {
			s.keys[name] = c.jsonShapeOf(f.Type(), depth+1)
		}
	case *types.Map:
		s.kinds["object"] = true
		s.kinds["null"] = true
		s.kinds["any"] = true
	case *types.Interface:
		s.kinds["any"] = true
	}
	return s
}

// intersects: can the two shapes produce the same JSON value?
func (a *jshape) intersects(b *jshape) bool {
	if a.kinds["any"] || b.kinds["any"] {
		return true
	}
	for _, k := range []string{"null", "string", "number", "bool"} {
		if a.kinds[k] && b.kinds[k] {
			return true
		}
	}
	if a.kinds["array"] && b.kinds["array"] {
		return true // both can be the empty array
	}
	if a.kinds["object"] && b.kinds["object"] {
		if len(a.keys) != len(b.keys) {
			return false
		}
		for k, av := range a.keys {
			bv, ok := b.keys[k]
			if !ok || !av.intersects(bv) {
				return false
			}
		}
		return true
	}
	return false
}

func ruleHashShape(c *Ctx, r *Rep) {
	// the hashed value: argument of json.Marshal in the module function named by its role:
	// a method of the configuration content type returning []byte that calls sha1 / json.Marshal
	// the hashed value: the receiver of the configuration's hashing method (a method of the content type returning
	// []byte whose call-graph closure reaches json.Marshal)
	var root types.Type
	var hfn *ssa.Function
	for _, fn := range c.Funcs {
		recv := fn.Signature.Recv()
		if recv == nil || !strings.HasSuffix(typeShort(c, recv.Type()), "CertificateContent") || fn.Signature.Results().Len() != 1 {
			continue
		}
		if sl, ok := fn.Signature.Results().At(0).Type().Underlying().(*types.Slice); !ok || !types.Identical(sl.Elem(), types.Typ[types.Byte]) {
			continue
		}
		for f := range c.Graph().Reach(fn) {
			for _, ci := range callsIn(f) {
				if calleeFullName(ci) == "encoding/json.Marshal" {
					root, hfn = recv.Type(), fn
				}
			}
		}
	}
	if root == nil {
		r.Undecided("anchor:hash-function", "", "no []byte-returning method of CertificateContent reaches json.Marshal")
		return
	}
	iface := c.extConfigIface()
	var impls []*types.Named
	if iface != nil {
		for _, t := range c.implementations(iface) {
			if n, ok := t.(*types.Named); ok && strings.HasSuffix(n.Obj().Pkg().Path(), "config/v1") {
				impls = append(impls, n)
			}
		}
	}
	sort.Slice(impls, func(i, j int) bool { return impls[i].Obj().Name() < impls[j].Obj().Name() })
	// (a) visibility
	seen := map[string]bool{}
	var walk func(t types.Type, path string, depth int)
	walk = func(t types.Type, path string, depth int) {
		if depth > 10 {
			return
		}
		if p, ok := t.(*types.Pointer); ok {
			t = p.Elem()
		}
		if n, ok := t.(*types.Named); ok {
			if seen[typeShort(c, n)+"@"+path] {
				return
			}
			seen[typeShort(c, n)+"@"+path] = true
			if c.IsModObj(n.Obj()) {
				// a module type with its own JSON or text form decides what the hash sees of it: values that print
				// alike hash alike. None has one today; one that appears must be looked at.
				for _, mname := range []string{"MarshalJSON", "MarshalText"} {
					for _, recv := range []types.Type{n, types.NewPointer(n)} {
						if obj, _, _ := types.LookupFieldOrMethod(recv, true, n.Obj().Pkg(), mname); obj != nil {
							if _, isFunc := obj.(*types.Func); isFunc {
								key := "custom-marshal|" + typeShort(c, n) + "." + mname
								if !seen[key] {
									seen[key] = true
									r.Bad(key, c.Pos(obj.Pos()), "hashed module types are marshalled field by field by encoding/json (every distinct value has a distinct form)", typeShort(c, n)+" defines "+mname+" (reached at "+path+")")
								}
							}
						}
					}
				}
			}
			if !c.IsModObj(n.Obj()) {
				// library types: trusted to marshal (time.Time, pkix.*, asn1.*, big.Int); walk exported struct fields for kinds
				if typeIs(n, "time", "Time") || typeIs(n, "math/big", "Int") {
					return
				}
			}
		}
		switch u := t.Underlying().(type) {
		case *types.Struct:
			isMod := false
			if n, ok := t.(*types.Named); ok {
				isMod = c.IsModObj(n.Obj())
			}
			if isMod {
				// an embedded struct is written flat, and encoding/json drops, without a word, a promoted field whose
				// name a field of the embedding struct (or of a second embedded one) also has
				own := map[string]bool{}
				promoted := map[string]int{}
				promotedAt := map[string]token.Pos{}
				jsonName := func(st *types.Struct, i int) string {
					if n := strings.Split(reflectTagGet(st.Tag(i), "json"), ",")[0]; n != "" {
						return n
					}
					return st.Field(i).Name()
				}
				for i := 0; i < u.NumFields(); i++ {
					f := u.Field(i)
					ft := f.Type()
					if p, ok := ft.Underlying().(*types.Pointer); ok {
						ft = p.Elem()
					}
					es, isStruct := ft.Underlying().(*types.Struct)
					if f.Embedded() && isStruct && strings.Split(reflectTagGet(u.Tag(i), "json"), ",")[0] == "" {
						for j := 0; j < es.NumFields(); j++ {
							if es.Field(j).Exported() {
								promoted[jsonName(es, j)]++
								promotedAt[jsonName(es, j)] = f.Pos()
							}
						}
						continue
					}
					if f.Exported() && strings.Split(reflectTagGet(u.Tag(i), "json"), ",")[0] != "-" {
						if own[jsonName(u, i)] {
							// two fields of one struct under one name: encoding/json writes neither
							r.Bad("json-name-unique|"+path+"."+jsonName(u, i), c.Pos(f.Pos()), "every field of a hashed struct has a JSON name of its own (encoding/json leaves out, without a word, fields that share one)", sprintf("%s is the name of a second field (%s)", jsonName(u, i), f.Name()))
						}
						own[jsonName(u, i)] = true
					}
				}
				for name, k := range promoted {
					if own[name] || k > 1 {
						r.Bad("promoted-field-kept|"+path+"."+name, c.Pos(promotedAt[name]), "every field of an embedded struct reaches the JSON that is hashed (no field of the same name beside it)", sprintf("%s is shadowed or ambiguous", name))
					}
				}
			}
			for i := 0; i < u.NumFields(); i++ {
				f := u.Field(i)
				tag := reflectTagGet(u.Tag(i), "json")
				key := "visible|" + path + "." + f.Name()
				if isMod {
					vis := f.Exported() && strings.Split(tag, ",")[0] != "-"
					r.Check(vis, key, c.Pos(f.Pos()), "exported and not json:\"-\" (the hash must see it)", sprintf("exported=%v tag=%q", f.Exported(), tag))
					// omitempty writes an empty list and an absent one alike: two configurations that differ in exactly
					// that would hash alike and compare as identical JSON in the merge
					for _, opt := range strings.Split(tag, ",")[1:] {
						nilable := false
						switch f.Type().Underlying().(type) {
						case *types.Slice, *types.Map, *types.Pointer, *types.Interface:
							nilable = true // nil and empty are two values that omitempty writes alike
						}
						if opt == "omitempty" && nilable {
							r.Bad("no-omitempty|"+path+"."+f.Name(), c.Pos(f.Pos()), "every value of a hashed field has its own JSON form (no omitempty)", sprintf("tag %q", tag))
						}
					}
				}
				if f.Exported() {
					walk(f.Type(), path+"."+f.Name(), depth+1)
				}
			}
		case *types.Slice:
			walk(u.Elem(), path+"[]", depth+1)
		case *types.Array:
			walk(u.Elem(), path+"[]", depth+1)
		case *types.Map:
			walk(u.Elem(), path+"{}", depth+1)
		case *types.Signature, *types.Chan:
			r.Bad("marshalable|"+path, "", "a kind encoding/json can marshal", types.TypeString(t, nil))
		case *types.Basic:
			if u.Info()&types.IsComplex != 0 || u.Kind() == types.UnsafePointer {
				r.Bad("marshalable|"+path, "", "a kind encoding/json can marshal", u.String())
			}
		case *types.Interface:
			if iface != nil && types.Identical(u, iface) {
				for _, n := range impls {
					walk(n, "ext:"+n.Obj().Name(), depth+1)
				}
			}
		}
	}
	walk(root, "content", 0)
	r.Ok("hash-input|"+c.FuncKey(hfn), c.FnPos(hfn), "json.Marshal of the configuration content", typeShort(c, root))
	// (b) distinguishability of extension kinds
	for i := 0; i < len(impls); i++ {
		for j := i + 1; j < len(impls); j++ {
			a, b := impls[i], impls[j]
			sa, sb := c.jsonShapeOf(a, 0), c.jsonShapeOf(b, 0)
			key := "collision|v1." + a.Obj().Name() + "~v1." + b.Obj().Name()
			if sa.intersects(sb) {
				r.Bad(key, c.Pos(a.Obj().Pos()), "the two extension kinds can never marshal to the same JSON (a kind discriminator or disjoint shapes)", "same key set "+keysOf(sa)+" with overlapping value shapes: equal raw/critical/content give equal hashes although the OIDs differ")
			} else {
				r.Ok(key, c.Pos(a.Obj().Pos()), "distinguishable JSON", "disjoint shapes")
			}
		}
	}
}

func keysOf(s *jshape) string {
	var ks []string
	for k := range s.keys {
		ks = append(ks, k)
	}
	sort.Strings(ks)
	return "{" + strings.Join(ks, ",") + "}"
}

func init() {
	register(&Rule{Name: "JSON-OMITEMPTY", Floor: 1, Run: ruleJSONOmitEmpty,
		Doc: "no slice, map, pointer or interface field of a type that is hashed or compared through its JSON form carries omitempty: an empty value and an absent one would be written alike, so the merge would take a profile's content-less extension and a certificate's explicitly empty one for identical"})
}

// ruleJSONOmitEmpty re-uses the type walk of HASH-SHAPE and keeps its omitempty obligations only (the merge compares the
// same JSON forms the hash is computed from).
func ruleJSONOmitEmpty(c *Ctx, r *Rep) {
	sub := RunRule(c, rules["HASH-SHAPE"])
	n := 0
	for _, o := range sub.Obs {
		if strings.HasPrefix(o.Key, "visible|") {
			n++
		}
		if strings.HasPrefix(o.Key, "no-omitempty|") {
			r.Obs = append(r.Obs, Obligation{Rule: r.rule, Key: o.Key, Pos: o.Pos, Expected: o.Expected, Found: o.Found, Status: o.Status})
		}
		if strings.HasPrefix(o.Key, "anchor:") {
			r.Undecided(o.Key, o.Pos, o.Found)
		}
	}
	r.Ok("fields-scanned", "", "the fields of the hashed and compared types were looked at", sprintf("%d", n))
}

func init() {
	register(&Rule{Name: "HASH-FIELDS", Floor: 12, Run: ruleHashFields,
		Doc: "every field of the configuration content (subject, serial number, unique ids, ...) reaches the JSON the hash is computed from: exported, not json:\"-\", under a JSON name no second field of the struct has, not shadowed by a promoted field; an edit of such a field therefore changes the hash and the certificate is made again"})
}

// ruleHashFields re-uses the type walk of HASH-SHAPE and keeps what it says about single fields (the pairwise
// distinguishability of extension kinds, with its known findings, stays with the hash property).
func ruleHashFields(c *Ctx, r *Rep) {
	sub := RunRule(c, rules["HASH-SHAPE"])
	for _, o := range sub.Obs {
		for _, p := range []string{"visible|content.", "json-name-unique|", "promoted-field-kept|", "custom-marshal|"} {
			if strings.HasPrefix(o.Key, p) && (p != "visible|content." || strings.Count(o.Key, ".") == 1) {
				r.Obs = append(r.Obs, Obligation{Rule: r.rule, Key: o.Key, Pos: o.Pos, Expected: o.Expected, Found: o.Found, Status: o.Status})
			}
		}
		if strings.HasPrefix(o.Key, "anchor:") {
			r.Undecided(o.Key, o.Pos, o.Found)
		}
	}
}

func init() {
	register(&Rule{Name: "RDN-VALUE-KIND", Floor: 1, Run: ruleRdnValueKind,
		Doc: "the value of a subject attribute is handed to the encoder as a string or a byte string (the encoder then chooses PrintableString or UTF8String from the text), never wrapped in a pre-chosen ASN.1 string type"})
}

// ruleRdnValueKind re-uses RAWDN and keeps its attribute-value-kind obligations only (the carried issuer name, RAWDN's
// known finding, belongs to the chain property).
func ruleRdnValueKind(c *Ctx, r *Rep) {
	sub := RunRule(c, rules["RAWDN"])
	for _, o := range sub.Obs {
		if strings.HasPrefix(o.Key, "attribute-value-kind|") {
			r.Obs = append(r.Obs, Obligation{Rule: r.rule, Key: o.Key, Pos: o.Pos, Expected: o.Expected, Found: o.Found, Status: o.Status})
		}
		if strings.HasPrefix(o.Key, "anchor:") {
			r.Undecided(o.Key, o.Pos, o.Found)
		}
	}
}
