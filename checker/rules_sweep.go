package main

// Rules added after the second mutation sweep: each closes a class of surviving mutants that breaks a listed
// property (DESIGN.md 8.6). All are decided on values and conditions, not on statement shapes.

import (
	"go/constant"
	"go/token"
	"go/types"
	"strings"

	"golang.org/x/tools/go/ssa"
)

func init() {
	register(&Rule{Name: "LINT-NILDEREF", Floor: 10, Run: ruleNilDeref, Fixture: "fixture.derefKnownNil",
		Doc: "no pointer is dereferenced and no interface method invoked in the region that is only entered when the same value compared equal to nil (a guard joined with the wrong connective)"})
	register(&Rule{Name: "LINT-CONSTIDX", Floor: 1, Run: ruleConstIdx, Fixture: "fixture.constIndexBeyondMake",
		Doc: "a constant index into a slice made with a constant length (or re-sliced to constant bounds) lies inside it"})
	register(&Rule{Name: "ASN1-RAWSEQ", Floor: 4, Run: ruleRawSeq, Fixture: "fixture.primitiveSequence",
		Doc: "every asn1.RawValue handed to asn1.Marshal with a universal tag has the constructed bit DER prescribes for that tag: set for SEQUENCE and SET, clear for the primitive-only types (X.690 8.9.1, 8.11.1, 10.2)"})
	register(&Rule{Name: "BITSTRING-LEN", Floor: 2, Run: ruleBitStringLen, Fixture: "fixture.bitLengthNotEightTimes",
		Doc: "a BIT STRING built from whole bytes says so: where BitLength is computed from a length, it is 8 times the length of the very bytes stored beside it"})
	register(&Rule{Name: "OCSP-NULL", Floor: 1, Run: ruleOcspNull,
		Doc: "every extension value built for id-pkix-ocsp-nocheck is the DER NULL 05 00 (RFC 6960 4.2.2.2.1)"})
	register(&Rule{Name: "POINT-ORDER", Floor: 2, Run: rulePointOrder, Fixture: "fixture.swappedCoordinates",
		Doc: "where the coordinates of a curve point are handed to parameters named x and y, x receives the X field and y the Y field of the same key"})
}

// ---------------------------------------------------------------------------

func ruleNilDeref(c *Ctx, r *Rep) {
	pv := c.newProv()
	for _, fn := range c.Funcs {
		n := 0
		for _, b := range fn.Blocks {
			if len(b.Instrs) == 0 {
				continue
			}
			iff, ok := b.Instrs[len(b.Instrs)-1].(*ssa.If)
			if !ok {
				continue
			}
			x, nilOnTrue, ok := nilTestOf(iff.Cond, true)
			if !ok {
				continue
			}
			_, isPtr := x.Type().Underlying().(*types.Pointer)
			_, isIface := x.Type().Underlying().(*types.Interface)
			if !isPtr && !(isIface && !isErrorType(x.Type())) {
				continue
			}
			n++
			idx := 1
			if nilOnTrue {
				idx = 0
			}
			in := map[*ssa.BasicBlock]bool{}
			for _, rb := range regionOf(b, idx) {
				in[rb] = true
			}
			bad, pos := "", iff.Pos()
			for _, ref := range *x.Referrers() {
				if !in[ref.Block()] {
					continue
				}
				switch u := ref.(type) {
				case *ssa.FieldAddr:
					if u.X == x {
						bad, pos = "field "+fieldOfAddr(u).Name()+" addressed", u.Pos()
					}
				case *ssa.UnOp:
					if u.Op == token.MUL && u.X == x {
						bad, pos = "loaded through", u.Pos()
					}
				case *ssa.Call:
					if u.Call.IsInvoke() && u.Call.Value == x {
						bad, pos = "method "+u.Call.Method.Name()+" invoked", u.Pos()
					}
				}
			}
			// the same place read again (x.f == nil && x.f.g …): a second load of what was just found nil, before
			// anything could have changed it
			if xo := pv.Origins(x); bad == "" && len(xo) == 1 && !strings.HasPrefix(xo[0], "K(") && !strings.HasPrefix(xo[0], "?") {
				if _, isLoad := x.(*ssa.UnOp); isLoad {
				scan:
					for _, ins := range b.Succs[idx].Instrs {
						switch u := ins.(type) {
						case ssa.CallInstruction, *ssa.Store, *ssa.MapUpdate:
							break scan
						case *ssa.FieldAddr:
							if y, isLoad := u.X.(*ssa.UnOp); isLoad && y != x && y.Op == token.MUL {
								if yo := pv.Origins(y); len(yo) == 1 && yo[0] == xo[0] && len(b.Succs[idx].Preds) == 1 {
									bad, pos = "field "+fieldOfAddr(u).Name()+" addressed through a second read of "+xo[0], u.Pos()
								}
							}
						}
					}
				}
			}
			if !pos.IsValid() {
				pos = fn.Pos()
			}
			r.Check(bad == "", sprintf("nil-test|%s#%d", c.FuncKey(fn), n), c.Pos(pos), "the value is not dereferenced where it is known to be nil", bad)
		}
	}
}

// constLen: the length of a slice value when it follows from constants alone.
func constLen(v ssa.Value) (int64, bool) {
	switch x := v.(type) {
	case *ssa.MakeSlice:
		if k, ok := x.Len.(*ssa.Const); ok && k.Value != nil {
			return k.Int64(), true
		}
	case *ssa.Slice:
		lo := int64(0)
		if x.Low != nil {
			k, ok := x.Low.(*ssa.Const)
			if !ok || k.Value == nil {
				return 0, false
			}
			lo = k.Int64()
		}
		if x.High != nil {
			if k, ok := x.High.(*ssa.Const); ok && k.Value != nil {
				return k.Int64() - lo, true
			}
			return 0, false
		}
		if p, ok := x.X.Type().Underlying().(*types.Pointer); ok {
			if a, ok := p.Elem().Underlying().(*types.Array); ok {
				return a.Len() - lo, true
			}
		}
		if n, ok := constLen(x.X); ok {
			return n - lo, true
		}
	}
	return 0, false
}

func ruleConstIdx(c *Ctx, r *Rep) {
	for _, fn := range c.Funcs {
		n := 0
		for _, b := range fn.Blocks {
			for _, ins := range b.Instrs {
				ia, ok := ins.(*ssa.IndexAddr)
				if !ok {
					continue
				}
				k, ok := ia.Index.(*ssa.Const)
				if !ok || k.Value == nil {
					continue
				}
				ln, ok := constLen(ia.X)
				if !ok {
					continue
				}
				n++
				r.Check(k.Int64() >= 0 && k.Int64() < ln, sprintf("index|%s#%d", c.FuncKey(fn), n), c.Pos(ia.Pos()),
					sprintf("an index below the constant length %d", ln), sprintf("index %d", k.Int64()))
			}
		}
	}
}

// ---------------------------------------------------------------------------

// universal tags whose DER encoding is always constructed / always primitive
var derConstructed = map[int64]bool{16: true, 17: true}
var derPrimitive = map[int64]bool{1: true, 2: true, 3: true, 4: true, 5: true, 6: true, 10: true, 12: true, 19: true, 22: true, 23: true, 24: true}

func ruleRawSeq(c *Ctx, r *Rep) {
	ev := c.evaluator()
	for _, fn := range c.Funcs {
		n := 0
		for _, ci := range callsIn(fn) {
			name := calleeFullName(ci)
			if name != "encoding/asn1.Marshal" && name != "encoding/asn1.MarshalWithParams" {
				continue
			}
			arg := unwrapIface(ci.Common().Args[0])
			if !strings.HasSuffix(types.TypeString(arg.Type(), nil), "encoding/asn1.RawValue") {
				continue
			}
			lf := literalFields(c, arg)
			if lf == nil {
				continue // not a literal: a value carried from elsewhere
			}
			n++
			key := sprintf("raw|%s#%d", c.FuncKey(fn), n)
			intOf := func(f string) (int64, bool) {
				v, ok := lf[f]
				if !ok {
					return 0, true
				}
				d := c.describe(ev, v, 0)
				if i, ok := d.Int(); ok {
					return i, true
				}
				if bv, ok := d.Bool(); ok {
					if bv {
						return 1, true
					}
					return 0, true
				}
				return 0, false
			}
			class, ok1 := intOf("Class")
			tag, ok2 := intOf("Tag")
			comp, ok3 := intOf("IsCompound")
			if _, full := lf["FullBytes"]; full {
				continue // the bytes are emitted as they are
			}
			if !ok1 || !ok2 || !ok3 {
				r.Undecided("shape:"+key, c.Pos(ci.Pos()), "class, tag or constructed bit of the literal is not a constant")
				continue
			}
			if class != 0 {
				r.Ok(key, c.Pos(ci.Pos()), "universal tags only", sprintf("class %d", class))
				continue
			}
			switch {
			case derConstructed[tag]:
				r.Check(comp == 1, key, c.Pos(ci.Pos()), sprintf("universal tag %d is constructed", tag), sprintf("IsCompound %v", comp == 1))
			case derPrimitive[tag]:
				r.Check(comp == 0, key, c.Pos(ci.Pos()), sprintf("universal tag %d is primitive", tag), sprintf("IsCompound %v", comp == 1))
			default:
				r.Ok(key, c.Pos(ci.Pos()), "a tag with a prescribed form", sprintf("universal tag %d", tag))
			}
		}
	}
}

// ---------------------------------------------------------------------------

// lenOperand: v == len(x) (directly or converted): x.
func lenOperand(v ssa.Value) (ssa.Value, bool) {
	for {
		switch x := v.(type) {
		case *ssa.Convert:
			v = x.X
			continue
		case *ssa.ChangeType:
			v = x.X
			continue
		case *ssa.Call:
			if b, ok := x.Call.Value.(*ssa.Builtin); ok && b.Name() == "len" {
				return x.Call.Args[0], true
			}
		}
		return nil, false
	}
}

func mentionsLen(v ssa.Value, depth int) bool {
	if depth > 4 {
		return false
	}
	if _, ok := lenOperand(v); ok {
		return true
	}
	if b, ok := v.(*ssa.BinOp); ok {
		return mentionsLen(b.X, depth+1) || mentionsLen(b.Y, depth+1)
	}
	return false
}

func ruleBitStringLen(c *Ctx, r *Rep) {
	for _, fn := range c.Funcs {
		// group the field stores of each BitString being filled
		type lit struct {
			bytes, bits ssa.Value
			pos         token.Pos
		}
		// the BitString is named by where it lives (base value and field path) and the block that fills it:
		// two statements on out.Id.Bytes and out.Id.BitLength address it through different instructions
		type where struct {
			base  ssa.Value
			path  string
			block *ssa.BasicBlock
		}
		lits := map[where]*lit{}
		var order []where
		for _, b := range fn.Blocks {
			for _, ins := range b.Instrs {
				st, ok := ins.(*ssa.Store)
				if !ok {
					continue
				}
				fa, ok := st.Addr.(*ssa.FieldAddr)
				if !ok || !strings.HasSuffix(ownerName(c, fa.X.Type()), "asn1.BitString") {
					continue
				}
				w := where{base: fa.X, block: b}
				for {
					up, ok := w.base.(*ssa.FieldAddr)
					if !ok {
						break
					}
					w.path = fieldOfAddr(up).Name() + "." + w.path
					w.base = up.X
				}
				l := lits[w]
				if l == nil {
					l = &lit{}
					lits[w] = l
					order = append(order, w)
				}
				switch fieldOfAddr(fa).Name() {
				case "Bytes":
					l.bytes = st.Val
				case "BitLength":
					l.bits, l.pos = st.Val, st.Pos()
				}
			}
		}
		n := 0
		for _, root := range order {
			l := lits[root]
			if l.bits == nil || l.bytes == nil || !mentionsLen(l.bits, 0) {
				continue // no length given (whole bytes by default), a count of named bits, or bytes stored elsewhere
			}
			n++
			key := sprintf("bit-length|%s#%d", c.FuncKey(fn), n)
			ok := false
			found := "another expression"
			if m, isBin := l.bits.(*ssa.BinOp); isBin && m.Op == token.MUL {
				for _, pair := range [][2]ssa.Value{{m.X, m.Y}, {m.Y, m.X}} {
					of, isLen := lenOperand(pair[0])
					k, isK := pair[1].(*ssa.Const)
					if isLen && isK && k.Value != nil {
						found = sprintf("len(…) * %d", k.Int64())
						if k.Int64() == 8 && of == l.bytes {
							ok = true
						} else if k.Int64() == 8 {
							found = "8 * the length of other bytes"
						}
					}
				}
			}
			r.Check(ok, key, c.Pos(l.pos), "8 * len(the bytes stored beside it)", found)
		}
	}
}

// ---------------------------------------------------------------------------

func ruleOcspNull(c *Ctx, r *Rep) {
	ev := c.evaluator()
	want := ""
	for _, e := range refList("extensions") {
		if strings.EqualFold(rs(e, "name"), "ocspNoCheck") || strings.Contains(strings.ToLower(rs(e, "name")), "ocspnocheck") {
			want = rs(e, "oid")
		}
	}
	if want == "" {
		want = "1.3.6.1.5.5.7.48.1.5"
	}
	n := 0
	check := func(key, pos string, v *Val) {
		id := v.Fields["Id"]
		if id == nil || id.Kind != "ints" || oidString(id.Ints) != want {
			return
		}
		n++
		val := v.Fields["Value"]
		switch {
		case val == nil:
			r.Bad(key, pos, "05 00", "no value")
		case val.Kind == "ints":
			r.Check(len(val.Ints) == 2 && val.Ints[0] == 5 && val.Ints[1] == 0, key, pos, "05 00 (NULL)", sprintf("% x", intsToBytes(val.Ints)))
		case val.Kind == "ref" && strings.HasSuffix(val.Name, "asn1.NullBytes"):
			r.Ok(key, pos, "05 00 (NULL)", "asn1.NullBytes")
		default:
			r.Undecided("shape:"+key, pos, "value of the ocsp-nocheck extension is not a constant: "+val.String())
		}
	}
	// package-level extension values
	for _, p := range c.Pkgs {
		if !c.isModPath(p.PkgPath) {
			continue
		}
		sc := p.Types.Scope()
		for _, name := range sc.Names() {
			v, ok := sc.Lookup(name).(*types.Var)
			if !ok || !strings.HasSuffix(types.TypeString(v.Type(), nil), "pkix.Extension") {
				continue
			}
			d := ev.GlobalVal(v)
			if d != nil && d.Kind == "struct" {
				check("var|"+objName(c, v), c.Pos(v.Pos()), d)
			}
		}
	}
	// literals built inside functions
	for _, fn := range c.Funcs {
		roots := map[ssa.Value]map[string]ssa.Value{}
		var order []ssa.Value
		for _, fs := range storesIntoType(c, fn, "pkix.Extension") {
			if fs.whole || strings.Contains(fs.field, ".") {
				continue
			}
			if roots[fs.root] == nil {
				roots[fs.root] = map[string]ssa.Value{}
				order = append(order, fs.root)
			}
			roots[fs.root][fs.field] = fs.val()
		}
		for i, root := range order {
			f := roots[root]
			if f["Id"] == nil {
				continue
			}
			d := &Val{Kind: "struct", Fields: map[string]*Val{"Id": c.describe(ev, f["Id"], 0)}}
			if f["Value"] != nil {
				d.Fields["Value"] = c.describe(ev, f["Value"], 0)
			}
			check(sprintf("literal|%s#%d", c.FuncKey(fn), i+1), c.FnPos(fn), d)
		}
	}
	if n == 0 {
		r.Undecided("anchor:ocsp-nocheck-extension", "", "no extension value with id "+want+" found")
	}
}

func intsToBytes(a []int) []byte {
	out := make([]byte, len(a))
	for i, x := range a {
		out[i] = byte(x)
	}
	return out
}

// ---------------------------------------------------------------------------

func rulePointOrder(c *Ctx, r *Rep) {
	// the access path of a coordinate: base value and field name
	coord := func(v ssa.Value) (ssa.Value, string, bool) {
		u, ok := v.(*ssa.UnOp)
		if !ok || u.Op != token.MUL {
			return nil, "", false
		}
		fa, ok := u.X.(*ssa.FieldAddr)
		if !ok {
			return nil, "", false
		}
		name := fieldOfAddr(fa).Name()
		if name != "X" && name != "Y" {
			return nil, "", false
		}
		// skip the embedded public key: key.PublicKey.X and key.X are the same field
		base := fa.X
		for {
			up, ok := base.(*ssa.FieldAddr)
			if !ok || !fieldOfAddr(up).Embedded() && fieldOfAddr(up).Name() != "PublicKey" {
				break
			}
			base = up.X
		}
		return base, name, true
	}
	for _, fn := range c.Funcs {
		n := 0
		for _, ci := range callsIn(fn) {
			sig := ci.Common().Signature()
			args := ci.Common().Args
			off := 0
			if ci.Common().IsInvoke() {
				off = 0 // invoke: Args exclude the receiver, as do Params
			} else if sig.Recv() != nil {
				off = 1
			}
			for i := 0; i+1 < sig.Params().Len(); i++ {
				px, py := strings.ToLower(sig.Params().At(i).Name()), strings.ToLower(sig.Params().At(i+1).Name())
				if !(px == "x" && py == "y") {
					continue
				}
				if i+1+off >= len(args) {
					continue
				}
				bx, nx, ok1 := coord(args[i+off])
				by, ny, ok2 := coord(args[i+1+off])
				if !ok1 || !ok2 || bx != by {
					continue
				}
				n++
				r.Check(nx == "X" && ny == "Y", sprintf("point|%s#%d", c.FuncKey(fn), n), c.Pos(ci.Pos()),
					"("+calleeFullName(ci)+") x <- .X, y <- .Y", "x <- ."+nx+", y <- ."+ny)
			}
		}
	}
}

var _ = constant.MakeInt64

// ---------------------------------------------------------------------------

// emptyTestOf reads a branch condition as a test for emptiness of a string or slice: the operand, and whether it is
// empty on the edge with the given truth. A comparison of len(x) with a constant counts only when it separates
// exactly the empty from the non-empty (len(x) > 0, len(x) != 0, len(x) >= 1, 0 < len(x), … and their negations).
func emptyTestOf(cond ssa.Value, truth bool) (ssa.Value, bool, bool) {
	for {
		u, ok := cond.(*ssa.UnOp)
		if !ok || u.Op != token.NOT {
			break
		}
		cond, truth = u.X, !truth
	}
	// a one-expression predicate helper: the test it returns (its operand is then a value of the helper)
	if call, ok := cond.(*ssa.Call); ok {
		if f := call.Call.StaticCallee(); f != nil && len(f.Blocks) == 1 {
			if ret, ok := f.Blocks[0].Instrs[len(f.Blocks[0].Instrs)-1].(*ssa.Return); ok && len(ret.Results) == 1 {
				return emptyTestOf(ret.Results[0], truth)
			}
		}
		return nil, false, false
	}
	bin, ok := cond.(*ssa.BinOp)
	if !ok {
		return nil, false, false
	}
	cmp := func(op token.Token, a, b int64) (bool, bool) {
		switch op {
		case token.EQL:
			return a == b, true
		case token.NEQ:
			return a != b, true
		case token.LSS:
			return a < b, true
		case token.LEQ:
			return a <= b, true
		case token.GTR:
			return a > b, true
		case token.GEQ:
			return a >= b, true
		}
		return false, false
	}
	var x ssa.Value
	var pred func(n int64) (bool, bool)
	kx, xIsK := bin.X.(*ssa.Const)
	ky, yIsK := bin.Y.(*ssa.Const)
	switch {
	case yIsK && ky.Value != nil && ky.Value.Kind() == constant.String && constant.StringVal(ky.Value) == "" && (bin.Op == token.EQL || bin.Op == token.NEQ):
		x = bin.X
		pred = func(n int64) (bool, bool) { return cmp(bin.Op, n, 0) }
	case xIsK && kx.Value != nil && kx.Value.Kind() == constant.String && constant.StringVal(kx.Value) == "" && (bin.Op == token.EQL || bin.Op == token.NEQ):
		x = bin.Y
		pred = func(n int64) (bool, bool) { return cmp(bin.Op, n, 0) }
	case yIsK && ky.Value != nil && ky.Value.Kind() == constant.Int:
		of, isLen := lenOperand(bin.X)
		if !isLen {
			return nil, false, false
		}
		x = of
		pred = func(n int64) (bool, bool) { return cmp(bin.Op, n, ky.Int64()) }
	case xIsK && kx.Value != nil && kx.Value.Kind() == constant.Int:
		of, isLen := lenOperand(bin.Y)
		if !isLen {
			return nil, false, false
		}
		x = of
		pred = func(n int64) (bool, bool) { return cmp(bin.Op, kx.Int64(), n) }
	default:
		return nil, false, false
	}
	at0, ok0 := pred(0)
	if !ok0 {
		return nil, false, false
	}
	for _, n := range []int64{1, 2, 3, 1 << 40} {
		if v, _ := pred(n); v == at0 {
			return nil, false, false // does not separate empty from non-empty
		}
	}
	// on the true edge x is empty iff pred(0)
	return x, at0 == truth, true
}

func init() {
	register(&Rule{Name: "GUARD-SELFSIGNED", Floor: 1, Run: ruleGuardSelfSigned,
		Doc: "the issuer's stored artifact is looked up exactly when the entity's configuration names an issuer, and the entity acts as its own issuer exactly when it names none: the lookup lies behind a test that the Issuer field is non-empty, the own-context conversion behind the test that it is empty"})
}

func ruleGuardSelfSigned(c *Ctx, r *Rep) {
	pv := c.newProv()
	isConverter := func(f *ssa.Function) bool {
		return f != nil && c.InModule(f) && len(f.Params) == 1 && f.Signature.Results().Len() == 1 &&
			strings.HasSuffix(typeShort(c, f.Signature.Results().At(0).Type()), "cert.IssuerContext") &&
			strings.HasSuffix(typeShort(c, f.Params[0].Type()), "cert.CertificateContext")
	}
	issuerField := func(v ssa.Value) bool {
		o := pv.Origins(v)
		if len(o) == 0 {
			return false
		}
		for _, x := range o {
			if !strings.HasSuffix(x, ".Issuer") {
				return false
			}
		}
		return true
	}
	// is block b only entered when the Issuer field is (non-)empty?
	guarded := func(b *ssa.BasicBlock, wantEmpty bool) (bool, string) {
		found := "no test of the Issuer field on the way"
		for _, g := range guardsOf(b) {
			x, empty, ok := emptyTestOf(g.Cond, g.Truth)
			if !ok || !issuerField(x) {
				continue
			}
			if empty == wantEmpty {
				return true, "so"
			}
			found = "behind the opposite test"
		}
		return false, found
	}
	n := 0
	for _, fn := range c.Funcs {
		var lookups []ssa.CallInstruction
		for _, ci := range callsIn(fn) {
			cm := ci.Common()
			if cm.IsInvoke() && cm.Method.Name() == "GetBuildArtifact" && len(cm.Args) == 1 && issuerField(cm.Args[0]) {
				lookups = append(lookups, ci)
			}
		}
		if len(lookups) == 0 {
			continue
		}
		fk := c.FuncKey(fn)
		for i, ci := range lookups {
			n++
			ok, found := guarded(ci.Block(), false)
			r.Check(ok, sprintf("lookup-when-issuer-named|%s#%d", fk, i+1), c.Pos(ci.Pos()), "the issuer's artifact is fetched only behind a test that the Issuer field is non-empty", found)
		}
		k := 0
		for _, ci := range callsIn(fn) {
			if !isConverter(ci.Common().StaticCallee()) {
				continue
			}
			k++
			ok, found := guarded(ci.Block(), true)
			r.Check(ok, sprintf("self-when-no-issuer|%s#%d", fk, k), c.Pos(ci.Pos()), "the entity's own context becomes the issuer only behind a test that the Issuer field is empty", found)
		}
	}
	if n == 0 {
		r.Undecided("anchor:issuer-lookup", "", "no GetBuildArtifact(<config>.Issuer) call found")
	}
}

// ---------------------------------------------------------------------------

func init() {
	register(&Rule{Name: "GUARD-PROFILE", Floor: 1, Run: ruleGuardProfile,
		Doc: "where a configuration is validated against its profile, the only successful exits are the one behind a passed validation and the one behind a test that the configuration names no profile"})
}

func ruleGuardProfile(c *Ctx, r *Rep) {
	pv := c.newProv()
	profileField := func(v ssa.Value) bool {
		o := pv.Origins(v)
		if len(o) == 0 {
			return false
		}
		for _, x := range o {
			if !strings.HasSuffix(x, ".Profile") {
				return false
			}
		}
		return true
	}
	n := 0
	for fn, cis := range c.funcsCalling(c.modPkg("generator/config") + ".Validate") {
		fk := c.FuncKey(fn)
		// the edges taken when a validation passed
		type edge struct {
			b   *ssa.BasicBlock
			idx int
		}
		var passed []edge
		for _, ci := range cis {
			call, ok := ci.(*ssa.Call)
			if !ok {
				continue
			}
			for _, ref := range *call.Referrers() {
				if iff, ok := ref.(*ssa.If); ok {
					passed = append(passed, edge{iff.Block(), 0})
				}
				if un, ok := ref.(*ssa.UnOp); ok && un.Op == token.NOT {
					for _, r2 := range *un.Referrers() {
						if iff, ok := r2.(*ssa.If); ok {
							passed = append(passed, edge{iff.Block(), 1})
						}
					}
				}
			}
		}
		if len(passed) == 0 {
			r.Undecided("shape:"+fk, c.FnPos(fn), "the result of the validation is not branched on directly")
			continue
		}
		k := 0
		for _, ret := range returnsOf(fn) {
			res := retResults(ret)
			if len(res) == 0 || !isErrorType(res[len(res)-1].Type()) {
				continue
			}
			if e, ok := res[len(res)-1].(*ssa.Const); !ok || !e.IsNil() {
				continue // not a plain success exit
			}
			k++
			n++
			ok := false
			how := "neither behind a passed validation nor behind a test that no profile is named"
			for _, e := range passed {
				if edgeDominates(e.b, e.idx, ret.Block()) {
					ok, how = true, "behind a passed validation"
				}
			}
			for _, g := range guardsOf(ret.Block()) {
				if x, empty, isTest := emptyTestOf(g.Cond, g.Truth); isTest && profileField(x) && empty {
					ok, how = true, "behind the test that no profile is named"
				}
			}
			r.Check(ok, sprintf("success-exit|%s#%d", fk, k), c.Pos(ret.Pos()), "a successful exit lies behind a passed validation, or behind a test that the Profile field is empty", how)
		}
	}
	if n == 0 {
		r.Undecided("anchor:validation-site", "", "no function calls config.Validate and returns an error")
	}
}

// lookupTotal: with its parameter set to each valid index in turn, the table lookup fn reaches only exits that answer
// (an element of the table, true); one obligation per index.
func lookupTotal(c *Ctx, ev *evaluator, r *Rep, fn *ssa.Function, n int, names func(int) string) {
	if fn == nil || len(fn.Params) != 1 {
		return
	}
	for k := 0; k < n; k++ {
		assume := map[*ssa.Parameter]int64{fn.Params[0]: int64(k)}
		reached := 0
		bad := ""
		canReach := reachableUnder(c, fn, map[ssa.Value]int64{fn.Params[0]: int64(k)})
		for _, ret := range returnsOf(fn) {
			if !blockFeasibleUnder(c, ev, ret.Block(), assume) || !canReach[ret.Block()] {
				continue
			}
			reached++
			res := retResults(ret)
			okFlag := false
			if kb, isK := res[1].(*ssa.Const); isK && kb.Value != nil && kb.Value.Kind() == constant.Bool {
				okFlag = constant.BoolVal(kb.Value)
			} else if !isK {
				bad = "the found-flag is not a constant at " + c.Pos(ret.Pos())
				continue
			}
			if !okFlag {
				bad = "answers not-found at " + c.Pos(ret.Pos())
				continue
			}
			// the element: a load from the table at the parameter
			elemOK := false
			if u, ok := res[0].(*ssa.UnOp); ok && u.Op == token.MUL {
				if ia, ok := u.X.(*ssa.IndexAddr); ok {
					idx := ia.Index
					if cv, ok := idx.(*ssa.Convert); ok {
						idx = cv.X
					}
					elemOK = idx == ssa.Value(fn.Params[0])
				}
			}
			if !elemOK {
				bad = "does not answer the table entry at its argument at " + c.Pos(ret.Pos())
			}
		}
		if reached == 0 {
			bad = "no exit is reachable"
		}
		r.Check(bad == "", "lookup-total|"+names(k), c.FnPos(fn), sprintf("%s(%d) answers (table[%d], true)", c.FuncKey(fn), k, k), bad)
	}
}

// guardsHoldUnder: no comparison on the way to b, evaluated with the given values, comes out against the edge taken.
func guardsHoldUnder(c *Ctx, b *ssa.BasicBlock, leaves map[ssa.Value]int64) bool {
	for _, g := range guardsOf(b) {
		if res, decided := cmpUnder(c, g.Cond, leaves); decided && res != g.Truth {
			return false
		}
	}
	return true
}

// cmpUnder evaluates a comparison of integer expressions under the given values.
func cmpUnder(c *Ctx, cond ssa.Value, leaves map[ssa.Value]int64) (res, decided bool) {
	neg := false
	for {
		u, ok := cond.(*ssa.UnOp)
		if !ok || u.Op != token.NOT {
			break
		}
		cond, neg = u.X, !neg
	}
	bin, ok := cond.(*ssa.BinOp)
	if !ok {
		return false, false
	}
	a, ok1 := evalIntExpr(c, bin.X, leaves, nil, 0)
	b, ok2 := evalIntExpr(c, bin.Y, leaves, nil, 0)
	if !ok1 || !ok2 {
		return false, false
	}
	switch bin.Op {
	case token.EQL:
		res = a == b
	case token.NEQ:
		res = a != b
	case token.LSS:
		res = a < b
	case token.LEQ:
		res = a <= b
	case token.GTR:
		res = a > b
	case token.GEQ:
		res = a >= b
	default:
		return false, false
	}
	return res != neg, true
}

// reachableUnder: the blocks some path from the entry reaches when every comparison that the given values decide is
// taken the way it comes out (undecided branches go both ways).
func reachableUnder(c *Ctx, fn *ssa.Function, leaves map[ssa.Value]int64) map[*ssa.BasicBlock]bool {
	seen := map[*ssa.BasicBlock]bool{}
	if len(fn.Blocks) == 0 {
		return seen
	}
	stack := []*ssa.BasicBlock{fn.Blocks[0]}
	for len(stack) > 0 {
		b := stack[len(stack)-1]
		stack = stack[:len(stack)-1]
		if seen[b] {
			continue
		}
		seen[b] = true
		if iff, ok := b.Instrs[len(b.Instrs)-1].(*ssa.If); ok {
			if res, decided := cmpUnder(c, iff.Cond, leaves); decided {
				if res {
					stack = append(stack, b.Succs[0])
				} else {
					stack = append(stack, b.Succs[1])
				}
				continue
			}
		}
		stack = append(stack, b.Succs...)
	}
	return seen
}

func init() {
	register(&Rule{Name: "LINT-NILPHI", Floor: 0, Run: ruleNilPhi, Fixture: "fixture.useOfMaybeUnset",
		Doc: "a pointer or interface variable that is still nil on one way into a join (an assignment missing on one branch) is not dereferenced or invoked after the join without a test against nil"})
}

func ruleNilPhi(c *Ctx, r *Rep) {
	for _, fn := range c.Funcs {
		n := 0
		for _, b := range fn.Blocks {
			for _, ins := range b.Instrs {
				phi, ok := ins.(*ssa.Phi)
				if !ok {
					break // phis lead the block
				}
				_, isPtr := phi.Type().Underlying().(*types.Pointer)
				_, isIface := phi.Type().Underlying().(*types.Interface)
				if !isPtr && !isIface || isErrorType(phi.Type()) {
					continue
				}
				nilEdge := false
				for _, e := range phi.Edges {
					if k, ok := e.(*ssa.Const); ok && k.IsNil() {
						nilEdge = true
					}
				}
				if !nilEdge {
					continue
				}
				n++
				bad, pos := "", phi.Pos()
				for _, ref := range *phi.Referrers() {
					deref := ""
					switch u := ref.(type) {
					case *ssa.FieldAddr:
						if u.X == ssa.Value(phi) {
							deref = "field " + fieldOfAddr(u).Name() + " addressed"
						}
					case *ssa.UnOp:
						if u.Op == token.MUL && u.X == ssa.Value(phi) {
							deref = "loaded through"
						}
					case *ssa.Call:
						if u.Call.IsInvoke() && u.Call.Value == ssa.Value(phi) {
							deref = "method " + u.Call.Method.Name() + " invoked"
						}
					}
					if deref == "" {
						continue
					}
					guarded := false
					for _, g := range guardsOf(ref.Block()) {
						if x, isNil, ok := nilTestOf(g.Cond, g.Truth); ok && x == ssa.Value(phi) && !isNil {
							guarded = true
						}
					}
					if !guarded {
						bad, pos = deref+" without a test against nil", ref.Pos()
					}
				}
				if !pos.IsValid() {
					pos = fn.Pos()
				}
				r.Check(bad == "", sprintf("join|%s#%d", c.FuncKey(fn), n), c.Pos(pos), "a value that is nil on one way in is tested before it is used", bad)
			}
		}
	}
}

func init() {
	register(&Rule{Name: "LINT-PADCOPY", Floor: 0, Run: rulePadCopy, Fixture: "fixture.padCopyWrongOffset",
		Doc: "where bytes are copied to the end of a buffer at an offset computed from lengths, the offset is len(buffer) - len(source), so the value keeps its low-order end and is padded in front"})
}

func rulePadCopy(c *Ctx, r *Rep) {
	pv := c.newProv()
	same := func(a, b ssa.Value) bool {
		if a == b {
			return true
		}
		if sameLoad(a, b) {
			return true
		}
		oa, ob := pv.Origins(a), pv.Origins(b)
		return len(oa) == 1 && len(ob) == 1 && oa[0] == ob[0] && !strings.HasPrefix(oa[0], "?")
	}
	for _, fn := range c.Funcs {
		n := 0
		for _, ci := range callsIn(fn) {
			b, ok := ci.Common().Value.(*ssa.Builtin)
			if !ok || b.Name() != "copy" {
				continue
			}
			dst, ok := ci.Common().Args[0].(*ssa.Slice)
			if !ok || dst.Low == nil || dst.High != nil || !mentionsLen(dst.Low, 0) {
				continue
			}
			src := ci.Common().Args[1]
			n++
			okOff, found := false, "another expression of lengths"
			if sub, isBin := dst.Low.(*ssa.BinOp); isBin {
				lx, isLx := lenOperand(sub.X)
				ly, isLy := lenOperand(sub.Y)
				if isLx && isLy {
					found = "len(…) " + sub.Op.String() + " len(…)"
					okOff = sub.Op == token.SUB && same(lx, dst.X) && same(ly, src)
				}
			}
			r.Check(okOff, sprintf("offset|%s#%d", c.FuncKey(fn), n), c.Pos(ci.Pos()), "len(buffer) - len(source)", found)
		}
	}
}

// sameLoad: two reads of the same variable or field in one block with no store or call between them.
func sameLoad(a, b ssa.Value) bool {
	la, ok1 := a.(*ssa.UnOp)
	lb, ok2 := b.(*ssa.UnOp)
	if !ok1 || !ok2 || la.Op != token.MUL || lb.Op != token.MUL || la.Block() != lb.Block() {
		return false
	}
	sameAddr := la.X == lb.X
	if fa, ok := la.X.(*ssa.FieldAddr); ok && !sameAddr {
		if fb, ok := lb.X.(*ssa.FieldAddr); ok {
			sameAddr = fa.X == fb.X && fa.Field == fb.Field
		}
	}
	if !sameAddr {
		return false
	}
	in := false
	for _, ins := range la.Block().Instrs {
		if ins == ssa.Instruction(la) || ins == ssa.Instruction(lb) {
			if in {
				return true
			}
			in = true
			continue
		}
		if !in {
			continue
		}
		switch ins.(type) {
		case *ssa.Store, ssa.CallInstruction, *ssa.MapUpdate:
			if call, ok := ins.(*ssa.Call); ok {
				if _, isBuiltin := call.Call.Value.(*ssa.Builtin); isBuiltin {
					continue
				}
			}
			return false
		}
	}
	return false
}
